package rules

import (
	"strings"

	"verif/checker/internal/core"
)

func inMod(p string) bool { return strings.HasPrefix(p, core.Mod) }

// packages on the loading/validation path
func frontScope(p string) bool {
	for _, s := range []string{"/pkg/dsl", "/pkg/packaging", "/internal/cmd", "/internal/validation"} {
		if strings.HasPrefix(p, core.Mod+s) {
			return true
		}
	}
	return false
}

func frontEndNoEvolution(f string) bool {
	return frontEndFile(f) && !strings.Contains(f, "/pkg/dsl/evolution")
}

func schemaFiles(f string) bool { return strings.HasSuffix(f, "/pkg/dsl/protocolschema.go") }

func evoScope(p string) bool { return p == core.Mod+"/pkg/dsl" }

func evolutionFiles(f string) bool { return strings.Contains(f, "/pkg/dsl/evolution") }

func backendFiles(f string) bool {
	return !strings.HasSuffix(f, "_test.go") && (strings.Contains(f, "/internal/cpp/") || strings.Contains(f, "/internal/python/") || strings.Contains(f, "/internal/matlab/") || strings.Contains(f, "/internal/ndjsoncommon/") || strings.Contains(f, "/internal/formatting/") || strings.Contains(f, "/internal/iocommon/"))
}

func topoSortFiles(f string) bool {
	return strings.HasSuffix(f, "/pkg/dsl/validation_topological_sort.go")
}

func dslValidationFiles(f string) bool {
	return strings.Contains(f, "/pkg/dsl/validation") || strings.HasSuffix(f, "/pkg/dsl/yaml.go")
}

// ndjsonCommonFiles: the JSON-kind table shared by the Python and C++ NDJSON generators
func ndjsonCommonFiles(f string) bool {
	return !strings.HasSuffix(f, "_test.go") && strings.Contains(f, "/internal/ndjsoncommon/")
}

func init() {
	reg("C05", ruleConditionalTargetAssignmentsHaveElse, ruleStateMachineSchemaCheck, ruleStringParsedWideEnough, ruleUnionIndexSkipsNull, ruleTemporaryBatchHasCapacity, ruleEmittedCasesDoNotFallThrough, ruleParallelSlicesStayAligned, ruleIntegerNarrowingChecked, ruleInverseInvolution, ruleWrapperRecursion, ruleChangeKindsConsumed, ruleEndStream, ruleComparersConsultTheirData, rulePreviousSchemasPositional, ruleOldTypesOnTheOldWire)
	reg("C06", ruleSearchLoopsIterate, rulePointersToScalarsComparedByValue, ruleDefaultGoesToTestedVariable, ruleParallelSlicesStayAligned, ruleParseCachePerPackage, ruleOptionalDeref(evolutionFiles, "NP1", 3), ruleWrapperRecursion, ruleChangeKindsConsumed, ruleChangeDataUsed, ruleComparersConsultTheirData, ruleE3(evoScope, "E3"), ruleE2(evoScope, "E2"), ruleE5(evoScope, "E5"), ruleMapOrderScoped, rulePrunesPartial(evolutionFiles, "V5", 3))
	reg("C04", ruleSchemaTextExact, ruleResultsOfPureFunctionsUsed, ruleSchemaDefinedBeforeItIsCopied, ruleSchemaListsAndDistinguishes, ruleDefinitionsKeyedByIdentity, ruleNoTestOfUnsetField, ruleNoRunTimeGlobals, ruleOneSchemaFunction, ruleMarshalCoverage, ruleSchemaCanonical, rulePrunes(schemaFiles, "V5", 2), ruleRewriterDescends(schemaFiles, "V8", 2), ruleStateMachineSchemaCheck)
	reg("C01", ruleUnionIndexUnsignedOnTheWire, ruleEmittedCasesDoNotFallThrough, ruleUnionIndexSkipsNull, rulePlan, ruleRecordOrder, ruleDirectionDuality, ruleCppPrimitiveFamilies, ruleStepFraming, ruleEmptyBatchGuard, ruleEndStream, ruleTrivialRecordTrait, ruleCppEnumUnderlyingType)
	reg("C16", ruleRequiredPerStepAndExitPropagates, ruleBatchReadReportsCounter, ruleEndStream, ruleStepFraming)
	reg("C17", ruleConditionalTargetAssignmentsHaveElse, ruleTemporaryBatchHasCapacity, ruleEmittedReadersOverwrite, ruleBatchReadReportsCounter, ruleEmptyBatchGuard, ruleStepFraming, ruleFallbackBatchTruncates)
	reg("C15", ruleNoRunTimeGlobals, ruleSchemaTextExact, ruleSchemaListsAndDistinguishes, ruleDefinitionsKeyedByIdentity, ruleNoTestOfUnsetField, ruleStateMachineSchemaCheck, ruleMarshalCoverage, ruleSchemaCanonical, rulePrunes(schemaFiles, "V5", 2), ruleRewriterDescends(schemaFiles, "V8", 2), rulePreviousSchemasPositional)
	reg("C03", ruleUnionTagsPrintedVerbatim, ruleEnumFallbackKeepsTheBaseType, ruleOptionalFieldSymmetry, ruleUnionTagDecision, ruleEnumDefaultBaseIsInt32, ruleUnionIndexSkipsNull, ruleEmittedSymbols, rulePlan, ruleJsonKinds, ruleTrivialRecordTrait, ruleJsonNamesAreModelNames, ruleCppEnumUnderlyingType)
	reg("C08", ruleResolvedDefinitionSwitchesResolveAliases, ruleAborts(ndjsonCommonFiles, "P4j", 1), ruleDefinitionSwitchesResolveAliases, ruleAliasNameOnlyForTheAliasedUnion, ruleUnionDtypesBeforeTheirUsers, ruleEmittedLambdasCapture, ruleContextNamespaceThreaded, ruleEmptyDimensionListRejected, ruleNoContradictoryShapeTests, ruleGeneralizeUnderlying, ruleOptionalDeref(backendFiles, "NP1", 20), ruleDocstringQuotePadding, ruleEmittedSymbols, ruleSwitchDefaults(backendFiles, "P4", 25), ruleReservedTables, ruleIdentifierHelpers, ruleDependenciesFirst, ruleOptionGating, ruleUniquenessVsMangling)
	reg("C19", rulePrunes(func(f string) bool { return strings.HasSuffix(f, "/pkg/dsl/validation_computed_fields.go") }, "V5", 1), ruleResolvedDefinitionSwitchesResolveAliases, ruleEveryPatternBranchEmitsTheCaseExpression, ruleShadowedVariableIsRead, ruleFoldKeepsResult, ruleArithmeticOnNumbersOnly, ruleGeneralizeUnderlying, ruleTypingSymmetric, ruleCommonTypeMap, ruleEmitterSiblings, ruleParenthesisation, ruleOperatorTokens, rulePromotionNotBypassed, ruleConversionAlwaysExplicit, ruleMatlabConversionClass, ruleSizeFunctionTokens)
	reg("C13", ruleExpressionScalarTags, ruleModelDirectoryReadRecursively, ruleShorthandArrayWithoutDimensions, ruleDecodeLoopLeavesOnError, rulePlan, ruleAliasTable, ruleFilesAreCombined, ruleSpellingErased, ruleShorthandTwins, ruleDocCommentSuffix, ruleTypeTags, ruleDimensionItemSpellings, ruleSchemaCanonical, rulePrunes(topoSortFiles, "V5", 2))
	reg("C07", ruleStateCounterIsWide, ruleExitClosesThroughStateCheck, ruleStateMachine, ruleNoReturnBeforeStateGuard)
	reg("C02", ruleUnionTagsPrintedVerbatim, ruleEnumFallbackKeepsTheBaseType, ruleConditionalTargetAssignmentsHaveElse, ruleAborts(ndjsonCommonFiles, "P4j", 1), ruleEmittedFlagsNamesOnlyWhenComplete, ruleEmittedReadersOverwrite, ruleJsonKinds, ruleUnionTagDecision, ruleKindTests, ruleOptionalFieldSymmetry, ruleJsonNamesAreModelNames)
	reg("C14", ruleUnionTagsPrintedVerbatim, ruleEnumFallbackKeepsTheBaseType, ruleUnionIndexUnsignedOnTheWire, ruleJsonNamesAreModelNames, ruleEnumDefaultBaseIsInt32, ruleUnionIndexSkipsNull, ruleNoContradictoryShapeTests, rulePlan, ruleUnionTagDecision, ruleRecordOrder, ruleOptionalFieldSymmetry, ruleTrivialRecordTrait, ruleMatlabExtentOrderAgrees)
	reg("C10", ruleAborts(ndjsonCommonFiles, "P4j", 1), ruleSameNodeRecursionDiscriminated, ruleNilableFieldsBeforeAbortingDefault, ruleNilReachesNoAbortingDefault, ruleNoUncheckedAssertionsInFrontEnd, ruleYamlDecodedStrictly, ruleSinksOnlyGrow, rulePassOrder, rulePairAccess, ruleConstIndex(frontEndNoEvolution, "P2", 30), ruleMakeBounds, ruleErrorProvenance, ruleBreakInSwitchInLoop, rulePositions, ruleNodeLiteralsPositioned, ruleBigIndex, ruleAborts(frontEndNoEvolution, "P4", 25), ruleDecodeLoopLeavesOnError, ruleContextLiteralsComplete, ruleDecodeIntoPointerPointer, ruleNullTypeOnlyInUnions, ruleOptionalDeref(func(f string) bool { return frontEndNoEvolution(f) || evolutionFiles(f) }, "NP1", 33),
		ruleE3(frontScope, "E3"), ruleCollectPackages, ruleBinaryOperatorTokens, ruleReflectiveWalkTerminates)
	reg("C20", ruleEveryReturnedDirectoryIsWatched, ruleWhoMayWrite, ruleWriteIfNeeded, ruleWatchSetUnchangedOnFailure, ruleWatchStartsBeforeGeneratingAndAlwaysGenerates, ruleNoRunTimeGlobals, ruleWatchSerialised, ruleWatchRecovers, ruleChdirRestored, ruleWatchEveryEventSchedules, ruleWatchSurvivesErrors, ruleWatchInputsNotMutated)
	reg("C18", ruleDefinitionEqualityComparesNamespaces, ruleDepthTestBeforeMemoLookup, ruleDependenciesFirst, ruleMemoKeysAgree, ruleCollectPackages, ruleTemporaryCwdPathsAbsolute, ruleNamespaceFlattening, ruleAllModelsValidated, ruleNoSelfComparison(frontEndFile, "E6", 1), ruleLookedUpMapsAreFilled(frontEndFile, "D1", 15), ruleE2(frontScope, "E2"), ruleE5(frontScope, "E5"))
	reg("C11", ruleDecodeLoopLeavesOnError, ruleAborts(ndjsonCommonFiles, "P4j", 1), ruleContextPositionTests, ruleSinksSharedAndVerdictsUsed, ruleYamlDecodedStrictly, ruleWrapperRecursion, ruleSinksOnlyGrow, ruleParseCachePerPackage, ruleValidateBeforeWrite, ruleWhoMayWrite, ruleAllModelsValidated, rulePassesWalkWholeEnvironment, ruleLookedUpMapsAreFilled(frontEndFile, "D1", 15), ruleNoSelfComparison(frontEndFile, "E6", 1), ruleE1(inMod, "E1"), ruleE2(inMod, "E2"), ruleE5(inMod, "E5"))
	reg("C09", ruleDefinitionEqualityComparesNamespaces, ruleResultsOfPureFunctionsUsed, ruleDefinitionsKeyedByIdentity, ruleShadowedVariableIsRead, rulePointersToScalarsComparedByValue, ruleSinksSharedAndVerdictsUsed, ruleIntegerBoundsMatchBaseType, ruleSymbolTableWritesScoped, ruleArithmeticOnNumbersOnly, ruleSinksOnlyGrow, ruleParseCachePerPackage, rulePassOrder, ruleVisitorCoverage("VisitorWithContext.VisitChildren", "V1", "V2", 30), ruleVisitorCoverage("defaultRewriteImpl", "V3", "V4", 30), ruleAllModelsValidated, ruleFilesAreCombined, ruleLookedUpMapsAreFilled(frontEndFile, "D1", 15), ruleNoSelfComparison(frontEndFile, "E6", 1), rulePassesWalkWholeEnvironment, ruleArityCheckedBeforeResolution, rulePrunes(dslValidationFiles, "V5", 20), ruleContextPositionTests,
		ruleE1(frontScope, "E1"), ruleE2(frontScope, "E2"), ruleE5(frontScope, "E5"))
	reg("C12", rulePointersToScalarsComparedByValue, ruleKeptFilesAreRecorded, ruleConsoleWriterWithoutTime, ruleNoRunTimeGlobals, ruleMapOrder, ruleSinkSort, ruleCommutativeCallbacks, ruleNoNondeterminism, ruleNoConcurrencyInPipeline, ruleWriteIfNeeded, ruleWhoMayWrite)
}
