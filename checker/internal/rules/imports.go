package rules

import (
	"fmt"
	"go/ast"
	"go/token"
	"go/types"

	"golang.org/x/tools/go/cfg"

	"verif/checker/internal/core"
)

// ---------------------------------------------------------------------------
// C18: import graph collection (packaging.collectPackages) and namespace parsing /
// flattening (cmd.parsePackageNamespaces, cmd.flattenNamespaces).
// ---------------------------------------------------------------------------

// mapIndexOf: is e `m[...]` for parameter/variable object m?
func mapIndexOf(info *types.Info, e ast.Expr, m types.Object) bool {
	ix, ok := ast.Unparen(e).(*ast.IndexExpr)
	return ok && identObj(info, ix.X) == m && m != nil
}

func paramObj(info *types.Info, d *ast.FuncDecl, name string) types.Object {
	for _, f := range d.Type.Params.List {
		for _, n := range f.Names {
			if n.Name == name {
				return info.Defs[n]
			}
		}
	}
	return nil
}

// flagState: forward must-analysis of a boolean map flag `m[k]` inside one function.
// Returns for each block the state at block entry: 1 = definitely true, 0 = maybe false.
type flagEvent struct {
	node  ast.Node
	value int // 1 true, 0 false
}

func flagAtNode(fc *core.FuncCFG, info *types.Info, m types.Object, target ast.Node, deferredFalse bool) (int, bool) {
	// events per block in order
	ev := map[*cfg.Block][]flagEvent{}
	for _, b := range fc.G.Blocks {
		for _, n := range b.Nodes {
			as, ok := n.(*ast.AssignStmt)
			if !ok || len(as.Lhs) != 1 || len(as.Rhs) != 1 {
				continue
			}
			if !mapIndexOf(info, as.Lhs[0], m) {
				continue
			}
			v := 0
			if tv, ok := info.Types[as.Rhs[0]]; ok && tv.Value != nil && tv.Value.String() == "true" {
				v = 1
			}
			ev[b] = append(ev[b], flagEvent{n, v})
		}
	}
	in := map[*cfg.Block]int{}
	for _, b := range fc.G.Blocks {
		in[b] = 1 // optimistic
	}
	in[fc.Entry()] = 0
	out := func(b *cfg.Block) int {
		s := in[b]
		for _, e := range ev[b] {
			s = e.value
		}
		return s
	}
	preds := map[*cfg.Block][]*cfg.Block{}
	for _, b := range fc.G.Blocks {
		for _, s := range b.Succs {
			preds[s] = append(preds[s], b)
		}
	}
	for changed := true; changed; {
		changed = false
		for _, b := range fc.G.Blocks {
			if b == fc.Entry() {
				continue
			}
			s := 1
			if len(preds[b]) == 0 {
				s = 0
			}
			for _, p := range preds[b] {
				if out(p) == 0 {
					s = 0
				}
			}
			if s != in[b] {
				in[b] = s
				changed = true
			}
		}
	}
	tb := fc.BlockOf(target)
	if tb == nil {
		return 0, false
	}
	s := in[tb]
	for _, n := range tb.Nodes {
		if n.Pos() <= target.Pos() && target.End() <= n.End() {
			// events before the node that contains the target
			break
		}
		for _, e := range ev[tb] {
			if e.node == n {
				s = e.value
			}
		}
	}
	return s, true
}

func ruleCollectPackages(c *core.Ctx) {
	const rule = "I1"
	c.Rule(rule, "packaging.collectPackages: cycle test before the already-collected shortcut; chain flag true at every recursive call and cleared after it; depth decreases and is bounded; conflicts are errors", 7)
	f, d, p := c.Func("pkg/packaging", "collectPackages")
	if d == nil {
		c.Undecided(rule, "anchor/pkg/packaging.collectPackages", 0, "anchor function not found")
		return
	}
	info := p.TypesInfo
	chain := paramObj(info, d, "importChain")
	collected := paramObj(info, d, "alreadyCollected")
	depth := paramObj(info, d, "depthRemaining")
	if chain == nil || collected == nil || depth == nil {
		c.Undecided(rule, "collectPackages/params", d.Pos(), "parameters importChain / alreadyCollected / depthRemaining not found")
		return
	}
	fc := core.NewCFG(d.Body, info)
	// (1) cycle test `if importChain[...] {return err}` and the alreadyCollected lookup
	var cycleIf, collectedIf *ast.IfStmt
	ast.Inspect(d.Body, func(n ast.Node) bool {
		is, ok := n.(*ast.IfStmt)
		if !ok {
			return true
		}
		if mapIndexOf(info, is.Cond, chain) && cycleIf == nil {
			cycleIf = is
		}
		if as, ok := is.Init.(*ast.AssignStmt); ok && len(as.Rhs) == 1 && mapIndexOf(info, as.Rhs[0], collected) && collectedIf == nil {
			collectedIf = is
		}
		return true
	})
	if cycleIf == nil || collectedIf == nil {
		c.Undecided(rule, "collectPackages/cycle-test-and-shortcut", d.Pos(), "could not find `if importChain[ns]` and `if x, found := alreadyCollected[ns]; found`")
	} else {
		// cycle branch returns a non-nil error
		c.Check(branchReturnsError(info, cycleIf.Body), rule, "collectPackages/cycle branch returns error", cycleIf.Pos(), "cycle branch returns a non-nil error", "the import-cycle branch does not return an error")
		// every path from entry to the shortcut passes the false edge of the cycle test
		cb := fc.BlockOf(cycleIf.Cond)
		sb := fc.BlockOf(collectedIf.Init)
		ok := false
		if cb != nil && sb != nil && len(cb.Succs) == 2 {
			r := fc.ReachableBlocks(fc.Entry(), map[core.Edge]bool{{From: cb, To: cb.Succs[1]}: true}, nil)
			ok = !r[sb]
		}
		c.Check(ok, rule, "collectPackages/cycle test dominates already-collected shortcut", collectedIf.Pos(),
			"the already-collected shortcut is only reached through the no-cycle edge of the importChain test",
			"the already-collected shortcut can be reached without passing the import-cycle test: a package on the current chain is always already collected, so a cycle is silently accepted")
		// (4) conflict branch: inside collectedIf body, the branch comparing FilePath returns error
		conflictOK := false
		ast.Inspect(collectedIf.Body, func(n ast.Node) bool {
			if is, ok := n.(*ast.IfStmt); ok {
				if be, ok := is.Cond.(*ast.BinaryExpr); ok && be.Op == token.NEQ && branchReturnsError(info, is.Body) {
					conflictOK = true
				}
			}
			return true
		})
		c.Check(conflictOK, rule, "collectPackages/namespace conflict is an error", collectedIf.Pos(), "a namespace claimed by two different files returns an error", "the namespace-conflict branch does not return an error")
	}
	// (2)(3) recursive calls
	recs := callsIn(info, d.Body, f)
	c.Check(len(recs) >= 1, rule, "collectPackages/recursion", d.Pos(), "recursive descent into imports", "no recursive call found")
	for i, rc := range recs {
		key := fmt.Sprintf("collectPackages/recursive call#%d", i+1)
		s, ok := flagAtNode(fc, info, chain, rc, false)
		if !ok {
			c.Undecided(rule, key+"/chain flag", rc.Pos(), "call not found in CFG")
		} else {
			c.Check(s == 1, rule, key+"/chain flag true at call", rc.Pos(), "importChain[ns] is true on every path reaching the recursive call",
				"on some path (e.g. a later loop iteration) importChain[ns] is not true at the recursive call: a cycle closing through that import is not detected")
		}
		// depth argument is depthRemaining - k, k>=1
		dec := false
		if len(rc.Args) == 4 {
			if be, ok := ast.Unparen(rc.Args[3]).(*ast.BinaryExpr); ok && be.Op == token.SUB && identObj(info, be.X) == depth {
				if tv, ok := info.Types[be.Y]; ok && tv.Value != nil && tv.Value.String() != "0" && tv.Value.String()[0] != '-' {
					dec = true
				}
			}
		}
		c.Check(dec, rule, key+"/depth decreases", rc.Pos(), "passes depthRemaining - 1", "the recursive call does not pass a strictly smaller depthRemaining: the nesting limit never triggers")
		// a `depthRemaining <= 0` test with error return dominates the call
		dom := false
		ast.Inspect(d.Body, func(n ast.Node) bool {
			is, ok := n.(*ast.IfStmt)
			if !ok {
				return true
			}
			be, ok := is.Cond.(*ast.BinaryExpr)
			if !ok || identObj(info, be.X) != depth || !(be.Op == token.LEQ || be.Op == token.LSS || be.Op == token.EQL) {
				return true
			}
			if !branchReturnsError(info, is.Body) {
				return true
			}
			cb := fc.BlockOf(is.Cond)
			if cb != nil && len(cb.Succs) == 2 && fc.OnlyVia(core.Edge{From: cb, To: cb.Succs[1]}, rc) {
				dom = true
			}
			return true
		})
		c.Check(dom, rule, key+"/depth limit test dominates", rc.Pos(), "`depthRemaining <= 0 → error` lies on every path to the recursive call", "no depth-limit test with an error return dominates the recursive call")
		// after the call, on the non-error path, the flag is cleared before the next call / exit:
		// the statement following the error check assigns false.
		cleared := false
		ast.Inspect(d.Body, func(n ast.Node) bool {
			as, ok := n.(*ast.AssignStmt)
			if ok && as.Pos() > rc.End() && len(as.Lhs) == 1 && mapIndexOf(info, as.Lhs[0], chain) {
				if tv, ok := info.Types[as.Rhs[0]]; ok && tv.Value != nil && tv.Value.String() == "false" {
					cleared = true
				}
			}
			if ds, ok := n.(*ast.DeferStmt); ok {
				ast.Inspect(ds, func(y ast.Node) bool {
					if as, ok := y.(*ast.AssignStmt); ok && len(as.Lhs) == 1 && mapIndexOf(info, as.Lhs[0], chain) {
						cleared = true
					}
					if ce, ok := y.(*ast.CallExpr); ok {
						if id, ok := ce.Fun.(*ast.Ident); ok && id.Name == "delete" && len(ce.Args) == 2 && identObj(info, ce.Args[0]) == chain {
							cleared = true
						}
					}
					return true
				})
			}
			return true
		})
		c.Check(cleared, rule, key+"/chain flag cleared afterwards", rc.Pos(), "importChain[ns] is reset after the import has been collected (diamonds are not cycles)", "importChain[ns] is never reset: a diamond import is reported as a cycle")
	}
}

func branchReturnsError(info *types.Info, body *ast.BlockStmt) bool {
	ok := false
	for _, st := range body.List {
		if rs, isRet := st.(*ast.ReturnStmt); isRet && len(rs.Results) > 0 {
			last := rs.Results[len(rs.Results)-1]
			if tv, f := info.Types[last]; f && !tv.IsNil() && core.IsErrorType(typeOrIface(info, last)) {
				ok = true
			}
		}
	}
	return ok
}

func typeOrIface(info *types.Info, e ast.Expr) types.Type {
	t := info.TypeOf(e)
	if t == nil {
		return nil
	}
	if core.IsErrorType(t) {
		return t
	}
	// concrete error types (validation.ValidationError) implement error
	errIface := types.Universe.Lookup("error").Type().Underlying().(*types.Interface)
	if types.Implements(t, errIface) || types.Implements(types.NewPointer(t), errIface) {
		return types.Universe.Lookup("error").Type()
	}
	return t
}

func ruleNamespaceFlattening(c *core.Ctx) {
	const rule = "I2"
	c.Rule(rule, "cmd.parsePackageNamespaces parses each namespace once (memo lookup first, memo store before recursing); cmd.flattenNamespaces emits dependencies before dependents and each namespace once", 4)
	ppn, d, p := c.Func("internal/cmd", "parsePackageNamespaces")
	parse, _, _ := c.Func("pkg/dsl", "ParsePackageContents")
	if d == nil || parse == nil {
		c.Undecided(rule, "anchor/parsePackageNamespaces", 0, "anchor function not found")
		return
	}
	info := p.TypesInfo
	memo := paramObj(info, d, "alreadyParsed")
	fc := core.NewCFG(d.Body, info)
	pcs := callsIn(info, d.Body, parse)
	var memoIf *ast.IfStmt
	ast.Inspect(d.Body, func(n ast.Node) bool {
		if is, ok := n.(*ast.IfStmt); ok && memoIf == nil {
			if as, ok := is.Init.(*ast.AssignStmt); ok && len(as.Rhs) == 1 && mapIndexOf(info, as.Rhs[0], memo) {
				memoIf = is
			}
		}
		return true
	})
	if memo == nil || memoIf == nil || len(pcs) != 1 {
		c.Undecided(rule, "parsePackageNamespaces/shape", d.Pos(), "expected an `if x, found := alreadyParsed[ns]; found {return}` lookup and exactly one dsl.ParsePackageContents call")
	} else {
		cb := fc.BlockOf(memoIf.Cond)
		ok := cb != nil && len(cb.Succs) == 2 && fc.OnlyVia(core.Edge{From: cb, To: cb.Succs[1]}, pcs[0]) && bodyReturns(memoIf.Body)
		c.Check(ok, rule, "parsePackageNamespaces/memo lookup dominates parse", memoIf.Pos(), "a namespace already parsed is returned without parsing again", "ParsePackageContents can run for a namespace that is already in alreadyParsed (parsed twice: duplicate definitions)")
		// store before the recursion
		var store *ast.AssignStmt
		ast.Inspect(d.Body, func(n ast.Node) bool {
			if as, ok := n.(*ast.AssignStmt); ok && len(as.Lhs) == 1 && mapIndexOf(info, as.Lhs[0], memo) {
				store = as
			}
			return true
		})
		recs := callsIn(info, d.Body, ppn)
		okStore := store != nil && len(recs) > 0
		for _, rc := range recs {
			if store == nil || !fc.BlockDominates(fc.BlockOf(store), fc.BlockOf(rc)) || store.Pos() > rc.Pos() {
				okStore = false
			}
		}
		c.Check(okStore, rule, "parsePackageNamespaces/memo store before recursion", d.Pos(), "alreadyParsed[ns] is set before imports are followed (diamonds share one Namespace object)", "the memo is not stored before recursing: a diamond import parses the shared package twice")
	}
	// flattenNamespaces
	fl, fd, fp := c.Func("internal/cmd", "flattenNamespaces")
	if fd == nil {
		c.Undecided(rule, "anchor/flattenNamespaces", 0, "anchor function not found")
		return
	}
	finfo := fp.TypesInfo
	ns := paramObj(finfo, fd, "ns")
	dup := paramObj(finfo, fd, "duplicate")
	ffc := core.NewCFG(fd.Body, finfo)
	recs := callsIn(finfo, fd.Body, fl)
	loops := loopsOverField(finfo, fd.Body, "Namespace", "References")
	if ns == nil || dup == nil || len(recs) == 0 || len(loops) != 1 {
		c.Undecided(rule, "flattenNamespaces/shape", fd.Pos(), "expected the recursive post-order form: one loop over ns.References containing the recursive call")
		return
	}
	// dedup test first: `if duplicate[ns] {return}` dominates the loop
	var dupIf *ast.IfStmt
	ast.Inspect(fd.Body, func(n ast.Node) bool {
		if is, ok := n.(*ast.IfStmt); ok && dupIf == nil && mapIndexOf(finfo, is.Cond, dup) {
			dupIf = is
		}
		return true
	})
	okDup := false
	if dupIf != nil {
		cb := ffc.BlockOf(dupIf.Cond)
		okDup = cb != nil && len(cb.Succs) == 2 && bodyReturns(dupIf.Body) && ffc.OnlyVia(core.Edge{From: cb, To: cb.Succs[1]}, recs[0])
	}
	c.Check(okDup, rule, "flattenNamespaces/visited test first", fd.Pos(), "a namespace already flattened is skipped before its references are followed", "no visited-test guards the recursion: a shared import is emitted twice")
	// the namespace itself is appended only after the loop (post-order): every `append(..., ns)` lies after the loop
	post := false
	pre := false
	ast.Inspect(fd.Body, func(n ast.Node) bool {
		ce, ok := n.(*ast.CallExpr)
		if !ok {
			return true
		}
		if id, ok := ce.Fun.(*ast.Ident); ok && id.Name == "append" {
			for _, a := range ce.Args[1:] {
				if identObj(finfo, a) == ns {
					if ce.Pos() > loops[0].End() {
						post = true
					} else {
						pre = true
					}
				}
			}
		}
		return true
	})
	c.Check(post && !pre, rule, "flattenNamespaces/dependencies first", fd.Pos(), "ns is appended after the loop over its references (post-order: imports precede importers)", "ns is not appended strictly after its references: an importer can precede the package it imports")
}

func bodyReturns(b *ast.BlockStmt) bool {
	for _, s := range b.List {
		if _, ok := s.(*ast.ReturnStmt); ok {
			return true
		}
	}
	return false
}
