package rules

import (
	"fmt"
	"go/ast"
	"go/token"
	"go/types"

	"golang.org/x/tools/go/cfg"
	"golang.org/x/tools/go/ssa"

	"verif/checker/internal/core"
)

// ---------------------------------------------------------------------------
// C18: import graph collection (packaging.collectPackages) and namespace parsing /
// flattening (cmd.parsePackageNamespaces, cmd.flattenNamespaces).
// ---------------------------------------------------------------------------

// mapIndexOf: is e `m[...]` for parameter/variable object m?
func mapIndexOf(info *types.Info, e ast.Expr, m types.Object) bool {
	ix, ok := ast.Unparen(e).(*ast.IndexExpr)
	return ok && identObj(info, ix.X) == m && m != nil
}

func paramObj(info *types.Info, d *ast.FuncDecl, name string) types.Object {
	for _, f := range d.Type.Params.List {
		for _, n := range f.Names {
			if n.Name == name {
				return info.Defs[n]
			}
		}
	}
	return nil
}

// flagState: forward must-analysis of a boolean map flag `m[k]` inside one function.
// Returns for each block the state at block entry: 1 = definitely true, 0 = maybe false.
type flagEvent struct {
	node  ast.Node
	value int // 1 true, 0 false
}

func flagAtNode(fc *core.FuncCFG, info *types.Info, m types.Object, target ast.Node, deferredFalse bool) (int, bool) {
	// events per block in order
	ev := map[*cfg.Block][]flagEvent{}
	for _, b := range fc.G.Blocks {
		for _, n := range b.Nodes {
			as, ok := n.(*ast.AssignStmt)
			if !ok || len(as.Lhs) != 1 || len(as.Rhs) != 1 {
				continue
			}
			if !mapIndexOf(info, as.Lhs[0], m) {
				continue
			}
			v := 0
			if tv, ok := info.Types[as.Rhs[0]]; ok && tv.Value != nil && tv.Value.String() == "true" {
				v = 1
			}
			ev[b] = append(ev[b], flagEvent{n, v})
		}
	}
	in := map[*cfg.Block]int{}
	for _, b := range fc.G.Blocks {
		in[b] = 1 // optimistic
	}
	in[fc.Entry()] = 0
	out := func(b *cfg.Block) int {
		s := in[b]
		for _, e := range ev[b] {
			s = e.value
		}
		return s
	}
	preds := map[*cfg.Block][]*cfg.Block{}
	for _, b := range fc.G.Blocks {
		for _, s := range b.Succs {
			preds[s] = append(preds[s], b)
		}
	}
	for changed := true; changed; {
		changed = false
		for _, b := range fc.G.Blocks {
			if b == fc.Entry() {
				continue
			}
			s := 1
			live := 0
			for _, p := range preds[b] {
				if !p.Live {
					continue // the block go/cfg opens behind a return: nothing flows out of it
				}
				live++
				if out(p) == 0 {
					s = 0
				}
			}
			if live == 0 {
				s = 0
			}
			if s != in[b] {
				in[b] = s
				changed = true
			}
		}
	}
	tb := fc.BlockOf(target)
	if tb == nil {
		return 0, false
	}
	s := in[tb]
	for _, n := range tb.Nodes {
		if n.Pos() <= target.Pos() && target.End() <= n.End() {
			// events before the node that contains the target
			break
		}
		for _, e := range ev[tb] {
			if e.node == n {
				s = e.value
			}
		}
	}
	return s, true
}

func ruleCollectPackages(c *core.Ctx) {
	const rule = "I1"
	c.Rule(rule, "packaging.collectPackages: cycle test before the already-collected shortcut; chain flag true at every recursive call and cleared after it; depth decreases and is bounded; conflicts are errors", 7)
	f, d, p := c.Func("pkg/packaging", "collectPackages")
	if d == nil {
		c.Undecided(rule, "anchor/pkg/packaging.collectPackages", 0, "anchor function not found")
		return
	}
	info := p.TypesInfo
	sf := c.SSAFunc(f)
	if sf == nil {
		c.Undecided(rule, "collectPackages/ssa", d.Pos(), "no SSA form")
		return
	}
	// the parameters are identified by their types, not their names
	chains := paramsByType(sf, func(t types.Type) bool { return isMapTo(t, isBoolType) })
	colls := paramsByType(sf, func(t types.Type) bool { return isMapTo(t, isPtrToNamed("PackageInfo")) })
	depths := paramsByType(sf, func(t types.Type) bool {
		b, ok := t.Underlying().(*types.Basic)
		return ok && b.Info()&types.IsInteger != 0
	})
	if len(chains) != 1 || len(colls) != 1 || len(depths) != 1 {
		c.Undecided(rule, "collectPackages/params", d.Pos(), "expected one map[string]bool (import chain), one map[string]*PackageInfo (collected) and one integer (depth) parameter")
		return
	}
	chainP, collP, depthP := chains[0], colls[0], depths[0]
	chain, _ := chainP.Object().(*types.Var)
	depth, _ := depthP.Object().(*types.Var)
	fc := core.NewCFG(d.Body, info)
	// (1) the cycle test and the already-collected shortcut, on SSA: the lookup in the collected map is
	// only reached over the "not on the chain" edge of the test of the chain map
	var cycleTrue, cycleFalse *ssa.BasicBlock
	var collLookupBlock, foundSucc *ssa.BasicBlock
	var foundSuccs []*ssa.BasicBlock
	ifEdges(sf, func(b *ssa.BasicBlock, cond ssa.Value, t, e *ssa.BasicBlock) {
		if lk := mapLookupOn(cond, chainP); lk != nil && cycleTrue == nil {
			cycleTrue, cycleFalse = t, e
		}
		if lk := mapLookupOn(cond, collP); lk != nil {
			if foundSucc == nil {
				collLookupBlock, foundSucc = lk.Block(), t
			}
			// the outcome may be tested more than once (`case found && same:` ... `case found:`): every true edge
			// of a test of it leads into the found-region
			foundSuccs = append(foundSuccs, t)
		}
	})
	// `case found && same:` may be built as a phi of the two tests: the phi is true only when the edge it took
	// comes from inside the found-region
	if foundSucc != nil {
		ifEdges(sf, func(b *ssa.BasicBlock, cond ssa.Value, t, e *ssa.BasicBlock) {
			phi, ok := cond.(*ssa.Phi)
			if !ok {
				return
			}
			some := false
			for i, ed := range phi.Edges {
				if k, isK := ed.(*ssa.Const); isK && k.Value != nil && k.Value.String() == "false" {
					continue
				}
				pred := phi.Block().Preds[i]
				if len(foundSucc.Preds) == 1 && (foundSucc == pred || foundSucc.Dominates(pred)) {
					some = true
					continue
				}
				return
			}
			if some {
				foundSuccs = append(foundSuccs, t)
			}
		})
	}
	foundRegion := func() []*ssa.BasicBlock {
		seen := map[*ssa.BasicBlock]bool{}
		var out []*ssa.BasicBlock
		for _, fs := range foundSuccs {
			for _, b := range regionOf(sf, fs) {
				if !seen[b] {
					seen[b] = true
					out = append(out, b)
				}
			}
		}
		return out
	}
	if cycleTrue == nil || foundSucc == nil {
		c.Undecided(rule, "collectPackages/cycle-test-and-shortcut", d.Pos(), "could not find the test of the import-chain map and the lookup in the collected map")
	} else {
		okErr := true
		rets := returnsIn(regionOf(sf, cycleTrue))
		for _, r := range rets {
			okErr = okErr && errResultNonNil(r)
		}
		c.Check(okErr && len(rets) > 0, rule, "collectPackages/cycle branch returns error", d.Pos(), "cycle branch returns a non-nil error", "the import-cycle branch does not return an error")
		c.Check(edgeDom(cycleFalse, collLookupBlock), rule, "collectPackages/cycle test dominates already-collected shortcut", d.Pos(),
			"the already-collected shortcut is only reached through the no-cycle edge of the importChain test",
			"the already-collected shortcut can be reached without passing the import-cycle test: a package on the current chain is always already collected, so a cycle is silently accepted")
		// (4) a namespace found under another file is an error: the found-branch has an error return
		// (conflict) besides the plain return of the collected package
		hasErr, hasOK := false, false
		for _, r := range returnsIn(foundRegion()) {
			if errResultNonNil(r) {
				hasErr = true
			}
			if errResultNil(r) {
				hasOK = true
			}
		}
		c.Check(hasErr && hasOK, rule, "collectPackages/namespace conflict is an error", d.Pos(), "a namespace claimed by two different files returns an error", "the namespace-conflict branch does not return an error")
		// the shortcut hands back the package that WAS collected (whose imports are resolved), not the freshly read
		// descriptor: every error-free return of the found-branch returns the value looked up in the collected map
		okSame, nOK := true, 0
		for _, r := range returnsIn(foundRegion()) {
			if !errResultNil(r) || len(r.Results) < 2 {
				continue
			}
			nOK++
			v := r.Results[0]
			if lk := mapLookupOn(v, collP); lk == nil {
				okSame = false
			}
		}
		// every package is registered: an error-free return that is not the shortcut lies behind the store into the
		// collected map (a fast path in front of it leaves the package out of the namespace-conflict, cycle and depth checks)
		var storeBlock *ssa.BasicBlock
		for _, b := range sf.Blocks {
			for _, ins := range b.Instrs {
				if mu, ok := ins.(*ssa.MapUpdate); ok && mu.Map == collP {
					storeBlock = b
				}
			}
		}
		inFound := map[*ssa.BasicBlock]bool{}
		for _, b := range foundRegion() {
			inFound[b] = true
		}
		okReg, nReg := storeBlock != nil, 0
		for _, b := range sf.Blocks {
			for _, ins := range b.Instrs {
				r, ok := ins.(*ssa.Return)
				if !ok || !errResultNil(r) || inFound[b] {
					continue
				}
				nReg++
				if storeBlock == nil || !(storeBlock == b || storeBlock.Dominates(b)) {
					okReg = false
				}
			}
		}
		c.Check(okReg && nReg > 0, rule, "collectPackages/registered before any success return", d.Pos(), "every error-free return outside the shortcut is dominated by the store into the collected map",
			"collectPackages can return a package without an error before registering it in the collected map: such packages escape the namespace-conflict check (a second package with the same namespace silently wins or loses by import order), the cycle test and the depth limit")
		c.Check(okSame && nOK > 0, rule, "collectPackages/shortcut returns the collected package", d.Pos(), "the already-collected branch returns the entry of the collected map",
			"the already-collected branch returns something other than the entry of the collected map: a package reached over a second import path is represented by a second PackageInfo whose own imports were never resolved (nil Package pointers downstream)")
	}
	// (2)(3) recursive calls
	recs := callsIn(info, d.Body, f)
	c.Check(len(recs) >= 1, rule, "collectPackages/recursion", d.Pos(), "recursive descent into imports", "no recursive call found")
	for i, rc := range recs {
		key := fmt.Sprintf("collectPackages/recursive call#%d", i+1)
		s, ok := flagAtNode(fc, info, chain, rc, false)
		if !ok {
			c.Undecided(rule, key+"/chain flag", rc.Pos(), "call not found in CFG")
		} else {
			c.Check(s == 1, rule, key+"/chain flag true at call", rc.Pos(), "importChain[ns] is true on every path reaching the recursive call",
				"on some path (e.g. a later loop iteration) importChain[ns] is not true at the recursive call: a cycle closing through that import is not detected")
		}
		// depth: the recursive call passes depth - k (k >= 1), and is reached only where depth > 0 is known,
		// the other side of that test returning an error (SSA: explaining locals and the way the test is
		// written do not matter)
		var scall *ssa.Call
		for _, b := range sf.Blocks {
			for _, ins := range b.Instrs {
				if sc, ok := ins.(*ssa.Call); ok && sc.Common().StaticCallee() == sf && sc.Pos() == rc.Lparen {
					scall = sc
				}
			}
		}
		dec, dom := false, false
		if scall != nil {
			for _, a := range scall.Common().Args {
				if be, ok := a.(*ssa.BinOp); ok && be.Op == token.SUB && be.X == ssa.Value(depthP) {
					if k, ok := be.Y.(*ssa.Const); ok && k.Value != nil && k.Int64() >= 1 {
						dec = true
					}
				}
			}
			ifEdges(sf, func(b *ssa.BasicBlock, cond ssa.Value, t, e *ssa.BasicBlock) {
				v, op, k, ok := cmpConst(cond)
				if !ok || v != ssa.Value(depthP) {
					return
				}
				for _, side := range []struct {
					truth     bool
					in, other *ssa.BasicBlock
				}{{true, t, e}, {false, e, t}} {
					if impliesPositive(op, k, side.truth) && edgeDom(side.in, scall.Block()) {
						okErr := true
						rets := returnsIn(regionOf(sf, side.other))
						for _, r := range rets {
							okErr = okErr && errResultNonNil(r)
						}
						if okErr && len(rets) > 0 {
							dom = true
						}
					}
				}
			})
		}
		c.Check(dec, rule, key+"/depth decreases", rc.Pos(), "passes depthRemaining - 1", "the recursive call does not pass a strictly smaller depthRemaining: the nesting limit never triggers")
		c.Check(dom, rule, key+"/depth limit test dominates", rc.Pos(), "`depthRemaining <= 0 → error` lies on every path to the recursive call", "no depth-limit test with an error return dominates the recursive call")
		_ = depth
		// after the call, on the non-error path, the flag is cleared before the next call / exit:
		// the statement following the error check assigns false.
		cleared := false
		ast.Inspect(d.Body, func(n ast.Node) bool {
			as, ok := n.(*ast.AssignStmt)
			if ok && as.Pos() > rc.End() && len(as.Lhs) == 1 && mapIndexOf(info, as.Lhs[0], chain) {
				if tv, ok := info.Types[as.Rhs[0]]; ok && tv.Value != nil && tv.Value.String() == "false" {
					cleared = true
				}
			}
			if ds, ok := n.(*ast.DeferStmt); ok {
				ast.Inspect(ds, func(y ast.Node) bool {
					if as, ok := y.(*ast.AssignStmt); ok && len(as.Lhs) == 1 && mapIndexOf(info, as.Lhs[0], chain) {
						cleared = true
					}
					if ce, ok := y.(*ast.CallExpr); ok {
						if id, ok := ce.Fun.(*ast.Ident); ok && id.Name == "delete" && len(ce.Args) == 2 && identObj(info, ce.Args[0]) == chain {
							cleared = true
						}
					}
					return true
				})
			}
			return true
		})
		c.Check(cleared, rule, key+"/chain flag cleared afterwards", rc.Pos(), "importChain[ns] is reset after the import has been collected (diamonds are not cycles)", "importChain[ns] is never reset: a diamond import is reported as a cycle")
	}
}

func branchReturnsError(info *types.Info, body *ast.BlockStmt) bool {
	ok := false
	for _, st := range body.List {
		if rs, isRet := st.(*ast.ReturnStmt); isRet && len(rs.Results) > 0 {
			last := rs.Results[len(rs.Results)-1]
			if tv, f := info.Types[last]; f && !tv.IsNil() && core.IsErrorType(typeOrIface(info, last)) {
				ok = true
			}
		}
	}
	return ok
}

func typeOrIface(info *types.Info, e ast.Expr) types.Type {
	t := info.TypeOf(e)
	if t == nil {
		return nil
	}
	if core.IsErrorType(t) {
		return t
	}
	// concrete error types (validation.ValidationError) implement error
	errIface := types.Universe.Lookup("error").Type().Underlying().(*types.Interface)
	if types.Implements(t, errIface) || types.Implements(types.NewPointer(t), errIface) {
		return types.Universe.Lookup("error").Type()
	}
	return t
}

func ruleNamespaceFlattening(c *core.Ctx) {
	const rule = "I2"
	c.Rule(rule, "cmd.parsePackageNamespaces parses each namespace once (memo lookup first, memo store before recursing); cmd.flattenNamespaces emits dependencies before dependents and each namespace once", 4)
	// decided on SSA: dominance of the map tests over the calls, whatever the branches look like
	ppn, d, _ := c.Func("internal/cmd", "parsePackageNamespaces")
	parse, _, _ := c.Func("pkg/dsl", "ParsePackageContents")
	if d == nil || parse == nil {
		c.Undecided(rule, "anchor/parsePackageNamespaces", 0, "anchor function not found")
		return
	}
	sf := c.SSAFunc(ppn)
	memos := []*ssa.Parameter(nil)
	if sf != nil {
		memos = paramsByType(sf, func(t types.Type) bool { return isMapTo(t, isPtrToNamed("Namespace")) })
	}
	callsOf := func(fn *ssa.Function, callee *types.Func) []*ssa.Call {
		var out []*ssa.Call
		for _, b := range fn.Blocks {
			for _, ins := range b.Instrs {
				if sc, ok := ins.(*ssa.Call); ok && sc.Common().StaticCallee() != nil && sc.Common().StaticCallee().Object() == types.Object(callee) {
					out = append(out, sc)
				}
			}
		}
		return out
	}
	before := func(a, b ssa.Instruction) bool { // a is executed before b on every path to b
		if a.Block() == b.Block() {
			for _, ins := range a.Block().Instrs {
				if ins == a {
					return true
				}
				if ins == b {
					return false
				}
			}
		}
		return a.Block().Dominates(b.Block())
	}
	if sf == nil || len(memos) != 1 || len(callsOf(sf, parse)) != 1 {
		c.Undecided(rule, "parsePackageNamespaces/shape", d.Pos(), "expected one map[string]*Namespace memo parameter and exactly one dsl.ParsePackageContents call")
	} else {
		memo := memos[0]
		pc := callsOf(sf, parse)[0]
		var notFound *ssa.BasicBlock
		ifEdges(sf, func(b *ssa.BasicBlock, cond ssa.Value, t, e *ssa.BasicBlock) {
			if lk := mapLookupOn(cond, memo); lk != nil && lk.CommaOk && notFound == nil {
				notFound = e
			}
		})
		c.Check(notFound != nil && edgeDom(notFound, pc.Block()), rule, "parsePackageNamespaces/memo lookup dominates parse", d.Pos(), "a namespace already parsed is returned without parsing again", "ParsePackageContents can run for a namespace that is already in alreadyParsed (parsed twice: duplicate definitions)")
		var store *ssa.MapUpdate
		for _, b := range sf.Blocks {
			for _, ins := range b.Instrs {
				if mu, ok := ins.(*ssa.MapUpdate); ok && mu.Map == ssa.Value(memo) {
					store = mu
				}
			}
		}
		recs := callsOf(sf, ppn)
		okStore := store != nil && len(recs) > 0
		for _, rc := range recs {
			if store == nil || !before(store, rc) {
				okStore = false
			}
		}
		c.Check(okStore, rule, "parsePackageNamespaces/memo store before recursion", d.Pos(), "alreadyParsed[ns] is set before imports are followed (diamonds share one Namespace object)", "the memo is not stored before recursing: a diamond import parses the shared package twice")
		// every success return behind the memo store passes the loop that follows the imports: a namespace that
		// was parsed is returned only after each of its imports was handed to the recursion (the loop may run
		// zero times, it cannot be bypassed). The loop is the set of blocks on a cycle with a recursive call.
		if store != nil && len(recs) > 0 {
			reach := func(from *ssa.BasicBlock, avoid map[*ssa.BasicBlock]bool) map[*ssa.BasicBlock]bool {
				seen := map[*ssa.BasicBlock]bool{}
				var walk func(b *ssa.BasicBlock)
				walk = func(b *ssa.BasicBlock) {
					if seen[b] || avoid[b] {
						return
					}
					seen[b] = true
					for _, s := range b.Succs {
						walk(s)
					}
				}
				walk(from)
				return seen
			}
			loop := map[*ssa.BasicBlock]bool{}
			for _, rc := range recs {
				fromRc := map[*ssa.BasicBlock]bool{}
				for _, s := range rc.Block().Succs {
					for b := range reach(s, nil) {
						fromRc[b] = true
					}
				}
				for b := range fromRc {
					if reach(b, nil)[rc.Block()] {
						loop[b] = true
					}
				}
			}
			bypass := token.NoPos
			nbypass := 0
			if len(loop) > 0 {
				for b := range reach(store.Block(), loop) {
					if len(b.Instrs) == 0 {
						continue
					}
					ret, ok := b.Instrs[len(b.Instrs)-1].(*ssa.Return)
					if !ok || len(ret.Results) == 0 {
						continue
					}
					last := ret.Results[len(ret.Results)-1]
					if k, isConst := last.(*ssa.Const); isConst && k.IsNil() {
						nbypass++
						bypass = ret.Pos()
					}
				}
			}
			pos := d.Pos()
			if bypass != token.NoPos {
				pos = bypass
			}
			if len(loop) == 0 {
				c.Undecided(rule, "parsePackageNamespaces/success behind the imports loop", d.Pos(), "the recursive call is not inside a loop: cannot tell whether every import is followed")
			} else {
				c.Check(nbypass == 0, rule, "parsePackageNamespaces/success behind the imports loop", pos, "every success return behind the memo store lies behind the loop that hands each import to the recursion", "a success return is reachable from the memo store without passing the loop over the imports: the imports of such a package are never parsed, a package reached only through it is missing from the environment")
			}
		}
	}
	// flattenNamespaces
	fl, fd, _ := c.Func("internal/cmd", "flattenNamespaces")
	if fd == nil {
		c.Undecided(rule, "anchor/flattenNamespaces", 0, "anchor function not found")
		return
	}
	ff := c.SSAFunc(fl)
	var visiteds, nss []ssa.Value
	var recs []*ssa.Call
	if ff != nil {
		for _, p := range paramsByType(ff, func(t types.Type) bool { return isMapTo(t, isBoolType) }) {
			visiteds = append(visiteds, p)
		}
		for _, p := range paramsByType(ff, isPtrToNamed("Namespace")) {
			nss = append(nss, p)
		}
		recs = callsOf(ff, fl)
	}
	if ff != nil && len(recs) == 0 {
		// the recursion may live in a local closure that calls itself through the variable it is stored in:
		//   var visit func(*Namespace); visit = func(ns *Namespace) { ... visit(ref) ... }
		for _, w := range ff.AnonFuncs {
			var selfVar *ssa.FreeVar
			for _, b := range ff.Blocks {
				for _, ins := range b.Instrs {
					mc, ok := ins.(*ssa.MakeClosure)
					if !ok || mc.Fn != ssa.Value(w) {
						continue
					}
					for i, bd := range mc.Bindings {
						al, isAlloc := bd.(*ssa.Alloc)
						if !isAlloc {
							continue
						}
						for _, r := range *al.Referrers() {
							if st, isStore := r.(*ssa.Store); isStore && st.Addr == ssa.Value(al) {
								if st.Val == ssa.Value(mc) {
									selfVar = w.FreeVars[i]
								} else if ci, isCI := st.Val.(*ssa.ChangeType); isCI && ci.X == ssa.Value(mc) {
									selfVar = w.FreeVars[i]
								}
							}
						}
					}
				}
			}
			if selfVar == nil {
				continue
			}
			var wrecs []*ssa.Call
			for _, b := range w.Blocks {
				for _, ins := range b.Instrs {
					if sc, ok := ins.(*ssa.Call); ok && sameOrLoaded(sc.Common().Value, selfVar) && sc.Common().Value != ssa.Value(selfVar) {
						wrecs = append(wrecs, sc)
					}
				}
			}
			if len(wrecs) == 0 {
				continue
			}
			// the worker: its namespace parameter, and the visited map it sees (parameter or captured)
			visiteds, nss = nil, nil
			for _, p := range paramsByType(w, isPtrToNamed("Namespace")) {
				nss = append(nss, p)
			}
			for _, p := range paramsByType(w, func(t types.Type) bool { return isMapTo(t, isBoolType) }) {
				visiteds = append(visiteds, p)
			}
			for _, fv := range w.FreeVars {
				if pt, ok := fv.Type().Underlying().(*types.Pointer); ok && isMapTo(pt.Elem(), isBoolType) {
					visiteds = append(visiteds, fv)
				}
			}
			ff, recs = w, wrecs
			break
		}
	}
	if ff == nil || len(visiteds) != 1 || len(nss) != 1 || len(recs) == 0 {
		c.Undecided(rule, "flattenNamespaces/shape", fd.Pos(), "expected the recursive form with one map[*Namespace]bool and one *Namespace parameter")
		return
	}
	visited, ns := visiteds[0], nss[0]
	var notVisited *ssa.BasicBlock
	ifEdges(ff, func(b *ssa.BasicBlock, cond ssa.Value, t, e *ssa.BasicBlock) {
		if lk := mapLookupOn(cond, visited); lk != nil && notVisited == nil {
			if lk.Index == ns {
				notVisited = e
			}
		}
	})
	okDup := notVisited != nil
	for _, rc := range recs {
		okDup = okDup && edgeDom(notVisited, rc.Block())
	}
	c.Check(okDup, rule, "flattenNamespaces/visited test first", fd.Pos(), "a namespace already flattened is skipped before its references are followed", "no visited-test guards the recursion: a shared import is emitted twice")
	// post-order: once ns itself has been appended, no recursive call can follow
	var appends []ssa.Instruction
	for _, b := range ff.Blocks {
		for _, ins := range b.Instrs {
			call, ok := ins.(*ssa.Call)
			if !ok {
				continue
			}
			if bi, ok := call.Common().Value.(*ssa.Builtin); !ok || bi.Name() != "append" || len(call.Common().Args) != 2 {
				continue
			}
			// the appended slice is built from ns: new [1]*Namespace; store ns; slice
			if sl, ok := call.Common().Args[1].(*ssa.Slice); ok {
				if al, ok := sl.X.(*ssa.Alloc); ok {
					for _, r := range *al.Referrers() {
						if ia, ok := r.(*ssa.IndexAddr); ok {
							for _, rr := range *ia.Referrers() {
								if st, ok := rr.(*ssa.Store); ok && st.Val == ns {
									appends = append(appends, ins)
								}
							}
						}
					}
				}
			}
		}
	}
	post := len(appends) > 0
	for _, ap := range appends {
		// blocks reachable after the append
		seen := map[*ssa.BasicBlock]bool{}
		var stack []*ssa.BasicBlock
		stack = append(stack, ap.Block().Succs...)
		// a recursive call later in the same block
		after := false
		for _, ins := range ap.Block().Instrs {
			if ins == ap {
				after = true
				continue
			}
			if after {
				for _, rc := range recs {
					if ins == ssa.Instruction(rc) {
						post = false
					}
				}
			}
		}
		for len(stack) > 0 {
			b := stack[len(stack)-1]
			stack = stack[:len(stack)-1]
			if seen[b] {
				continue
			}
			seen[b] = true
			for _, rc := range recs {
				if rc.Block() == b {
					post = false
				}
			}
			stack = append(stack, b.Succs...)
		}
	}
	c.Check(post, rule, "flattenNamespaces/dependencies first", fd.Pos(), "ns is appended after the loop over its references (post-order: imports precede importers)", "ns is not appended strictly after its references: an importer can precede the package it imports")
}

func bodyReturns(b *ast.BlockStmt) bool {
	for _, s := range b.List {
		if _, ok := s.(*ast.ReturnStmt); ok {
			return true
		}
	}
	return false
}
