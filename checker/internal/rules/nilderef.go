package rules

import (
	"fmt"
	"go/ast"
	"go/constant"
	"go/token"
	"go/types"
	"strings"

	"verif/checker/internal/core"
)

// NP1: optional scalars are dereferenced only where they are known to be present.
//
// The model marks "not given" with nil pointers: Vector.Length, ArrayDimension.Length, ArrayDimension.Name,
// Array.Dimensions, ValidationError.Line/Column, the optional parts of a parsed type string. A unary `*` on such
// a field (a struct field whose type is a pointer to a basic type or to a slice) panics on the inputs that leave
// the part out. Every such dereference must be dominated by a fact that the field is not nil:
//   - a test `E != nil` on the same expression (if / && / || / early exit / loop condition / tagless switch);
//   - a predicate of the model whose body implies it (IsFixed, HasKnownNumberOfDimensions, ... — the implication
//     is derived from the predicate's body, universal facts over the elements of a slice included);
//   - an assignment of a non-nil value earlier in the same block.
// Decided on the syntax tree of structured code (no goto in the module); anything else is a violation to triage.

type nilFact struct {
	key string // canonical expression that is known non-nil
	all string // "<slice expr>#<field>": every element of *slice has field non-nil
	eq  string // "<A>|<B>": A and B are both nil or both non-nil
}

// npAliases: locals of the function under analysis that are defined exactly once from a field/index expression
// (`dimension := (*dim.Dimensions)[i]`): the local and the expression name the same value.
var npAliases map[types.Object]ast.Expr

// npFlags: boolean locals that start false and are only ever set to true: the facts that hold wherever they are set.
var npFlags map[types.Object][]nilFact

// npBools: boolean locals defined exactly once from a non-constant expression (`isNamed := dimension.Name != nil`):
// testing the local is testing that expression.
var npBools map[types.Object]ast.Expr

// npCalls: locals defined exactly once from a call (`k := indexOfDimensionNamed(dims, name)`).
var npCalls map[types.Object]*ast.CallExpr

func exprKey(info *types.Info, e ast.Expr) string {
	switch x := ast.Unparen(e).(type) {
	case *ast.Ident:
		if o := info.ObjectOf(x); o != nil {
			if rhs, ok := npAliases[o]; ok {
				if k := exprKey(info, rhs); k != "" {
					return k
				}
			}
			return fmt.Sprintf("%s@%d", x.Name, o.Pos())
		}
		return x.Name
	case *ast.SelectorExpr:
		b := exprKey(info, x.X)
		if b == "" {
			return ""
		}
		return b + "." + x.Sel.Name
	case *ast.StarExpr:
		b := exprKey(info, x.X)
		if b == "" {
			return ""
		}
		return "*" + b
	case *ast.IndexExpr:
		b := exprKey(info, x.X)
		if b == "" {
			return ""
		}
		return b + "[" + types.ExprString(x.Index) + "]"
	case *ast.TypeAssertExpr:
		return exprKey(info, x.X)
	case *ast.CallExpr:
		// pure accessor calls with no arguments (GetNodeMeta() etc.)
		if len(x.Args) == 0 {
			if se, ok := ast.Unparen(x.Fun).(*ast.SelectorExpr); ok {
				b := exprKey(info, se.X)
				if b != "" {
					return b + "." + se.Sel.Name + "()"
				}
			}
		}
	}
	return ""
}

type nilAnalyzer struct {
	c    *core.Ctx
	memo map[*types.Func][]nilFact // facts implied by a predicate returning true, in terms of "recv"
}

// condFacts: facts known when cond evaluates to pol.
func (na *nilAnalyzer) condFacts(info *types.Info, cond ast.Expr, pol bool, depth int) []nilFact {
	var out []nilFact
	switch x := ast.Unparen(cond).(type) {
	case *ast.Ident:
		if pol {
			if fs, ok := npFlags[info.ObjectOf(x)]; ok {
				return fs
			}
		}
		if rhs, ok := npBools[info.ObjectOf(x)]; ok && depth <= 3 {
			return na.condFacts(info, rhs, pol, depth+1)
		}
	case *ast.UnaryExpr:
		if x.Op == token.NOT {
			return na.condFacts(info, x.X, !pol, depth)
		}
	case *ast.BinaryExpr:
		switch x.Op {
		case token.LAND:
			if pol {
				return append(na.condFacts(info, x.X, true, depth), na.condFacts(info, x.Y, true, depth)...)
			}
		case token.LOR:
			if !pol {
				return append(na.condFacts(info, x.X, false, depth), na.condFacts(info, x.Y, false, depth)...)
			}
		case token.NEQ, token.EQL:
			// (A == nil) != (B == nil) known false / (A == nil) == (B == nil) known true: same nil-ness
			if a, aok := nilCmp(info, x.X); aok {
				if b, bok := nilCmp(info, x.Y); bok && a.eq == b.eq && ((x.Op == token.EQL) == pol) {
					ka, kb := exprKey(info, a.e), exprKey(info, b.e)
					if ka != "" && kb != "" {
						out = append(out, nilFact{eq: ka + "|" + kb})
					}
					return out
				}
			}
			var other ast.Expr
			if tv, ok := info.Types[x.Y]; ok && tv.IsNil() {
				other = x.X
			} else if tv, ok := info.Types[x.X]; ok && tv.IsNil() {
				other = x.Y
			}
			if other != nil && ((x.Op == token.NEQ) == pol) {
				if k := exprKey(info, other); k != "" {
					out = append(out, nilFact{key: k})
				}
			}
		}
	case *ast.CallExpr:
		if !pol || depth > 3 {
			return nil
		}
		se, ok := ast.Unparen(x.Fun).(*ast.SelectorExpr)
		if !ok || len(x.Args) != 0 {
			return nil
		}
		f := core.Callee(info, x)
		if f == nil || !core.InModule(f) {
			return nil
		}
		recvKey := exprKey(info, se.X)
		if recvKey == "" {
			return nil
		}
		for _, pf := range na.predicateFacts(f.Origin(), depth) {
			nf := nilFact{}
			if pf.key != "" {
				nf.key = strings.Replace(pf.key, "recv", recvKey, 1)
			}
			if pf.all != "" {
				nf.all = strings.Replace(pf.all, "recv", recvKey, 1)
			}
			out = append(out, nf)
		}
	}
	return out
}

type nilCmpT struct {
	e  ast.Expr
	eq bool // true: `e == nil`, false: `e != nil`
}

func nilCmp(info *types.Info, e ast.Expr) (nilCmpT, bool) {
	be, ok := ast.Unparen(e).(*ast.BinaryExpr)
	if !ok || (be.Op != token.EQL && be.Op != token.NEQ) {
		return nilCmpT{}, false
	}
	if tv, ok := info.Types[be.Y]; ok && tv.IsNil() {
		return nilCmpT{be.X, be.Op == token.EQL}, true
	}
	if tv, ok := info.Types[be.X]; ok && tv.IsNil() {
		return nilCmpT{be.Y, be.Op == token.EQL}, true
	}
	return nilCmpT{}, false
}

// predicateFacts: what a bool method of the module implies when it returns true, in terms of its receiver ("recv").
func (na *nilAnalyzer) predicateFacts(f *types.Func, depth int) []nilFact {
	if r, ok := na.memo[f]; ok {
		return r
	}
	na.memo[f] = nil
	d := na.c.Decl(f)
	if d == nil || d.Recv == nil || d.Body == nil || len(d.Recv.List) != 1 || len(d.Recv.List[0].Names) != 1 {
		return nil
	}
	sig := f.Type().(*types.Signature)
	if sig.Results().Len() != 1 || !isBoolType(sig.Results().At(0).Type()) {
		return nil
	}
	info := na.c.DeclPkg(d).TypesInfo
	recv := info.Defs[d.Recv.List[0].Names[0]]
	recvKey := exprKey(info, d.Recv.List[0].Names[0])
	rename := func(fs []nilFact) []nilFact {
		var out []nilFact
		for _, x := range fs {
			if x.key != "" && strings.HasPrefix(x.key, recvKey) {
				out = append(out, nilFact{key: "recv" + x.key[len(recvKey):]})
			}
			if x.all != "" && strings.HasPrefix(x.all, recvKey) {
				out = append(out, nilFact{all: "recv" + x.all[len(recvKey):]})
			}
		}
		return out
	}
	_ = recv
	// facts that hold on every path returning true: walk the top-level statements; `if C { return false }` gives ¬C
	// for what follows; a loop `for _, e := range *X { if e.F == nil { return false } }` gives all(X, F); the final
	// `return E` gives E's facts
	var facts []nilFact
	ok := true
	for _, st := range d.Body.List {
		switch s := st.(type) {
		case *ast.IfStmt:
			if s.Else == nil && len(s.Body.List) == 1 {
				if r, isR := s.Body.List[0].(*ast.ReturnStmt); isR && len(r.Results) == 1 {
					if tv, has := info.Types[r.Results[0]]; has && tv.Value != nil && tv.Value.String() == "false" {
						facts = append(facts, na.condFacts(info, s.Cond, false, depth+1)...)
						continue
					}
				}
			}
			ok = false
		case *ast.RangeStmt:
			star, isStar := ast.Unparen(s.X).(*ast.StarExpr)
			ev, _ := s.Value.(*ast.Ident)
			if isStar && ev != nil && len(s.Body.List) == 1 {
				if is, isIf := s.Body.List[0].(*ast.IfStmt); isIf && is.Else == nil && len(is.Body.List) == 1 {
					if r, isR := is.Body.List[0].(*ast.ReturnStmt); isR && len(r.Results) == 1 {
						if tv, has := info.Types[r.Results[0]]; has && tv.Value != nil && tv.Value.String() == "false" {
							ek := exprKey(info, ev)
							for _, ef := range na.condFacts(info, is.Cond, false, depth+1) {
								if strings.HasPrefix(ef.key, ek+".") {
									facts = append(facts, nilFact{all: exprKey(info, star.X) + "#" + ef.key[len(ek)+1:]})
								}
							}
							continue
						}
					}
				}
			}
			ok = false
		case *ast.ReturnStmt:
			if len(s.Results) == 1 {
				if tv, has := info.Types[s.Results[0]]; has && tv.Value != nil {
					continue // return true / return false
				}
				facts = append(facts, na.condFacts(info, s.Results[0], true, depth+1)...)
				continue
			}
			ok = false
		default:
			ok = false
		}
	}
	if !ok {
		return nil
	}
	res := rename(facts)
	na.memo[f] = res
	return res
}

func stmtLeaves(s ast.Stmt) bool {
	switch x := s.(type) {
	case *ast.ReturnStmt:
		return true
	case *ast.BranchStmt:
		return x.Tok == token.CONTINUE || x.Tok == token.BREAK || x.Tok == token.GOTO
	case *ast.ExprStmt:
		if ce, ok := x.X.(*ast.CallExpr); ok {
			if id, ok := ce.Fun.(*ast.Ident); ok && id.Name == "panic" {
				return true
			}
			if strings.Contains(types.ExprString(ce.Fun), "log.Panic") || strings.Contains(types.ExprString(ce.Fun), "log.Fatal") || types.ExprString(ce.Fun) == "os.Exit" {
				return true
			}
		}
	case *ast.BlockStmt:
		return len(x.List) > 0 && stmtLeaves(x.List[len(x.List)-1])
	case *ast.IfStmt:
		if x.Else == nil {
			return false
		}
		return stmtLeaves(x.Body) && stmtLeaves(x.Else)
	}
	return false
}

// factsAt collects the facts known at node n inside function body root.
func (na *nilAnalyzer) factsAt(info *types.Info, root ast.Node, n ast.Node) []nilFact {
	// path from root to n
	var path []ast.Node
	var find func(cur ast.Node) bool
	find = func(cur ast.Node) bool {
		if cur == n {
			path = append(path, cur)
			return true
		}
		found := false
		ast.Inspect(cur, func(ch ast.Node) bool {
			if found || ch == nil {
				return false
			}
			if ch == cur {
				return true
			}
			if ch.Pos() <= n.Pos() && n.End() <= ch.End() {
				if find(ch) {
					found = true
				}
			}
			return false
		})
		if found {
			path = append(path, cur)
		}
		return found
	}
	find(root)
	// path is n ... root (child first)
	var facts []nilFact
	for i := 0; i+1 < len(path); i++ {
		child, parent := path[i], path[i+1]
		switch p := parent.(type) {
		case *ast.IfStmt:
			if child == ast.Node(p.Body) {
				facts = append(facts, na.condFacts(info, p.Cond, true, 0)...)
			} else if p.Else != nil && child == ast.Node(p.Else) {
				facts = append(facts, na.condFacts(info, p.Cond, false, 0)...)
			}
		case *ast.BinaryExpr:
			if child == ast.Node(p.Y) {
				if p.Op == token.LAND {
					facts = append(facts, na.condFacts(info, p.X, true, 0)...)
				} else if p.Op == token.LOR {
					facts = append(facts, na.condFacts(info, p.X, false, 0)...)
				}
			}
		case *ast.ForStmt:
			if child == ast.Node(p.Body) && p.Cond != nil {
				facts = append(facts, na.condFacts(info, p.Cond, true, 0)...)
			}
		case *ast.CaseClause:
			// tagless switch: this clause's condition holds (single condition) and the earlier ones do not
			if gp, ok := pathParentSwitch(path, i+1); ok && gp.Tag == nil {
				isBody := false
				for _, b := range p.Body {
					if ast.Node(b) == child {
						isBody = true
					}
				}
				if isBody {
					if len(p.List) == 1 {
						facts = append(facts, na.condFacts(info, p.List[0], true, 0)...)
					}
					for _, cl := range gp.Body.List {
						cc := cl.(*ast.CaseClause)
						if cc == p {
							break
						}
						for _, e := range cc.List {
							facts = append(facts, na.condFacts(info, e, false, 0)...)
						}
					}
				}
			}
			facts = append(facts, na.earlierSiblings(info, p.Body, child)...)
		case *ast.BlockStmt:
			facts = append(facts, na.earlierSiblings(info, p.List, child)...)
		case *ast.CommClause:
			facts = append(facts, na.earlierSiblings(info, p.Body, child)...)
		}
	}
	return facts
}

func pathParentSwitch(path []ast.Node, i int) (*ast.SwitchStmt, bool) {
	for j := i + 1; j < len(path) && j <= i+2; j++ {
		if sw, ok := path[j].(*ast.SwitchStmt); ok {
			return sw, true
		}
	}
	return nil, false
}

func (na *nilAnalyzer) earlierSiblings(info *types.Info, list []ast.Stmt, child ast.Node) []nilFact {
	var facts []nilFact
	for _, s := range list {
		if ast.Node(s) == child {
			break
		}
		switch x := s.(type) {
		case *ast.IfStmt:
			if x.Else == nil && stmtLeaves(x.Body) {
				facts = append(facts, na.condFacts(info, x.Cond, false, 0)...)
			} else if x.Else != nil && stmtLeaves(x.Else) && !stmtLeaves(x.Body) {
				facts = append(facts, na.condFacts(info, x.Cond, true, 0)...)
			}
		case *ast.SwitchStmt:
			// a tagless switch whose clauses all leave: behind it none of the conditions held
			if x.Tag == nil {
				for _, cl := range x.Body.List {
					cc := cl.(*ast.CaseClause)
					if cc.List == nil || len(cc.Body) == 0 || !stmtLeaves(cc.Body[len(cc.Body)-1]) {
						continue
					}
					// the clause leaves: if control is behind the switch, this clause was not taken; that means its
					// condition was false only when no earlier clause could have shadowed it — earlier clauses that
					// also leave do not matter, a non-leaving earlier clause makes the fact unsound
					sound := true
					for _, prev := range x.Body.List {
						pc := prev.(*ast.CaseClause)
						if pc == cc {
							break
						}
						if pc.List != nil && (len(pc.Body) == 0 || !stmtLeaves(pc.Body[len(pc.Body)-1])) {
							sound = false
						}
					}
					if sound {
						for _, e := range cc.List {
							facts = append(facts, na.condFacts(info, e, false, 0)...)
						}
					}
				}
			}
		case *ast.AssignStmt:
			for i, l := range x.Lhs {
				if i >= len(x.Rhs) {
					continue
				}
				if nonNilValue(info, x.Rhs[i]) {
					if k := exprKey(info, l); k != "" {
						facts = append(facts, nilFact{key: k})
					}
				}
			}
		}
	}
	return facts
}

func nonNilValue(info *types.Info, e ast.Expr) bool {
	switch x := ast.Unparen(e).(type) {
	case *ast.UnaryExpr:
		return x.Op == token.AND
	case *ast.CallExpr:
		if id, ok := x.Fun.(*ast.Ident); ok && (id.Name == "new" || id.Name == "make") {
			return true
		}
	case *ast.CompositeLit:
		return true
	}
	return false
}

// optionalField: e is a selector of a struct field whose type is a pointer to a basic type or to a slice type.
func optionalField(info *types.Info, e ast.Expr) (*ast.SelectorExpr, bool) {
	se, ok := ast.Unparen(e).(*ast.SelectorExpr)
	if !ok {
		return nil, false
	}
	sel, ok := info.Selections[se]
	if !ok || sel.Kind() != types.FieldVal {
		return nil, false
	}
	pt, ok := sel.Type().Underlying().(*types.Pointer)
	if !ok {
		return nil, false
	}
	switch pt.Elem().Underlying().(type) {
	case *types.Basic, *types.Slice:
		return se, true
	}
	return nil, false
}

func ruleOptionalDeref(fileScope func(string) bool, ruleID string, min int) func(c *core.Ctx) {
	return func(c *core.Ctx) {
		c.Rule(ruleID, "every dereference `*x.F` of an optional scalar/slice field (pointer to a basic type or to a slice: Length, Name, Dimensions, Line, Column, ...) is dominated by a fact that the field is not nil: a nil test on the same expression, a model predicate whose body implies it (IsFixed, HasKnownNumberOfDimensions), or a non-nil assignment", min)
		na := &nilAnalyzer{c: c, memo: map[*types.Func][]nilFact{}}
		for _, d := range c.AllDecls() {
			if d.Body == nil || !fileScope(c.Fset.Position(d.Pos()).Filename) || c.IsTestFile(d.Pos()) {
				continue
			}
			if _, skip := outOfScopeFuncs[c.FuncName(d)]; skip {
				continue
			}
			p := c.DeclPkg(d)
			info := p.TypesInfo
			seen := map[string]int{}
			na.prepare(info, d)
			// range variables over *X.G: element of which slice
			elemOf := map[types.Object]string{}
			ast.Inspect(d.Body, func(n ast.Node) bool {
				if rs, ok := n.(*ast.RangeStmt); ok {
					rx := ast.Unparen(rs.X)
					if sl, ok := rx.(*ast.SliceExpr); ok {
						rx = sl.X // a part of the slice: still its elements
					}
					if sk := exprKey(info, rx); strings.HasPrefix(sk, "*") {
						if id, ok := rs.Value.(*ast.Ident); ok {
							if o := info.Defs[id]; o != nil {
								elemOf[o] = sk[1:]
							}
						}
					}
				}
				return true
			})
			ast.Inspect(d.Body, func(n ast.Node) bool {
				star, ok := n.(*ast.StarExpr)
				if !ok {
					return true
				}
				if tv, ok := info.Types[star]; ok && tv.IsType() {
					return true
				}
				se, ok := optionalField(info, star.X)
				if !ok {
					// a local that stands for an optional field (`dims := arr.Dimensions` ... `*dims`)
					if id, isId := ast.Unparen(star.X).(*ast.Ident); isId {
						if rhs, isAlias := npAliases[info.ObjectOf(id)]; isAlias {
							se, ok = optionalField(info, rhs)
						}
					}
				}
				if !ok {
					// a parameter that is a pointer to a scalar or a slice: callers hand optional fields to it
					if id, isId := ast.Unparen(star.X).(*ast.Ident); isId && optionalParam(info, d, id) {
						k := exprKey(info, id)
						key := fmt.Sprintf("%s/*%s", c.FuncName(d), id.Name)
						seen[key]++
						if seen[key] > 1 {
							key += "#" + itoa(seen[key])
						}
						held := false
						for _, f := range na.factsAt(info, d.Body, star) {
							if f.key == k {
								held = true
							}
						}
						if held {
							c.OK(ruleID, key, star.Pos(), "the pointer parameter is tested non-nil on every path here")
						} else if why := na.callerParamFact(info, d, id); why != "" {
							c.OK(ruleID, key, star.Pos(), why)
						} else {
							c.Bad(ruleID, key, star.Pos(), fmt.Sprintf("`*%s` dereferences a pointer parameter that callers fill from optional fields, without a nil test on the way: an input that leaves the field out panics here", id.Name))
						}
					}
					return true
				}
				k := exprKey(info, se)
				key := fmt.Sprintf("%s/*%s", c.FuncName(d), types.ExprString(se))
				seen[key]++
				if seen[key] > 1 {
					key += "#" + itoa(seen[key])
				}
				if r, ok := npExceptions[fmt.Sprintf("%s/*%s", c.FuncName(d), types.ExprString(se))]; ok {
					c.OK(ruleID, key, star.Pos(), "table exception: "+r)
					return true
				}
				facts := na.factsAt(info, d.Body, star)
				okFact := ""
				nonNil := map[string]bool{}
				for _, f := range facts {
					if f.key != "" {
						nonNil[f.key] = true
					}
				}
				for _, f := range facts {
					if f.eq != "" {
						ab := strings.SplitN(f.eq, "|", 2)
						if nonNil[ab[0]] || nonNil[ab[1]] {
							nonNil[ab[0]], nonNil[ab[1]] = true, true
						}
					}
				}
				if nonNil[k] {
					okFact = "tested non-nil on every path here"
				}
				if okFact == "" && se.Sel.Name == "Dimensions" && !d.Name.IsExported() && d.Recv == nil {
					// a helper that is only ever called from inside the `FunctionDimensionIndex` branch
					me, _ := info.Defs[d.Name].(*types.Func)
					sites, under := 0, 0
					for _, od := range c.AllDecls() {
						if od.Body == nil || c.DeclPkg(od) == nil {
							continue
						}
						for _, r := range c.Refs(od) {
							if me != nil && r.Origin() == me {
								sites += 100
							}
						}
						oinfo := c.DeclPkg(od).TypesInfo
						for _, cs := range c.Calls(od) {
							if cs.Callee == nil || me == nil || cs.Callee.Origin() != me {
								continue
							}
							sites++
							fake := &ast.SelectorExpr{X: cs.Call, Sel: ast.NewIdent("Dimensions")}
							if validatedDimensionsAt(oinfo, od.Body, fake, cs.Call) {
								under++
							}
						}
					}
					if sites > 0 && sites == under {
						okFact = "validated: the helper is only called while a dimensionIndex() call is handled, and dimensionIndex() is rejected for arrays without named dimensions"
					}
				}
				if okFact == "" && validatedDimensions(info, d.Body, se) {
					okFact = "validated: dimensionIndex() is rejected for arrays without named dimensions (resolveDimensionIndexFunctionCall), so Dimensions is set wherever a generator handles that call"
				}
				if okFact == "" && constructedNonNil(c, info, se) {
					okFact = "unexported field that every composite literal of the struct in the module sets to a non-nil value"
				}
				if okFact == "" {
					// element of a slice all of whose elements have the field
					base := ast.Unparen(se.X)
					var sliceKey string
					if id, ok := base.(*ast.Ident); ok {
						sliceKey = elemOf[info.ObjectOf(id)]
					} else if ix, ok := base.(*ast.IndexExpr); ok {
						if sk := exprKey(info, ix.X); strings.HasPrefix(sk, "*") {
							sliceKey = sk[1:]
						}
					}
					if sliceKey != "" {
						for _, f := range facts {
							if f.all == sliceKey+"#"+se.Sel.Name {
								okFact = "every element of the slice has the field (predicate)"
							}
						}
					}
				}
				if okFact == "" {
					// facts the callers establish: the dereferenced expression hangs off a parameter of an unexported
					// function, and at EVERY call site of the module the corresponding fact holds for the argument
					if why := na.callerFact(info, d, se); why != "" {
						okFact = why
					}
				}
				if okFact == "" {
					if why := na.finderFact(info, d, se, star); why != "" {
						okFact = why
					}
				}
				if okFact != "" {
					c.OK(ruleID, key, star.Pos(), okFact)
				} else {
					c.Bad(ruleID, key, star.Pos(), fmt.Sprintf("`*%s` is dereferenced where the field may be nil (it is optional in the model): an input that leaves it out panics here", types.ExprString(se)))
				}
				return true
			})
		}
	}
}

// npExceptions: "<func>/*<expr>" -> invariant that makes the field non-nil there
var npExceptions = map[string]string{}

// prepare computes the single-definition aliases and the monotone boolean flags of a function.
func (na *nilAnalyzer) prepare(info *types.Info, d *ast.FuncDecl) {
	npAliases = map[types.Object]ast.Expr{}
	npFlags = map[types.Object][]nilFact{}
	npBools = map[types.Object]ast.Expr{}
	npCalls = map[types.Object]*ast.CallExpr{}
	defs := map[types.Object][]ast.Expr{}
	defStmt := map[types.Object][]ast.Stmt{}
	ast.Inspect(d.Body, func(n ast.Node) bool {
		switch s := n.(type) {
		case *ast.AssignStmt:
			if len(s.Lhs) == len(s.Rhs) {
				for i, l := range s.Lhs {
					if id, ok := ast.Unparen(l).(*ast.Ident); ok {
						if o := info.ObjectOf(id); o != nil {
							defs[o] = append(defs[o], s.Rhs[i])
							defStmt[o] = append(defStmt[o], s)
						}
					}
				}
			} else {
				for _, l := range s.Lhs {
					if id, ok := ast.Unparen(l).(*ast.Ident); ok {
						if o := info.ObjectOf(id); o != nil {
							defs[o] = append(defs[o], nil)
							defStmt[o] = append(defStmt[o], s)
						}
					}
				}
			}
		case *ast.RangeStmt:
			for _, l := range []ast.Expr{s.Key, s.Value} {
				if id, ok := l.(*ast.Ident); ok {
					if o := info.ObjectOf(id); o != nil {
						defs[o] = append(defs[o], nil)
						defStmt[o] = append(defStmt[o], s)
					}
				}
			}
		case *ast.IncDecStmt:
			if id, ok := ast.Unparen(s.X).(*ast.Ident); ok {
				if o := info.ObjectOf(id); o != nil {
					defs[o] = append(defs[o], nil)
				}
			}
		}
		return true
	})
	for o, ds := range defs {
		if len(ds) == 1 && ds[0] != nil {
			switch ast.Unparen(ds[0]).(type) {
			case *ast.SelectorExpr, *ast.IndexExpr:
				npAliases[o] = ds[0]
			case *ast.StarExpr:
				// `dimensions := *array.Dimensions`: the local is the slice the field points to
				if _, isSlice := o.Type().Underlying().(*types.Slice); isSlice {
					npAliases[o] = ds[0]
				}
			case *ast.BinaryExpr, *ast.UnaryExpr, *ast.CallExpr:
				if ce, isCall := ast.Unparen(ds[0]).(*ast.CallExpr); isCall && !isBoolType(o.Type()) {
					npCalls[o] = ce
				}
				if isBoolType(o.Type()) {
					if tv, has := info.Types[ds[0]]; has && tv.Value == nil {
						npBools[o] = ds[0]
					}
				}
			}
		}
	}
	// flags: first definition `false`, all others `true`
	for o, ds := range defs {
		if !isBoolType(o.Type()) || len(ds) < 2 {
			continue
		}
		ok := true
		for i, e := range ds {
			if e == nil {
				ok = false
				break
			}
			tv, has := info.Types[e]
			if !has || tv.Value == nil || (i == 0) != (tv.Value.String() == "false") {
				ok = false
			}
		}
		if !ok {
			continue
		}
		var common []nilFact
		for i := 1; i < len(ds); i++ {
			fs := na.factsAt(info, d.Body, defStmt[o][i])
			if i == 1 {
				common = fs
				continue
			}
			var keep []nilFact
			for _, a := range common {
				for _, b := range fs {
					if a == b {
						keep = append(keep, a)
					}
				}
			}
			common = keep
		}
		npFlags[o] = common
	}
}

// constructedNonNil: se selects an unexported pointer field that every composite literal of its struct type in the
// module initialises with a non-nil value (and the struct is never created by new()/zero-value declaration in the
// module outside its package's literals): the field is non-nil by construction.
func constructedNonNil(c *core.Ctx, info *types.Info, se *ast.SelectorExpr) bool {
	sel, ok := info.Selections[se]
	if !ok {
		return false
	}
	fld, ok := sel.Obj().(*types.Var)
	if !ok || fld.Exported() {
		return false
	}
	recv := sel.Recv()
	if p, ok := recv.(*types.Pointer); ok {
		recv = p.Elem()
	}
	nt := core.NamedOf(recv)
	if nt == nil {
		return false
	}
	lits, good := 0, 0
	for _, p := range c.ModulePkgs() {
		for _, f := range p.Syntax {
			ast.Inspect(f, func(n ast.Node) bool {
				if as, ok := n.(*ast.AssignStmt); ok {
					for i, l := range as.Lhs {
						if lse, ok := ast.Unparen(l).(*ast.SelectorExpr); ok {
							if ls, ok := p.TypesInfo.Selections[lse]; ok && ls.Obj() == fld {
								if len(as.Lhs) != len(as.Rhs) || !nonNilValue(p.TypesInfo, as.Rhs[i]) {
									lits += 1000 // assigned something that may be nil
								}
							}
						}
					}
					return true
				}
				cl, ok := n.(*ast.CompositeLit)
				if !ok {
					return true
				}
				if t := core.NamedOf(p.TypesInfo.TypeOf(cl)); t == nil || t.Obj() != nt.Obj() {
					return true
				}
				lits++
				for i, el := range cl.Elts {
					if kv, ok := el.(*ast.KeyValueExpr); ok {
						if id, ok := kv.Key.(*ast.Ident); ok && id.Name == fld.Name() && nonNilValue(p.TypesInfo, kv.Value) {
							good++
						}
					} else if st, ok := nt.Underlying().(*types.Struct); ok && i < st.NumFields() && st.Field(i) == fld && nonNilValue(p.TypesInfo, el) {
						good++ // positional literal
					}
				}
				return true
			})
		}
	}
	return lits > 0 && lits == good
}

// rootParam: the parameter of d that expression e hangs off (through selectors / index / deref / single-definition
// aliases), with its position in the parameter list.
func rootParam(info *types.Info, d *ast.FuncDecl, e ast.Expr) (types.Object, int) {
	cur := ast.Unparen(e)
	for depth := 0; depth < 8; depth++ {
		switch x := cur.(type) {
		case *ast.SelectorExpr:
			cur = ast.Unparen(x.X)
			continue
		case *ast.IndexExpr:
			cur = ast.Unparen(x.X)
			continue
		case *ast.StarExpr:
			cur = ast.Unparen(x.X)
			continue
		case *ast.Ident:
			o := info.ObjectOf(x)
			for i, po := range paramObjs(info, d) {
				if po != nil && po == o {
					return o, i
				}
			}
			if rhs, ok := npAliases[o]; ok {
				cur = ast.Unparen(rhs)
				continue
			}
			// `dims := *arr.Dimensions` style single definitions
			var def ast.Expr
			n := 0
			ast.Inspect(d.Body, func(m ast.Node) bool {
				if as, ok := m.(*ast.AssignStmt); ok && len(as.Lhs) == len(as.Rhs) {
					for i, l := range as.Lhs {
						if id, ok := ast.Unparen(l).(*ast.Ident); ok && info.ObjectOf(id) == o {
							n++
							def = as.Rhs[i]
						}
					}
				}
				return true
			})
			if n == 1 && def != nil {
				cur = ast.Unparen(def)
				continue
			}
		}
		break
	}
	return nil, -1
}

// callerFact: every call site of d in the module establishes that `se` (rooted at a parameter) is non-nil.
func (na *nilAnalyzer) callerFact(info *types.Info, d *ast.FuncDecl, se *ast.SelectorExpr) string {
	if d.Name.IsExported() || d.Recv != nil {
		return ""
	}
	po, pi := rootParam(info, d, se)
	if po == nil {
		return ""
	}
	me, _ := info.Defs[d.Name].(*types.Func)
	if me == nil {
		return ""
	}
	paramKey := exprKey(info, ast.NewIdent(po.Name()))
	_ = paramKey
	// the key of se relative to the parameter: textual suffix after the parameter's own key
	full := exprKey(info, se)
	base := fmt.Sprintf("%s@%d", po.Name(), po.Pos())
	idx := strings.Index(full, base)
	if idx < 0 {
		return ""
	}
	prefix, suffix := full[:idx], full[idx+len(base):]
	for _, od := range na.c.AllDecls() {
		for _, r := range na.c.Refs(od) {
			if r.Origin() == me {
				return "" // used as a function value: not every caller is a call site
			}
		}
	}
	sites := 0
	savedAliases, savedFlags, savedBools, savedCalls := npAliases, npFlags, npBools, npCalls
	defer func() { npAliases, npFlags, npBools, npCalls = savedAliases, savedFlags, savedBools, savedCalls }()
	for _, od := range na.c.AllDecls() {
		if od.Body == nil || na.c.DeclPkg(od) == nil {
			continue
		}
		for _, cs := range na.c.Calls(od) {
			if cs.Callee == nil || cs.Callee.Origin() != me || pi >= len(cs.Call.Args) {
				continue
			}
			sites++
			oinfo := na.c.DeclPkg(od).TypesInfo
			na.prepare(oinfo, od)
			argKey := exprKey(oinfo, cs.Call.Args[pi])
			if argKey == "" {
				return ""
			}
			want := prefix + argKey + suffix
			facts := na.factsAt(oinfo, od.Body, cs.Call)
			nonNil := map[string]bool{}
			for _, f := range facts {
				if f.key != "" {
					nonNil[f.key] = true
				}
			}
			for _, f := range facts {
				if f.eq != "" {
					ab := strings.SplitN(f.eq, "|", 2)
					if nonNil[ab[0]] || nonNil[ab[1]] {
						nonNil[ab[0]], nonNil[ab[1]] = true, true
					}
				}
			}
			if !nonNil[want] {
				return ""
			}
		}
	}
	if sites == 0 {
		return ""
	}
	return fmt.Sprintf("established by the caller at every call site (%d)", sites)
}

// finderFact: `*S[k].F` where k is the result of an index-finding helper `k := find(S, ...)` that returns either a
// negative constant or an index i at a point where S[i].F is known non-nil, and k is known non-negative at the use.
func (na *nilAnalyzer) finderFact(info *types.Info, d *ast.FuncDecl, se *ast.SelectorExpr, use ast.Node) string {
	ix, ok := ast.Unparen(se.X).(*ast.IndexExpr)
	if !ok {
		return ""
	}
	kid, ok := ast.Unparen(ix.Index).(*ast.Ident)
	if !ok {
		return ""
	}
	kobj := info.ObjectOf(kid)
	call, ok := npCalls[kobj]
	if !ok {
		return ""
	}
	f := core.Callee(info, call)
	if f == nil {
		// a finder closure bound once to a local, searching the captured slice
		if fid, ok := ast.Unparen(call.Fun).(*ast.Ident); ok {
			if fl, ok := ast.Unparen(singleDefRHS(info, d.Body, fid)).(*ast.FuncLit); ok && fl.Type.Results != nil && len(fl.Type.Results.List) == 1 {
				sliceKey := exprKey(info, ix.X)
				if sliceKey == "" || !nonNegativeAt(info, d.Body, kobj, use) {
					return ""
				}
				good, rets := true, 0
				ast.Inspect(fl.Body, func(n ast.Node) bool {
					if inner, isLit := n.(*ast.FuncLit); isLit && inner != fl {
						good = false
						return false
					}
					ret, ok := n.(*ast.ReturnStmt)
					if !ok {
						return true
					}
					rets++
					if len(ret.Results) != 1 {
						good = false
						return true
					}
					if tv, ok := info.Types[ret.Results[0]]; ok && tv.Value != nil {
						if v, exact := constant.Int64Val(tv.Value); !exact || v >= 0 {
							good = false
						}
						return true
					}
					rid, ok := ast.Unparen(ret.Results[0]).(*ast.Ident)
					if !ok {
						good = false
						return true
					}
					want := fmt.Sprintf("%s[%s].%s", sliceKey, rid.Name, se.Sel.Name)
					alt := ""
					if sk, vk := rangeValueAlias(info, fl.Body, ret, rid); sk == sliceKey && vk != "" {
						alt = vk + "." + se.Sel.Name // `for i, v := range S`: v is S[i]
					}
					has := false
					for _, ft := range na.factsAt(info, fl.Body, ret) {
						if ft.key == want || (alt != "" && ft.key == alt) {
							has = true
						}
					}
					if !has {
						good = false
					}
					return true
				})
				if good && rets > 0 {
					return fmt.Sprintf("the index comes from the local finder %s, which returns only indexes whose element has the field, or a negative value that is excluded here", fid.Name)
				}
			}
		}
		return ""
	}
	if !core.InModule(f) {
		return ""
	}
	fd := na.c.Decl(f.Origin())
	if fd == nil || fd.Body == nil || fd.Type.Results == nil || len(fd.Type.Results.List) != 1 {
		return ""
	}
	// which argument is the slice
	sliceKey := exprKey(info, ix.X)
	pi := -1
	for i, a := range call.Args {
		if k := exprKey(info, a); k != "" && k == sliceKey {
			pi = i
		}
	}
	if pi < 0 {
		return ""
	}
	finfo := na.c.DeclPkg(fd).TypesInfo
	params := paramObjs(finfo, fd)
	if pi >= len(params) || params[pi] == nil {
		return ""
	}
	// k is non-negative at the use
	if !nonNegativeAt(info, d.Body, kobj, use) {
		return ""
	}
	savedAliases, savedFlags, savedBools, savedCalls := npAliases, npFlags, npBools, npCalls
	defer func() { npAliases, npFlags, npBools, npCalls = savedAliases, savedFlags, savedBools, savedCalls }()
	na.prepare(finfo, fd)
	good, rets := true, 0
	ast.Inspect(fd.Body, func(n ast.Node) bool {
		if _, isLit := n.(*ast.FuncLit); isLit {
			good = false
			return false
		}
		ret, ok := n.(*ast.ReturnStmt)
		if !ok {
			return true
		}
		rets++
		if len(ret.Results) != 1 {
			good = false
			return true
		}
		if tv, ok := finfo.Types[ret.Results[0]]; ok && tv.Value != nil {
			if v, exact := constant.Int64Val(tv.Value); exact && v < 0 {
				return true
			}
			good = false
			return true
		}
		rid, ok := ast.Unparen(ret.Results[0]).(*ast.Ident)
		if !ok {
			good = false
			return true
		}
		want := fmt.Sprintf("%s@%d[%s].%s", params[pi].Name(), params[pi].Pos(), rid.Name, se.Sel.Name)
		alt := ""
		if sk, vk := rangeValueAlias(finfo, fd.Body, ret, rid); sk == fmt.Sprintf("%s@%d", params[pi].Name(), params[pi].Pos()) && vk != "" {
			alt = vk + "." + se.Sel.Name
		}
		has := false
		for _, ft := range na.factsAt(finfo, fd.Body, ret) {
			if ft.key == want || (alt != "" && ft.key == alt) {
				has = true
			}
		}
		if !has {
			good = false
		}
		return true
	})
	if !good || rets == 0 {
		return ""
	}
	return fmt.Sprintf("the index comes from %s, which returns only indexes whose element has the field, or a negative value that is excluded here", f.Name())
}

// nonNegativeAt: on the way to `use`, the int local k was tested: an enclosing `if k >= 0` / `k != -1`, or an
// earlier `if k < 0 { leave }` / `k == -1` in a block that encloses the use.
func nonNegativeAt(info *types.Info, body *ast.BlockStmt, k types.Object, use ast.Node) bool {
	isK := func(e ast.Expr) bool {
		id, ok := ast.Unparen(e).(*ast.Ident)
		return ok && info.ObjectOf(id) == k
	}
	constOf := func(e ast.Expr) (int64, bool) {
		if tv, ok := info.Types[e]; ok && tv.Value != nil {
			return constant.Int64Val(tv.Value)
		}
		return 0, false
	}
	// truth value of cond that implies k >= 0: returns (whenTrue, whenFalse)
	var implies func(cond ast.Expr) (bool, bool)
	implies = func(cond ast.Expr) (bool, bool) {
		switch x := ast.Unparen(cond).(type) {
		case *ast.UnaryExpr:
			if x.Op == token.NOT {
				a, b := implies(x.X)
				return b, a
			}
		case *ast.BinaryExpr:
			switch x.Op {
			case token.LAND:
				a1, _ := implies(x.X)
				a2, _ := implies(x.Y)
				return a1 || a2, false
			case token.LOR:
				_, b1 := implies(x.X)
				_, b2 := implies(x.Y)
				return false, b1 || b2
			}
			if isK(x.X) {
				if v, ok := constOf(x.Y); ok {
					switch {
					case x.Op == token.GEQ && v >= 0, x.Op == token.GTR && v >= -1:
						return true, false
					case x.Op == token.LSS && v <= 0, x.Op == token.LEQ && v <= -1:
						return false, true
					case x.Op == token.NEQ && v == -1:
						return true, false // finder results are -1 or an index
					case x.Op == token.EQL && v == -1:
						return false, true
					}
				}
			}
		}
		return false, false
	}
	found := false
	var walk func(list []ast.Stmt)
	walk = func(list []ast.Stmt) {
		for _, st := range list {
			if st.Pos() > use.Pos() {
				return
			}
			contains := st.Pos() <= use.Pos() && use.End() <= st.End()
			switch s := st.(type) {
			case *ast.IfStmt:
				t, f := implies(s.Cond)
				if !contains && f && s.Else == nil && stmtLeaves(s.Body) {
					found = true
				}
				if contains {
					if t && s.Body.Pos() <= use.Pos() && use.End() <= s.Body.End() {
						found = true
					}
					walk(s.Body.List)
					switch e := s.Else.(type) {
					case *ast.BlockStmt:
						if f && e.Pos() <= use.Pos() && use.End() <= e.End() {
							found = true
						}
						walk(e.List)
					case *ast.IfStmt:
						walk([]ast.Stmt{e})
					}
				}
			case *ast.ForStmt:
				if contains {
					walk(s.Body.List)
				}
			case *ast.RangeStmt:
				if contains {
					walk(s.Body.List)
				}
			case *ast.BlockStmt:
				if contains {
					walk(s.List)
				}
			case *ast.SwitchStmt:
				if contains {
					// a tagless switch tries its cases in order: inside a clause its own condition is true and every
					// earlier one was false
					earlierFalse := false
					for _, cl := range s.Body.List {
						cc := cl.(*ast.CaseClause)
						inClause := cc.Pos() <= use.Pos() && use.End() <= cc.End()
						if s.Tag == nil && len(cc.List) == 1 {
							t, f := implies(cc.List[0])
							if inClause && (t || earlierFalse) {
								inBody := false
								for _, b := range cc.Body {
									if b.Pos() <= use.Pos() && use.End() <= b.End() {
										inBody = true
									}
								}
								if inBody || earlierFalse && !(cc.List[0].Pos() <= use.Pos() && use.End() <= cc.List[0].End()) {
									found = true
								}
								if earlierFalse {
									found = true
								}
							}
							if f {
								earlierFalse = true
							}
						} else if s.Tag == nil && cc.List != nil {
							// several conditions in one clause: nothing learnt for the later ones
						}
						walk(cc.Body)
					}
				}
			case *ast.TypeSwitchStmt:
				if contains {
					for _, cl := range s.Body.List {
						walk(cl.(*ast.CaseClause).Body)
					}
				}
			}
		}
	}
	walk(body.List)
	return found
}

// optionalParam: id names a parameter of d whose type is a pointer to a basic type or to a slice.
func optionalParam(info *types.Info, d *ast.FuncDecl, id *ast.Ident) bool {
	o := info.ObjectOf(id)
	if o == nil {
		return false
	}
	isParam := false
	for _, po := range paramObjs(info, d) {
		if po == o {
			isParam = true
		}
	}
	if !isParam {
		return false
	}
	pt, ok := o.Type().Underlying().(*types.Pointer)
	if !ok {
		return false
	}
	switch pt.Elem().Underlying().(type) {
	case *types.Basic, *types.Slice:
		return true
	}
	return false
}

// callerParamFact: every call site of the unexported function d passes a value known non-nil for the parameter.
func (na *nilAnalyzer) callerParamFact(info *types.Info, d *ast.FuncDecl, id *ast.Ident) string {
	// exported functions count too: the module is the whole program (yardl is a binary), and what is asked is
	// whether an INPUT of yardl can reach the dereference with a nil pointer
	if d.Recv != nil {
		return ""
	}
	me, _ := info.Defs[d.Name].(*types.Func)
	if me == nil {
		return ""
	}
	pi := -1
	for i, po := range paramObjs(info, d) {
		if po == info.ObjectOf(id) {
			pi = i
		}
	}
	if pi < 0 {
		return ""
	}
	for _, od := range na.c.AllDecls() {
		for _, r := range na.c.Refs(od) {
			if r.Origin() == me {
				return ""
			}
		}
	}
	savedAliases, savedFlags, savedBools, savedCalls := npAliases, npFlags, npBools, npCalls
	defer func() { npAliases, npFlags, npBools, npCalls = savedAliases, savedFlags, savedBools, savedCalls }()
	sites := 0
	for _, od := range na.c.AllDecls() {
		if od.Body == nil || na.c.DeclPkg(od) == nil {
			continue
		}
		for _, cs := range na.c.Calls(od) {
			if cs.Callee == nil || cs.Callee.Origin() != me || pi >= len(cs.Call.Args) {
				continue
			}
			sites++
			oinfo := na.c.DeclPkg(od).TypesInfo
			arg := cs.Call.Args[pi]
			if nonNilValue(oinfo, arg) || validatedDimensions(oinfo, od.Body, arg) {
				continue
			}
			na.prepare(oinfo, od)
			k := exprKey(oinfo, arg)
			held := false
			if k != "" {
				for _, f := range na.factsAt(oinfo, od.Body, cs.Call) {
					if f.key == k {
						held = true
					}
				}
			}
			if !held {
				return ""
			}
		}
	}
	if sites == 0 {
		return ""
	}
	return fmt.Sprintf("every call site (%d) passes a value known to be non-nil", sites)
}

// validatedDimensions: e is `<x>.Dimensions` and lies in the `case dsl.FunctionDimensionIndex:` clause of a switch (on the
// function name of a call in a computed field). resolveDimensionIndexFunctionCall rejects dimensionIndex() on an
// array without named dimensions — Dimensions == nil included — so the generators only ever see it with Dimensions set.
func validatedDimensions(info *types.Info, root ast.Node, e ast.Expr) bool {
	return validatedDimensionsAt(info, root, e, e)
}

// validatedDimensionsAt: as validatedDimensions, for the selector e with the position taken from `at`.
func validatedDimensionsAt(info *types.Info, root ast.Node, sel ast.Expr, e ast.Node) bool {
	se, ok := ast.Unparen(sel).(*ast.SelectorExpr)
	if !ok || se.Sel.Name != "Dimensions" {
		return false
	}
	found := false
	isConst := func(x ast.Expr) bool {
		var id *ast.Ident
		switch y := ast.Unparen(x).(type) {
		case *ast.Ident:
			id = y
		case *ast.SelectorExpr:
			id = y.Sel
		}
		if id == nil {
			return false
		}
		k, ok := info.Uses[id].(*types.Const)
		return ok && k.Name() == "FunctionDimensionIndex"
	}
	var disjuncts func(x ast.Expr) []ast.Expr
	disjuncts = func(x ast.Expr) []ast.Expr {
		if be, ok := ast.Unparen(x).(*ast.BinaryExpr); ok && be.Op == token.LOR {
			return append(disjuncts(be.X), disjuncts(be.Y)...)
		}
		return []ast.Expr{x}
	}
	ast.Inspect(root, func(n ast.Node) bool {
		// `if !isCall || call.FunctionName != dsl.FunctionDimensionIndex { ...; return }` in front, in an enclosing block
		if blk, isBlk := n.(*ast.BlockStmt); isBlk && blk.Pos() <= e.Pos() && e.End() <= blk.End() {
			for _, st := range blk.List {
				if st.Pos() <= e.Pos() && e.End() <= st.End() {
					break
				}
				ifs, isIf := st.(*ast.IfStmt)
				if !isIf || ifs.Else != nil || len(ifs.Body.List) == 0 || !stmtLeaves(ifs.Body.List[len(ifs.Body.List)-1]) {
					continue
				}
				for _, part := range disjuncts(ifs.Cond) {
					if be, isB := ast.Unparen(part).(*ast.BinaryExpr); isB && be.Op == token.NEQ && (isConst(be.X) || isConst(be.Y)) {
						found = true
					}
				}
			}
		}
		// `if call.FunctionName == dsl.FunctionDimensionIndex { ... }`
		if ifs, isIf := n.(*ast.IfStmt); isIf && ifs.Body.Pos() <= e.Pos() && e.End() <= ifs.Body.End() {
			for _, part := range conjuncts(ifs.Cond) {
				if be, isB := ast.Unparen(part).(*ast.BinaryExpr); isB && be.Op == token.EQL && (isConst(be.X) || isConst(be.Y)) {
					found = true
				}
			}
		}
		cc, ok := n.(*ast.CaseClause)
		if !ok || !(cc.Pos() <= e.Pos() && e.End() <= cc.End()) {
			return true
		}
		for _, l := range cc.List {
			var id *ast.Ident
			switch x := ast.Unparen(l).(type) {
			case *ast.Ident:
				id = x
			case *ast.SelectorExpr:
				id = x.Sel
			}
			if id != nil {
				if k, isConst := info.Uses[id].(*types.Const); isConst && k.Name() == "FunctionDimensionIndex" {
					found = true
				}
			}
		}
		return true
	})
	return found
}

// rangeValueAlias: n stands inside `for k, v := range S` of body with k the identifier rid and neither k nor v assigned
// in the loop: the keys of S and of v (v is S[k] there).
func rangeValueAlias(info *types.Info, body ast.Node, n ast.Node, rid *ast.Ident) (string, string) {
	var rs *ast.RangeStmt
	ast.Inspect(body, func(m ast.Node) bool {
		if r, ok := m.(*ast.RangeStmt); ok && r.Body.Pos() <= n.Pos() && n.End() <= r.Body.End() {
			if k, ok := r.Key.(*ast.Ident); ok && info.ObjectOf(k) == info.ObjectOf(rid) {
				rs = r
			}
		}
		return true
	})
	if rs == nil {
		return "", ""
	}
	v, ok := rs.Value.(*ast.Ident)
	if !ok || v.Name == "_" {
		return "", ""
	}
	assigned := false
	ast.Inspect(rs.Body, func(m ast.Node) bool {
		switch x := m.(type) {
		case *ast.AssignStmt:
			for _, l := range x.Lhs {
				if o := identObj(info, l); o != nil && (o == info.ObjectOf(v) || o == info.ObjectOf(rid)) {
					assigned = true
				}
			}
		case *ast.IncDecStmt:
			if o := identObj(info, x.X); o != nil && o == info.ObjectOf(rid) {
				assigned = true
			}
		}
		return true
	})
	if assigned {
		return "", ""
	}
	return exprKey(info, rs.X), exprKey(info, v)
}
