package rules

import (
	"fmt"
	"go/ast"
	"go/types"
	"sort"
	"strings"

	"golang.org/x/tools/go/cfg"

	"verif/checker/internal/core"
)

// V5: pruning of the tree walk. A visitor callback that, for a node kind that has
// children, can return without calling self.VisitChildren(node) stops every rule below
// that node. Each such (function, node kind) pair must be an audited table entry.

// audited prunes: "<function>/<case label>" -> why nothing below needs visiting
var auditedPrunes = map[string]string{
	"pkg/dsl.validateMaps/body":                                                "a *Map is checked in place: a legal key type is a primitive scalar and has nothing below it",
	"pkg/dsl.buildSymbolTable/case TypeDefinition":                             "only top-level definitions are registered; definitions do not nest",
	"pkg/dsl.validateGenericTypeDefinitions/case *RecordDefinition,*NamedType": "records and aliases may be generic; nothing to check below",
	"pkg/dsl.validateGenericTypeDefinitions/case TypeDefinition":               "enum/protocol definitions are checked at the definition node; definitions do not nest",
	"pkg/dsl.topologicalSortTypes/case *ProtocolDefinition":                    "protocols cannot be referenced by types, so they take no part in the dependency order",
	"pkg/dsl.topologicalSortTypes/case TypeDefinition":                         "already visited definition: either sorted (skip) or on the current path (cycle reported)",
	"pkg/dsl.validateTypeDefinitionNames/case TypeDefinition":                  "names are checked at the definition node; definitions do not nest",
	"pkg/dsl.validateRecordFieldNames/body":                                    "field names are checked at the record; records do not nest",
	"pkg/dsl.validateProtocolSequenceNames/body":                               "step names are checked at the protocol; protocols do not nest",
	"pkg/dsl.containsOpenGeneric/case *SimpleType":                             "search: stops descending once an open generic parameter has been found",
	"pkg/dsl.validateUnionCases/case *SimpleType":                              "type arguments are checked through the instantiated definition (ResolvedDefinition carries them after convertGenericReferences)",
	"pkg/dsl.removeUnusedDeclarationPatterns/case *MemberAccessExpression":     "search: stops once a use of the declared variable has been found",
	"pkg/dsl.GetProtocolSchema/case TypeDefinition":                            "a definition already added to the schema is not visited again (memo on visitedTypeDefinitions)",
	// evolution analyser (partial-descent mode): paths that visit nothing further
	"pkg/dsl.getReferencingDefinitions/case TypeDefinition": "a non-alias definition ends an alias chain",
	"pkg/dsl.getReferencingDefinitions/case *SimpleType":    "only named references are followed; a nil ResolvedDefinition visit is a no-op",
	"pkg/dsl.getReferencingDefinitions/default(absent)":     "only alias chains are followed: other node kinds end the walk",
	"pkg/dsl.getBaseDefinition/case TypeDefinition":         "a non-alias definition is the base definition: walk ends",
	"pkg/dsl.getBaseDefinition/default(absent)":             "only alias chains are followed",
	"pkg/dsl.resolveGenericDefinition/case TypeDefinition":  "the target definition is found: walk ends",
	"pkg/dsl.resolveGenericDefinition/default(absent)":      "only alias chains are followed",
	"pkg/dsl.resolveTo/case TypeDefinition":                 "target found, or a non-alias definition ends the chain",
	"pkg/dsl.resolveTo/default(absent)":                     "only alias chains are followed",
	"pkg/dsl.validateEnums/body":                            "enum values and base type are checked at the enum; enums do not nest",
}

func hasNodeChildren(c *core.Ctx, t types.Type, nodeIface *types.Interface) bool {
	if t == nil {
		return false
	}
	if _, ok := t.Underlying().(*types.Interface); ok {
		return true // TypeDefinition, Type, Dimensionality, Expression, Node...
	}
	st := structOf(t)
	nt := core.NamedOf(t)
	if st == nil || nt == nil {
		return false
	}
	for i := 0; i < st.NumFields(); i++ {
		f := st.Field(i)
		if !isNodeish(f.Type(), nodeIface, 0) {
			continue
		}
		if _, ok := nonChildFields[nt.Obj().Name()+"."+f.Name()]; ok {
			continue
		}
		if f.Embedded() && f.Name() == "DefinitionMeta" {
			continue // DefinitionMeta's own children are the generic parameters (leaf)
		}
		return true
	}
	return false
}

type visitorLit struct {
	decl *ast.FuncDecl
	lit  *ast.FuncLit
	self types.Object
	node types.Object
}

// visitorLits finds function literals passed to dsl.Visit / dsl.VisitWithContext.
func visitorLits(c *core.Ctx, d *ast.FuncDecl) []visitorLit {
	p := c.DeclPkg(d)
	info := p.TypesInfo
	var out []visitorLit
	ast.Inspect(d.Body, func(n ast.Node) bool {
		ce, ok := n.(*ast.CallExpr)
		if !ok {
			return true
		}
		f := core.Callee(info, ce)
		if f == nil || f.Pkg() == nil || f.Pkg().Path() != core.Mod+"/pkg/dsl" || (f.Name() != "Visit" && f.Name() != "VisitWithContext") {
			return true
		}
		if sig := f.Type().(*types.Signature); sig.Recv() != nil {
			return true
		}
		for _, a := range ce.Args {
			fl, ok := ast.Unparen(a).(*ast.FuncLit)
			if !ok {
				continue
			}
			var params []types.Object
			for _, fld := range fl.Type.Params.List {
				for _, nm := range fld.Names {
					params = append(params, info.Defs[nm])
				}
			}
			if len(params) >= 2 {
				out = append(out, visitorLit{d, fl, params[0], params[1]})
			}
		}
		return true
	})
	return out
}

// rulePrunesPartial: like rulePrunes, but a path that visits some child explicitly
// (self.Visit(x)) counts as descending; used for the targeted walks of the evolution
// analyser, which follow alias/reference links instead of VisitChildren.
func rulePrunesPartial(scopeFiles func(file string) bool, ruleID string, min int) func(c *core.Ctx) {
	return rulePrunesImpl(scopeFiles, ruleID, min, true)
}

func rulePrunes(scopeFiles func(file string) bool, ruleID string, min int) func(c *core.Ctx) {
	return rulePrunesImpl(scopeFiles, ruleID, min, false)
}

func rulePrunesImpl(scopeFiles func(file string) bool, ruleID string, min int, partialOK bool) func(c *core.Ctx) {
	return func(c *core.Ctx) {
		c.Rule(ruleID, "every path on which a visitor callback returns without self.VisitChildren(node), for a node kind that has children, is an audited prune (table with reasons)", min)
		dslp := c.Pkg("pkg/dsl")
		nodeIface := dslp.Types.Scope().Lookup("Node").Type().Underlying().(*types.Interface)
		found := map[string]bool{}
		for _, d := range c.AllDecls() {
			if !scopeFiles(c.Fset.Position(d.Pos()).Filename) {
				continue
			}
			p := c.DeclPkg(d)
			info := p.TypesInfo
			for _, vl := range visitorLits(c, d) {
				fc := core.NewCFG(vl.lit.Body, info)
				// the node parameter and the variables a type switch on it binds
				nodeAliases := map[types.Object]bool{vl.node: true}
				ast.Inspect(vl.lit.Body, func(x ast.Node) bool {
					if ts, ok := x.(*ast.TypeSwitchStmt); ok {
						ti := parseTypeSwitch(info, ts)
						if nodeAliases[identObj(info, ti.subject)] {
							for _, cl := range ts.Body.List {
								if o := info.Implicits[cl]; o != nil {
									nodeAliases[o] = true
								}
							}
						}
					}
					if as, ok := x.(*ast.AssignStmt); ok && len(as.Rhs) == 1 {
						if ta, ok := ast.Unparen(as.Rhs[0]).(*ast.TypeAssertExpr); ok && nodeAliases[identObj(info, ta.X)] {
							if o := identObj(info, as.Lhs[0]); o != nil {
								nodeAliases[o] = true
							}
						}
					}
					return true
				})
				// blocks that descend completely
				desc := map[*cfg.Block]bool{}
				for _, b := range fc.G.Blocks {
					for _, n := range b.Nodes {
						ast.Inspect(n, func(x ast.Node) bool {
							if _, ok := x.(*ast.FuncLit); ok {
								return false
							}
							if ce, ok := x.(*ast.CallExpr); ok {
								if sel, ok := ast.Unparen(ce.Fun).(*ast.SelectorExpr); ok && sel.Sel.Name == "VisitChildren" && identObj(info, sel.X) == vl.self {
									if len(ce.Args) >= 1 && nodeAliases[identObj(info, ce.Args[0])] {
										desc[b] = true
									}
								}
								if sel, ok := ast.Unparen(ce.Fun).(*ast.SelectorExpr); ok && partialOK && sel.Sel.Name == "Visit" && identObj(info, sel.X) == vl.self {
									desc[b] = true
								}
							}
							return true
						})
					}
				}
				exitReachable := func(from *cfg.Block) bool {
					if from == nil {
						return false
					}
					if desc[from] {
						return false
					}
					r := fc.ReachableBlocks(from, nil, desc)
					for b := range r {
						if len(b.Succs) == 0 && b.Live {
							// a block that ends in a no-return call is not an exit
							if len(b.Nodes) > 0 {
								if es, ok := b.Nodes[len(b.Nodes)-1].(*ast.ExprStmt); ok {
									if ce, ok := es.X.(*ast.CallExpr); ok && core.NoReturn(info, ce) {
										continue
									}
								}
							}
							return true
						}
					}
					return false
				}
				// the type switch on the node parameter directly in the literal's body
				var sw *typeSwitchInfo
				for _, st := range vl.lit.Body.List {
					if ts, ok := st.(*ast.TypeSwitchStmt); ok {
						ti := parseTypeSwitch(info, ts)
						if nodeAliases[identObj(info, ti.subject)] {
							sw = &ti
						}
					}
				}
				report := func(label string, pos ast.Node, kinds []types.Type, prunes bool) {
					has := false
					for _, k := range kinds {
						if hasNodeChildren(c, k, nodeIface) {
							has = true
						}
					}
					if !has {
						return
					}
					key := fmt.Sprintf("%s/%s", c.FuncName(d), label)
					if !prunes {
						c.OK(ruleID, key, pos.Pos(), "every path calls self.VisitChildren(node)")
						return
					}
					found[key] = true
					if r, ok := auditedPrunes[key]; ok {
						c.OK(ruleID, key, pos.Pos(), "audited prune: "+r)
					} else {
						c.Bad(ruleID, key, pos.Pos(), "the callback can return without visiting the children of this node kind and the prune is not in the audited table: rules below such a node are skipped")
					}
				}
				if sw != nil {
					for _, cs := range sw.cases {
						var lbls []string
						var kinds []types.Type
						for _, t := range cs.types {
							if t == nil {
								lbls = append(lbls, "nil")
							} else {
								lbls = append(lbls, typeLabel(t))
								kinds = append(kinds, t)
							}
						}
						label := "case " + strings.Join(lbls, ",")
						var from *cfg.Block
						if len(cs.body) > 0 {
							from = fc.BlockOf(cs.body[0])
							report(label, cs.cc, kinds, exitReachable(from))
						} else {
							// empty case: falls out of the switch; prune iff what follows the switch can exit without descending
							report(label, cs.cc, kinds, exitAfterSwitchWithoutDescend(fc, desc, sw.stmt, vl.lit, exitReachable))
						}
					}
					if sw.hasDefault {
						var from *cfg.Block
						if len(sw.defaultBody) > 0 {
							from = fc.BlockOf(sw.defaultBody[0])
						}
						report("default", sw.stmt, []types.Type{nodeIface}, from == nil || exitReachable(from))
					} else {
						report("default(absent)", sw.stmt, []types.Type{nodeIface}, exitAfterSwitchWithoutDescend(fc, desc, sw.stmt, vl.lit, exitReachable))
					}
				} else {
					report("body", vl.lit, []types.Type{nodeIface}, exitReachable(fc.Entry()))
				}
			}
		}
		var stale []string
		for k := range auditedPrunes {
			if !found[k] && strings.HasPrefix(k, "pkg/dsl") {
				stale = append(stale, k)
			}
		}
		sort.Strings(stale)
		c.Tables[ruleID+"_stale_table_entries"] = stale
	}
}

// exitAfterSwitchWithoutDescend: after the switch statement, can the literal end without descending?
func exitAfterSwitchWithoutDescend(fc *core.FuncCFG, desc map[*cfg.Block]bool, sw *ast.TypeSwitchStmt, lit *ast.FuncLit, exitReachable func(*cfg.Block) bool) bool {
	// statements following the switch in the literal's body
	after := false
	for _, st := range lit.Body.List {
		if st == ast.Stmt(sw) {
			after = true
			continue
		}
		if after {
			return exitReachable(fc.BlockOf(st))
		}
	}
	return true // nothing follows: falling out of the switch ends the callback
}
