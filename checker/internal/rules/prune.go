package rules

import (
	"fmt"
	"go/ast"
	"go/token"
	"go/types"
	"sort"
	"strings"

	"golang.org/x/tools/go/cfg"

	"verif/checker/internal/core"
)

// V5: pruning of the tree walk. A visitor callback that, for a node kind that has
// children, can return without calling self.VisitChildren(node) stops every rule below
// that node. Each such (function, node kind) pair must be an audited table entry.

// audited prunes: "<function>/<case label>" -> why nothing below needs visiting
var auditedPrunes = map[string]string{
	"pkg/dsl.validateMaps/case *Map":                                           "a *Map is checked in place: a legal key type is a primitive scalar and has nothing below it",
	"pkg/dsl.buildSymbolTable/case TypeDefinition":                             "only top-level definitions are registered; definitions do not nest",
	"pkg/dsl.validateGenericTypeDefinitions/case *RecordDefinition,*NamedType": "records and aliases may be generic; nothing to check below",
	"pkg/dsl.validateGenericTypeDefinitions/case TypeDefinition":               "enum/protocol definitions are checked at the definition node; definitions do not nest",
	"pkg/dsl.topologicalSortTypes/case *ProtocolDefinition":                    "protocols cannot be referenced by types, so they take no part in the dependency order",
	"pkg/dsl.topologicalSortTypes/case TypeDefinition":                         "already visited definition: either sorted (skip) or on the current path (cycle reported)",
	"pkg/dsl.validateTypeDefinitionNames/case TypeDefinition":                  "names are checked at the definition node; definitions do not nest",
	"pkg/dsl.validateRecordFieldNames/case *RecordDefinition":                  "field names are checked at the record; records do not nest",
	"pkg/dsl.validateProtocolSequenceNames/case *ProtocolDefinition":           "step names are checked at the protocol; protocols do not nest",
	"pkg/dsl.containsOpenGeneric/case *SimpleType":                             "search: stops descending once an open generic parameter has been found",
	"pkg/dsl.removeUnusedDeclarationPatterns/case *MemberAccessExpression":     "search: stops once a use of the declared variable has been found",
	"pkg/dsl.GetProtocolSchema/case TypeDefinition":                            "a definition already added to the schema is not visited again (memo on visitedTypeDefinitions)",
	// evolution analyser (partial-descent mode): paths that visit nothing further
	"pkg/dsl.getReferencingDefinitions/case TypeDefinition": "a non-alias definition ends an alias chain",
	"pkg/dsl.getReferencingDefinitions/case *SimpleType":    "only named references are followed; a nil ResolvedDefinition visit is a no-op",
	"pkg/dsl.getReferencingDefinitions/default(absent)":     "only alias chains are followed: other node kinds end the walk",
	"pkg/dsl.getBaseDefinition/case TypeDefinition":         "a non-alias definition is the base definition: walk ends",
	"pkg/dsl.getBaseDefinition/default(absent)":             "only alias chains are followed",
	"pkg/dsl.resolveGenericDefinition/case TypeDefinition":  "the target definition is found: walk ends",
	"pkg/dsl.resolveGenericDefinition/default(absent)":      "only alias chains are followed",
	"pkg/dsl.resolveTo/case TypeDefinition":                 "target found, or a non-alias definition ends the chain",
	"pkg/dsl.resolveTo/default(absent)":                     "only alias chains are followed",
	"pkg/dsl.validateEnums/case *EnumDefinition":            "enum values and base type are checked at the enum; enums do not nest",
}

func hasNodeChildren(c *core.Ctx, t types.Type, nodeIface *types.Interface) bool {
	if t == nil {
		return false
	}
	if _, ok := t.Underlying().(*types.Interface); ok {
		return true // TypeDefinition, Type, Dimensionality, Expression, Node...
	}
	st := structOf(t)
	nt := core.NamedOf(t)
	if st == nil || nt == nil {
		return false
	}
	for i := 0; i < st.NumFields(); i++ {
		f := st.Field(i)
		if !isNodeish(f.Type(), nodeIface, 0) {
			continue
		}
		if _, ok := nonChildFields[nt.Obj().Name()+"."+f.Name()]; ok {
			continue
		}
		if f.Embedded() && f.Name() == "DefinitionMeta" {
			continue // DefinitionMeta's own children are the generic parameters (leaf)
		}
		return true
	}
	return false
}

// childFieldsOf lists the Node-typed child fields of a struct node kind (as hasNodeChildren sees them).
func childFieldsOf(t types.Type, nodeIface *types.Interface) []string {
	st := structOf(t)
	nt := core.NamedOf(t)
	if st == nil || nt == nil {
		return nil
	}
	var out []string
	for i := 0; i < st.NumFields(); i++ {
		f := st.Field(i)
		if !isNodeish(f.Type(), nodeIface, 0) {
			continue
		}
		if _, ok := nonChildFields[nt.Obj().Name()+"."+f.Name()]; ok {
			continue
		}
		if f.Embedded() && f.Name() == "DefinitionMeta" {
			continue
		}
		out = append(out, f.Name())
	}
	return out
}

// fieldVisitedBy: the child field of the node (an alias variable) that statement s hands to
// self.Visit — directly, under a nil test of that field, or element-wise in a range over it.
func fieldVisitedBy(info *types.Info, s ast.Stmt, self types.Object, aliases map[types.Object]bool) string {
	fieldOf := func(e ast.Expr) string {
		if se, ok := ast.Unparen(e).(*ast.SelectorExpr); ok && aliases[identObj(info, se.X)] {
			return se.Sel.Name
		}
		return ""
	}
	visitArg := func(st ast.Stmt) ast.Expr {
		es, ok := st.(*ast.ExprStmt)
		if !ok {
			return nil
		}
		ce, ok := es.X.(*ast.CallExpr)
		if !ok || len(ce.Args) < 1 {
			return nil
		}
		sel, ok := ast.Unparen(ce.Fun).(*ast.SelectorExpr)
		if !ok || sel.Sel.Name != "Visit" || identObj(info, sel.X) != self {
			return nil
		}
		return ce.Args[0]
	}
	switch st := s.(type) {
	case *ast.ExprStmt:
		if a := visitArg(st); a != nil {
			return fieldOf(a)
		}
	case *ast.IfStmt: // if t.F != nil { self.Visit(t.F, ...) }
		if be, ok := ast.Unparen(st.Cond).(*ast.BinaryExpr); ok && be.Op == token.NEQ && st.Else == nil && len(st.Body.List) == 1 {
			if tv, ok := info.Types[be.Y]; ok && tv.IsNil() {
				if f := fieldOf(be.X); f != "" {
					if a := visitArg(st.Body.List[0]); a != nil && fieldOf(a) == f {
						return f
					}
				}
			}
		}
	case *ast.RangeStmt: // for _, x := range t.F { self.Visit(x, ...) }
		if f := fieldOf(st.X); f != "" && st.Value != nil && len(st.Body.List) == 1 {
			if a := visitArg(st.Body.List[0]); a != nil && identObj(info, a) != nil && identObj(info, a) == identObj(info, st.Value) {
				return f
			}
		}
	}
	return ""
}

type visitorLit struct {
	decl *ast.FuncDecl
	lit  *ast.FuncLit
	self types.Object
	node types.Object
}

// visitorLits finds function literals passed to dsl.Visit / dsl.VisitWithContext.
func visitorLits(c *core.Ctx, d *ast.FuncDecl) []visitorLit {
	p := c.DeclPkg(d)
	info := p.TypesInfo
	var out []visitorLit
	ast.Inspect(d.Body, func(n ast.Node) bool {
		ce, ok := n.(*ast.CallExpr)
		if !ok {
			return true
		}
		f := core.Callee(info, ce)
		if f == nil || f.Pkg() == nil || f.Pkg().Path() != core.Mod+"/pkg/dsl" || (f.Name() != "Visit" && f.Name() != "VisitWithContext") {
			return true
		}
		if sig := f.Type().(*types.Signature); sig.Recv() != nil {
			return true
		}
		for _, a := range ce.Args {
			fl, ok := ast.Unparen(a).(*ast.FuncLit)
			if !ok {
				continue
			}
			var params []types.Object
			for _, fld := range fl.Type.Params.List {
				for _, nm := range fld.Names {
					params = append(params, info.Defs[nm])
				}
			}
			if len(params) >= 2 {
				out = append(out, visitorLit{d, fl, params[0], params[1]})
			}
		}
		return true
	})
	return out
}

// rulePrunesPartial: like rulePrunes, but a path that visits some child explicitly
// (self.Visit(x)) counts as descending; used for the targeted walks of the evolution
// analyser, which follow alias/reference links instead of VisitChildren.
func rulePrunesPartial(scopeFiles func(file string) bool, ruleID string, min int) func(c *core.Ctx) {
	return rulePrunesImpl(scopeFiles, ruleID, min, true)
}

func rulePrunes(scopeFiles func(file string) bool, ruleID string, min int) func(c *core.Ctx) {
	return rulePrunesImpl(scopeFiles, ruleID, min, false)
}

func rulePrunesImpl(scopeFiles func(file string) bool, ruleID string, min int, partialOK bool) func(c *core.Ctx) {
	return func(c *core.Ctx) {
		c.Rule(ruleID, "every path on which a visitor callback returns without self.VisitChildren(node), for a node kind that has children, is an audited prune (table with reasons)", min)
		dslp := c.Pkg("pkg/dsl")
		nodeIface := dslp.Types.Scope().Lookup("Node").Type().Underlying().(*types.Interface)
		found := map[string]bool{}
		for _, d := range c.AllDecls() {
			if !scopeFiles(c.Fset.Position(d.Pos()).Filename) {
				continue
			}
			p := c.DeclPkg(d)
			info := p.TypesInfo
			for _, vl := range visitorLits(c, d) {
				fc := core.NewCFG(vl.lit.Body, info)
				// the node parameter and the variables a type switch on it binds
				nodeAliases := map[types.Object]bool{vl.node: true}
				ast.Inspect(vl.lit.Body, func(x ast.Node) bool {
					if ts, ok := x.(*ast.TypeSwitchStmt); ok {
						ti := parseTypeSwitch(info, ts)
						if nodeAliases[identObj(info, ti.subject)] {
							for _, cl := range ts.Body.List {
								if o := info.Implicits[cl]; o != nil {
									nodeAliases[o] = true
								}
							}
						}
					}
					if as, ok := x.(*ast.AssignStmt); ok && len(as.Rhs) == 1 {
						if ta, ok := ast.Unparen(as.Rhs[0]).(*ast.TypeAssertExpr); ok && nodeAliases[identObj(info, ta.X)] {
							if o := identObj(info, as.Lhs[0]); o != nil {
								nodeAliases[o] = true
							}
						}
					}
					return true
				})
				// a local computed from the node (`listed := toSchemaType(n)`, `clone := *rec; t = &clone`) stands for it:
				// visiting ITS children is the descent
				for changed := true; changed; {
					changed = false
					ast.Inspect(vl.lit.Body, func(x ast.Node) bool {
						as, ok := x.(*ast.AssignStmt)
						if !ok || len(as.Lhs) != len(as.Rhs) {
							return true
						}
						for i, l := range as.Lhs {
							o := identObj(info, l)
							if o == nil || nodeAliases[o] || !types.Implements(o.Type(), nodeIface) {
								continue
							}
							mentions := false
							ast.Inspect(as.Rhs[i], func(y ast.Node) bool {
								if id, ok := y.(*ast.Ident); ok && nodeAliases[info.ObjectOf(id)] {
									mentions = true
								}
								return !mentions
							})
							if mentions {
								nodeAliases[o] = true
								changed = true
							}
						}
						return true
					})
				}
				// blocks that descend completely
				desc := map[*cfg.Block]bool{}
				for _, b := range fc.G.Blocks {
					for _, n := range b.Nodes {
						ast.Inspect(n, func(x ast.Node) bool {
							if _, ok := x.(*ast.FuncLit); ok {
								return false
							}
							if ce, ok := x.(*ast.CallExpr); ok {
								if sel, ok := ast.Unparen(ce.Fun).(*ast.SelectorExpr); ok && sel.Sel.Name == "VisitChildren" && identObj(info, sel.X) == vl.self {
									if len(ce.Args) >= 1 && nodeAliases[identObj(info, ce.Args[0])] {
										desc[b] = true
									}
								}
								if sel, ok := ast.Unparen(ce.Fun).(*ast.SelectorExpr); ok && partialOK && sel.Sel.Name == "Visit" && identObj(info, sel.X) == vl.self {
									desc[b] = true
								}
							}
							return true
						})
					}
				}
				// a return preceded, in its own and the enclosing statement lists, by statements that
				// hand every child field of the case's node kind to self.Visit is a complete descent too
				for _, st := range vl.lit.Body.List {
					ts, ok := st.(*ast.TypeSwitchStmt)
					if !ok {
						continue
					}
					ti := parseTypeSwitch(info, ts)
					if !nodeAliases[identObj(info, ti.subject)] {
						continue
					}
					for _, cs := range ti.cases {
						if len(cs.types) != 1 || cs.types[0] == nil {
							continue
						}
						want := childFieldsOf(cs.types[0], nodeIface)
						if len(want) == 0 {
							continue
						}
						var scan func(list []ast.Stmt, covered map[string]bool)
						scan = func(list []ast.Stmt, covered map[string]bool) {
							cov := map[string]bool{}
							for k := range covered {
								cov[k] = true
							}
							for _, x := range list {
								if f := fieldVisitedBy(info, x, vl.self, nodeAliases); f != "" {
									cov[f] = true
									continue
								}
								switch y := x.(type) {
								case *ast.ReturnStmt:
									all := true
									for _, w := range want {
										all = all && cov[w]
									}
									if all {
										if b := fc.BlockOf(y); b != nil {
											desc[b] = true
										}
									}
								case *ast.IfStmt:
									scan(y.Body.List, cov)
									if eb, ok := y.Else.(*ast.BlockStmt); ok {
										scan(eb.List, cov)
									}
								case *ast.BlockStmt:
									scan(y.List, cov)
								}
							}
						}
						scan(cs.body, nil)
					}
				}
				// exitsWithoutDescent: the exits of the callback reachable from a block without passing a complete descent
				exitsWithoutDescent := func(from *cfg.Block) int {
					if from == nil || desc[from] {
						return 0
					}
					n := 0
					r := fc.ReachableBlocks(from, nil, desc)
					for b := range r {
						if len(b.Succs) == 0 && b.Live {
							// a block that ends in a no-return call is not an exit
							if len(b.Nodes) > 0 {
								if es, ok := b.Nodes[len(b.Nodes)-1].(*ast.ExprStmt); ok {
									if ce, ok := es.X.(*ast.CallExpr); ok && core.NoReturn(info, ce) {
										continue
									}
								}
							}
							n++
						}
					}
					return n
				}
				// pruneDecisions: the branch points, reachable from a block without passing a complete descent, at which one
				// side can still descend and another side only leaves without descending. This is what an audit of a prune
				// is about — "under THIS test the children are skipped" — and it does not change when the pruning side is
				// split into several returns, when the test is inverted, or when the branches are swapped.
				canDescend := func(b *cfg.Block) bool {
					if desc[b] {
						return true
					}
					for r := range fc.ReachableBlocks(b, nil, nil) {
						if desc[r] {
							return true
						}
					}
					return false
				}
				pruneDecisions := func(from *cfg.Block) int {
					if from == nil || desc[from] {
						return 0
					}
					n := 0
					for b := range fc.ReachableBlocks(from, nil, desc) {
						if len(b.Succs) < 2 {
							continue
						}
						some, none := false, false
						for _, sc := range b.Succs {
							if canDescend(sc) {
								some = true
							} else if exitsWithoutDescent(sc) > 0 {
								none = true
							}
						}
						if some && none {
							n++
						}
					}
					return n
				}
				lastExits := 0
				lastDescends := true
				exitReachable := func(from *cfg.Block) bool {
					n := exitsWithoutDescent(from)
					lastExits = pruneDecisions(from)
					lastDescends = from != nil && canDescend(from)
					return n > 0
				}
				// the type switch on the node parameter directly in the literal's body
				var sw *typeSwitchInfo
				for _, st := range vl.lit.Body.List {
					if ts, ok := st.(*ast.TypeSwitchStmt); ok {
						ti := parseTypeSwitch(info, ts)
						if nodeAliases[identObj(info, ti.subject)] {
							sw = &ti
						}
					}
				}
				report := func(label string, pos ast.Node, kinds []types.Type, prunes bool) {
					has := false
					for _, k := range kinds {
						if hasNodeChildren(c, k, nodeIface) {
							has = true
						}
					}
					if !has {
						return
					}
					key := fmt.Sprintf("%s/%s", c.FuncName(d), label)
					if !prunes {
						c.OK(ruleID, key, pos.Pos(), "every path calls self.VisitChildren(node)")
						return
					}
					found[key] = true
					if r, ok := auditedPrunes[key]; ok {
						// the audit was given for the pruning exits that existed then: a further way out without
						// descending is not covered by it
						if max, pinned := pinnedPruneExits()[key]; pinned && max > 0 && !lastDescends {
							c.Bad(ruleID, key, pos.Pos(), fmt.Sprintf("the audited prune (%s) was a conditional one: the children were visited unless its test held; now no path of this case visits the children of this node kind", r))
							return
						}
						if max, pinned := pinnedPruneExits()[key]; pinned && max > 0 && lastExits > max {
							c.Bad(ruleID, key, pos.Pos(), fmt.Sprintf("the audited prune (%s) covers %d test(s) that decide between visiting the children and leaving without them; there are now %d: under the new one the children of this node kind are skipped", r, max, lastExits))
							return
						}
						c.Tables[ruleID+"_prune_exits/"+key] = lastExits
						c.OK(ruleID, key, pos.Pos(), "audited prune: "+r)
					} else {
						c.Bad(ruleID, key, pos.Pos(), "the callback can return without visiting the children of this node kind and the prune is not in the audited table: rules below such a node are skipped")
					}
				}
				if sw != nil {
					for _, cs := range sw.cases {
						var lbls []string
						var kinds []types.Type
						for _, t := range cs.types {
							if t == nil {
								lbls = append(lbls, "nil")
							} else {
								lbls = append(lbls, typeLabel(t))
								kinds = append(kinds, t)
							}
						}
						label := "case " + strings.Join(lbls, ",")
						var from *cfg.Block
						if len(cs.body) > 0 {
							from = fc.BlockOf(cs.body[0])
							report(label, cs.cc, kinds, exitReachable(from))
						} else {
							// empty case: falls out of the switch; prune iff what follows the switch can exit without descending
							report(label, cs.cc, kinds, exitAfterSwitchWithoutDescend(fc, desc, sw.stmt, vl.lit, exitReachable))
						}
					}
					if sw.hasDefault {
						var from *cfg.Block
						if len(sw.defaultBody) > 0 {
							from = fc.BlockOf(sw.defaultBody[0])
						}
						report("default", sw.stmt, []types.Type{nodeIface}, from == nil || exitReachable(from))
					} else {
						report("default(absent)", sw.stmt, []types.Type{nodeIface}, exitAfterSwitchWithoutDescend(fc, desc, sw.stmt, vl.lit, exitReachable))
					}
				} else if chain := assertIfChain(info, vl.lit.Body, nodeAliases); len(chain) >= 2 {
					// a type switch written as top-level `if t, ok := node.(T); ok [&& ...] { ... }` statements: every way out of
					// the callback passes the body of one of them (that case) or of none (the default)
					saved := map[*cfg.Block]bool{}
					for _, ch := range chain {
						report("case "+typeLabel(ch.typ), ch.stmt, []types.Type{ch.typ}, exitReachable(fc.BlockOf(ch.stmt.Body.List[0])))
					}
					for _, ch := range chain {
						if b := fc.BlockOf(ch.stmt.Body.List[0]); b != nil && !desc[b] {
							saved[b] = true
							desc[b] = true
						}
					}
					prunes := exitReachable(fc.Entry())
					for b := range saved {
						delete(desc, b)
					}
					report("default(absent)", vl.lit, []types.Type{nodeIface}, prunes)
				} else {
					// `t, ok := node.(T); if !ok { self.VisitChildren(node); return }` followed by the handling of T
					// is a switch with one case and a descending default
					if k, rest := commaOkCase(info, vl.lit.Body, nodeAliases); k != nil && rest != nil {
						report("case "+typeLabel(k), rest, []types.Type{k}, exitReachable(fc.BlockOf(rest)))
					} else {
						report("body", vl.lit, []types.Type{nodeIface}, exitReachable(fc.Entry()))
					}
				}
			}
		}
		var stale []string
		for k := range auditedPrunes {
			if !found[k] && strings.HasPrefix(k, "pkg/dsl") {
				stale = append(stale, k)
			}
		}
		sort.Strings(stale)
		c.Tables[ruleID+"_stale_table_entries"] = stale
	}
}

// exitAfterSwitchWithoutDescend: after the switch statement, can the literal end without descending?
func exitAfterSwitchWithoutDescend(fc *core.FuncCFG, desc map[*cfg.Block]bool, sw *ast.TypeSwitchStmt, lit *ast.FuncLit, exitReachable func(*cfg.Block) bool) bool {
	// statements following the switch in the literal's body
	after := false
	for _, st := range lit.Body.List {
		if st == ast.Stmt(sw) {
			after = true
			continue
		}
		if after {
			return exitReachable(fc.BlockOf(st))
		}
	}
	return true // nothing follows: falling out of the switch ends the callback
}

// V6: a position rule expressed as a test on the visitor context ("a !stream is only allowed as
// the type of a protocol step") must not let the accepting context leak below the construct:
// the node kinds that can hold the checked kind (for *Stream: every struct with a field of
// type Dimensionality) need their own case, and in it the incoming context may be passed on
// unchanged only to that holding field — not to the other children, through which the same
// kind can occur again at depth (`!vector {items: !stream ...}`, a stream of streams).
func ruleContextPositionTests(c *core.Ctx) {
	const rule = "V6"
	c.Rule(rule, "where a validation visitor accepts a node kind by a type test on its context, the kinds that can hold it have a case of their own that passes the accepting context only to the holding field, never to their other children", 1)
	p := c.Pkg("pkg/dsl")
	if p == nil {
		c.Undecided(rule, "anchor/pkg/dsl", 0, "package not loaded")
		return
	}
	info := p.TypesInfo
	nodeTN, _ := p.Types.Scope().Lookup("Node").(*types.TypeName)
	if nodeTN == nil {
		c.Undecided(rule, "anchor/Node", 0, "Node interface not found")
		return
	}
	allKinds := implementers(c, "Node")
	found := 0
	for _, d := range c.AllDecls() {
		if c.DeclPkg(d) != p || d.Body == nil || !dslValidationFiles(c.Fset.Position(d.Pos()).Filename) {
			continue
		}
		ast.Inspect(d.Body, func(n ast.Node) bool {
			// a visitor-with-context callback, wherever it is written (argument of VisitWithContext or a local first):
			// func(self VisitorWithContext[T], node Node, context T)
			lit, ok := n.(*ast.FuncLit)
			if !ok || lit.Type.Params == nil {
				return true
			}
			var prm []types.Object
			for _, fl := range lit.Type.Params.List {
				for _, nm := range fl.Names {
					prm = append(prm, info.Defs[nm])
				}
			}
			if len(prm) != 3 || prm[0] == nil || prm[1] == nil || prm[2] == nil {
				return true
			}
			if nt := core.NamedOf(prm[0].Type()); nt == nil || nt.Obj().Name() != "VisitorWithContext" {
				return true
			}
			selfObj, nodeObj, ctxObj := prm[0], prm[1], prm[2]
			parent := map[ast.Node]ast.Node{}
			var stack []ast.Node
			ast.Inspect(lit.Body, func(m ast.Node) bool {
				if m == nil {
					stack = stack[:len(stack)-1]
					return true
				}
				if len(stack) > 0 {
					parent[m] = stack[len(stack)-1]
				}
				stack = append(stack, m)
				return true
			})
			// assertions `x, ok := S.(T)` in the callback: ok variable -> (subject, T, x)
			type assertion struct {
				subj types.Object
				t    types.Type
				val  types.Object
			}
			asserts := map[types.Object]assertion{}
			nodeAlias := map[types.Object]bool{nodeObj: true}
			ctxAlias := map[types.Object]bool{ctxObj: true}
			for round := 0; round < 2; round++ {
				ast.Inspect(lit.Body, func(m ast.Node) bool {
					switch x := m.(type) {
					case *ast.AssignStmt:
						if len(x.Rhs) == 1 {
							if ta, isTA := ast.Unparen(x.Rhs[0]).(*ast.TypeAssertExpr); isTA && ta.Type != nil {
								so := identObj(info, ta.X)
								if so == nil {
									return true
								}
								vo := identObj(info, x.Lhs[0])
								if len(x.Lhs) == 2 {
									if oo := identObj(info, x.Lhs[1]); oo != nil {
										asserts[oo] = assertion{so, info.TypeOf(ta.Type), vo}
									}
								}
								if vo != nil && nodeAlias[so] {
									nodeAlias[vo] = true
								}
								if vo != nil && ctxAlias[so] {
									ctxAlias[vo] = true
								}
							}
						}
					case *ast.TypeSwitchStmt:
						ti := parseTypeSwitch(info, x)
						if nodeAlias[identObj(info, ti.subject)] {
							for _, cl := range x.Body.List {
								if o := info.Implicits[cl]; o != nil {
									nodeAlias[o] = true
								}
							}
						}
					}
					return true
				})
			}
			covers := func(t types.Type, k types.Type) bool {
				if types.Identical(t, k) {
					return true
				}
				if iface, ok := t.Underlying().(*types.Interface); ok && types.Implements(k, iface) {
					return true
				}
				return false
			}
			// what a condition says about an ok variable: +1 it is true in the then-branch, -1 it is false there
			okPolarity := func(cond ast.Expr) (types.Object, int) {
				neg := 1
				e := ast.Unparen(cond)
				for {
					if u, isU := e.(*ast.UnaryExpr); isU && u.Op == token.NOT {
						neg = -neg
						e = ast.Unparen(u.X)
						continue
					}
					break
				}
				if id, isId := e.(*ast.Ident); isId {
					if o := info.ObjectOf(id); o != nil {
						if _, known := asserts[o]; known {
							return o, neg
						}
						// an explaining local: `own := inStep && step.Type == t`; when it holds, so does every conjunct
						if rhs := singleDefRHS(info, lit.Body, id); rhs != ast.Expr(id) && neg == 1 {
							for _, part := range conjuncts(rhs) {
								if pid, isP := ast.Unparen(part).(*ast.Ident); isP {
									if po := info.ObjectOf(pid); po != nil {
										if _, known := asserts[po]; known {
											return po, 1
										}
									}
								}
							}
						}
					}
				}
				if neg == 1 {
					for _, part := range conjuncts(cond) {
						if part != cond {
							if o, pol := okPolarityLeaf(info, part, asserts2objs(asserts)); o != nil && pol == 1 {
								return o, 1
							}
						}
					}
				}
				return nil, 0
			}
			// the kinds the node can have where statement/expression m executes
			possible := func(m ast.Node) []types.Type {
				kinds := append([]types.Type(nil), allKinds...)
				restrict := func(t types.Type, keep bool) {
					var out []types.Type
					for _, k := range kinds {
						if covers(t, k) == keep {
							out = append(out, k)
						}
					}
					kinds = out
				}
				child := m
				for cur := parent[m]; cur != nil; child, cur = cur, parent[cur] {
					switch x := cur.(type) {
					case *ast.CaseClause:
						if ts, isTS := parent[parent[cur]].(*ast.TypeSwitchStmt); isTS {
							ti := parseTypeSwitch(info, ts)
							if nodeAlias[identObj(info, ti.subject)] {
								if x.List != nil {
									var out []types.Type
									for _, k := range kinds {
										for _, e := range x.List {
											if t := info.TypeOf(e); t != nil && covers(t, k) {
												out = append(out, k)
												break
											}
										}
									}
									kinds = out
								} else {
									for _, oc := range ts.Body.List {
										for _, e := range oc.(*ast.CaseClause).List {
											if t := info.TypeOf(e); t != nil {
												if tv, isNil := info.Types[e]; !isNil || !tv.IsNil() {
													restrict(t, false)
												}
											}
										}
									}
								}
							}
						}
					case *ast.IfStmt:
						if o, pol := okPolarity(x.Cond); o != nil && nodeAlias[asserts[o].subj] {
							if child == ast.Node(x.Body) {
								if pol == 1 {
									restrict(asserts[o].t, true)
								} else if _, whole := ast.Unparen(x.Cond).(*ast.UnaryExpr); whole {
									restrict(asserts[o].t, false)
								}
							} else if x.Else != nil && child == ast.Node(x.Else) {
								if id, plain := ast.Unparen(x.Cond).(*ast.Ident); plain && info.ObjectOf(id) == o {
									restrict(asserts[o].t, false)
								} else if pol == -1 {
									restrict(asserts[o].t, true)
								}
							}
						}
					case *ast.BlockStmt:
						for _, sib := range x.List {
							if ast.Node(sib) == child {
								break
							}
							is, isIf := sib.(*ast.IfStmt)
							if !isIf || is.Else != nil || len(is.Body.List) == 0 || !stmtLeaves(is.Body.List[len(is.Body.List)-1]) {
								continue
							}
							if id, plain := ast.Unparen(is.Cond).(*ast.Ident); plain {
								if a, known := asserts[info.ObjectOf(id)]; known && nodeAlias[a.subj] {
									restrict(a.t, false) // `if x, ok := node.(T); ok { ...; return }`: not a T afterwards
								}
							} else if u, isU := ast.Unparen(is.Cond).(*ast.UnaryExpr); isU && u.Op == token.NOT {
								if a, known := asserts[identObj(info, u.X)]; known && nodeAlias[a.subj] {
									restrict(a.t, true)
								}
							}
						}
					}
				}
				return kinds
			}
			// the kind that is accepted under a type test of the context: an error is reported where the test failed
			type acceptance struct{ checked, accepted types.Type }
			var accs []acceptance
			ast.Inspect(lit.Body, func(m ast.Node) bool {
				ifs, isIf := m.(*ast.IfStmt)
				if !isIf {
					return true
				}
				var failed *assertion
				for _, part := range conjuncts(ifs.Cond) {
					if u, isU := ast.Unparen(part).(*ast.UnaryExpr); isU && u.Op == token.NOT {
						if a, known := asserts[identObj(info, u.X)]; known && ctxAlias[a.subj] {
							aa := a
							failed = &aa
						}
					}
				}
				if failed == nil {
					return true
				}
				reports := false
				ast.Inspect(ifs.Body, func(x ast.Node) bool {
					if ce, isCall := x.(*ast.CallExpr); isCall {
						if sel, isSel := ast.Unparen(ce.Fun).(*ast.SelectorExpr); isSel && sel.Sel.Name == "Add" {
							reports = true
						}
					}
					return true
				})
				if !reports {
					return true
				}
				ks := possible(ifs)
				if len(ks) == 1 {
					accs = append(accs, acceptance{ks[0], failed.t})
				}
				return true
			})
			for _, acc := range accs {
				found++
				fn := c.FuncName(d)
				// every call that hands the incoming context (or what it was asserted to be) on
				type passing struct {
					call  *ast.CallExpr
					kinds []types.Type
				}
				var passes []passing
				ast.Inspect(lit.Body, func(m ast.Node) bool {
					ce, isCall := m.(*ast.CallExpr)
					if !isCall || len(ce.Args) != 2 {
						return true
					}
					sel, isSel := ast.Unparen(ce.Fun).(*ast.SelectorExpr)
					if !isSel || identObj(info, sel.X) != selfObj || (sel.Sel.Name != "Visit" && sel.Sel.Name != "VisitChildren") {
						return true
					}
					if !ctxAlias[identObj(info, ce.Args[1])] {
						return true // a new context is passed
					}
					passes = append(passes, passing{ce, possible(ce)})
					return true
				})
				for _, impl := range allKinds {
					st := structOf(impl)
					nt := core.NamedOf(impl)
					if st == nil || nt == nil {
						continue
					}
					var holding []string
					for i := 0; i < st.NumFields(); i++ {
						ft := st.Field(i).Type()
						if types.AssignableTo(acc.checked, ft) && !types.Identical(ft, nodeTN.Type()) {
							holding = append(holding, st.Field(i).Name())
						}
					}
					if len(holding) == 0 {
						continue
					}
					key := fmt.Sprintf("%s/%s accepted under %s/holder %s", fn, typeLabel(acc.checked), typeLabel(acc.accepted), typeLabel(impl))
					leak := ""
					var at token.Pos = lit.Pos()
					for _, ps := range passes {
						mayBe := false
						for _, k := range ps.kinds {
							if types.Identical(k, impl) {
								mayBe = true
							}
						}
						if !mayBe {
							continue
						}
						okArg := false
						sel := ast.Unparen(ps.call.Fun).(*ast.SelectorExpr)
						if sel.Sel.Name == "Visit" {
							if fs, isF := ast.Unparen(ps.call.Args[0]).(*ast.SelectorExpr); isF {
								for _, h := range holding {
									if fs.Sel.Name == h {
										okArg = true
									}
								}
							}
						}
						if !okArg && leak == "" {
							leak = types.ExprString(ps.call)
							at = ps.call.Pos()
						}
					}
					c.Check(leak == "", rule, key, at, "where the node can be a "+typeLabel(impl)+", the accepting context is passed only to "+strings.Join(holding, "/"),
						fmt.Sprintf("where the node can be a %s (which can hold a %s in %s), the accepting context is passed on with `%s`: a %s nested below its other children (e.g. inside the items of a vector) is accepted as if it were at the allowed position", typeLabel(impl), typeLabel(acc.checked), strings.Join(holding, "/"), leak, typeLabel(acc.checked)))
				}
			}
			return true
		})
	}
	if found == 0 {
		c.Undecided(rule, "anchor/context type test", 0, "no context-typed acceptance test found in the validation visitors (validateStreams changed shape)")
	}
}

func conjuncts(e ast.Expr) []ast.Expr {
	if be, ok := ast.Unparen(e).(*ast.BinaryExpr); ok && be.Op == token.LAND {
		return append(conjuncts(be.X), conjuncts(be.Y)...)
	}
	return []ast.Expr{e}
}

func asserts2objs[T any](m map[types.Object]T) map[types.Object]bool {
	out := map[types.Object]bool{}
	for k := range m {
		out[k] = true
	}
	return out
}

// okPolarityLeaf: part is `ok` (+1) or `!ok` (-1) for a known ok variable.
func okPolarityLeaf(info *types.Info, part ast.Expr, oks map[types.Object]bool) (types.Object, int) {
	pol := 1
	e := ast.Unparen(part)
	for {
		if u, isU := e.(*ast.UnaryExpr); isU && u.Op == token.NOT {
			pol = -pol
			e = ast.Unparen(u.X)
			continue
		}
		break
	}
	if id, ok := e.(*ast.Ident); ok {
		if o := info.ObjectOf(id); o != nil && oks[o] {
			return o, pol
		}
	}
	return nil, 0
}

// commaOkCase recognises, at the start of a visitor callback,
//
//	x, ok := node.(T)
//	if !ok { self.VisitChildren(node...); return }
//	<rest>
//
// and returns T and the first statement of <rest>.
func commaOkCase(info *types.Info, body *ast.BlockStmt, nodeAliases map[types.Object]bool) (types.Type, ast.Stmt) {
	descendsOnly := func(b *ast.BlockStmt) bool {
		d := false
		for _, st := range b.List {
			if es, ok := st.(*ast.ExprStmt); ok {
				if ce, ok := es.X.(*ast.CallExpr); ok {
					if sel, ok := ast.Unparen(ce.Fun).(*ast.SelectorExpr); ok && sel.Sel.Name == "VisitChildren" {
						d = true
						continue
					}
				}
			}
			if _, ok := st.(*ast.ReturnStmt); ok {
				continue
			}
			return false
		}
		return d
	}
	// if x, ok := node.(T); ok { <T> } else { self.VisitChildren(node) }   (assertion in the init or just in front)
	for i, st := range body.List {
		ifs, ok := st.(*ast.IfStmt)
		if !ok || i > 1 {
			break
		}
		var as *ast.AssignStmt
		if ifs.Init != nil {
			as, _ = ifs.Init.(*ast.AssignStmt)
		} else if i == 1 {
			as, _ = body.List[0].(*ast.AssignStmt)
		}
		if as == nil || len(as.Lhs) != 2 || len(as.Rhs) != 1 {
			continue
		}
		ta, ok := ast.Unparen(as.Rhs[0]).(*ast.TypeAssertExpr)
		if !ok || ta.Type == nil || !nodeAliases[identObj(info, ta.X)] {
			continue
		}
		okObj := identObj(info, as.Lhs[1])
		eb, hasElse := ifs.Else.(*ast.BlockStmt)
		if okObj != nil && identObj(info, ifs.Cond) == okObj && hasElse && descendsOnly(eb) && len(ifs.Body.List) > 0 && i == len(body.List)-1 {
			if o := identObj(info, as.Lhs[0]); o != nil {
				nodeAliases[o] = true
			}
			return info.TypeOf(ta.Type), ifs.Body.List[0]
		}
		// if x, ok := node.(T); ok { <T>; return }  followed by nothing but the descent
		if okObj != nil && identObj(info, ifs.Cond) == okObj && !hasElse && ifs.Else == nil && len(ifs.Body.List) > 0 && i < len(body.List)-1 {
			if _, leaves := ifs.Body.List[len(ifs.Body.List)-1].(*ast.ReturnStmt); leaves && descendsOnly(&ast.BlockStmt{List: body.List[i+1:]}) {
				if o := identObj(info, as.Lhs[0]); o != nil {
					nodeAliases[o] = true
				}
				return info.TypeOf(ta.Type), ifs.Body.List[0]
			}
		}
	}
	if len(body.List) < 3 {
		return nil, nil
	}
	as, ok := body.List[0].(*ast.AssignStmt)
	if !ok || len(as.Lhs) != 2 || len(as.Rhs) != 1 {
		return nil, nil
	}
	ta, ok := ast.Unparen(as.Rhs[0]).(*ast.TypeAssertExpr)
	if !ok || ta.Type == nil || !nodeAliases[identObj(info, ta.X)] {
		return nil, nil
	}
	okObj := identObj(info, as.Lhs[1])
	ifs, ok := body.List[1].(*ast.IfStmt)
	if !ok || ifs.Else != nil {
		return nil, nil
	}
	u, ok := ast.Unparen(ifs.Cond).(*ast.UnaryExpr)
	if !ok || u.Op != token.NOT || identObj(info, u.X) != okObj || okObj == nil {
		return nil, nil
	}
	descends, returns := false, false
	for _, st := range ifs.Body.List {
		if es, ok := st.(*ast.ExprStmt); ok {
			if ce, ok := es.X.(*ast.CallExpr); ok {
				if sel, ok := ast.Unparen(ce.Fun).(*ast.SelectorExpr); ok && sel.Sel.Name == "VisitChildren" {
					descends = true
				}
			}
		}
		if _, ok := st.(*ast.ReturnStmt); ok {
			returns = true
		}
	}
	if !descends || !returns {
		return nil, nil
	}
	if o := identObj(info, as.Lhs[0]); o != nil {
		nodeAliases[o] = true
	}
	return info.TypeOf(ta.Type), body.List[2]
}

var pinnedPruneExitsCache map[string]int

// pinnedPruneExits: refs/audited_prunes.json — for every audited prune, the number of pruning exits it was given for.
func pinnedPruneExits() map[string]int {
	if pinnedPruneExitsCache == nil {
		pinnedPruneExitsCache = map[string]int{}
		var raw map[string]int
		if err := loadRef("audited_prunes.json", &raw); err == nil {
			pinnedPruneExitsCache = raw
		}
	}
	return pinnedPruneExitsCache
}

type assertIf struct {
	typ  types.Type
	stmt *ast.IfStmt
}

// assertIfChain: the top-level statements of a visitor callback of the form `if t, ok := node.(T); ok [&& more] { body }`
// (no else, non-empty body), when the callback has no type switch on the node.
func assertIfChain(info *types.Info, body *ast.BlockStmt, nodeAliases map[types.Object]bool) []assertIf {
	var out []assertIf
	var list []*ast.IfStmt
	for _, st := range body.List {
		// an if / else-if chain contributes each of its links
		for is, _ := st.(*ast.IfStmt); is != nil; is, _ = is.Else.(*ast.IfStmt) {
			if _, finalElse := is.Else.(*ast.BlockStmt); finalElse {
				list = nil
				return nil // a final else is the default written out: not this form
			}
			list = append(list, is)
		}
	}
	for _, is := range list {
		if is.Init == nil || len(is.Body.List) == 0 {
			continue
		}
		as, ok := is.Init.(*ast.AssignStmt)
		if !ok || len(as.Lhs) != 2 || len(as.Rhs) != 1 {
			continue
		}
		ta, ok := ast.Unparen(as.Rhs[0]).(*ast.TypeAssertExpr)
		if !ok || ta.Type == nil || !nodeAliases[identObj(info, ta.X)] {
			continue
		}
		okObj := identObj(info, as.Lhs[1])
		first := conjuncts(is.Cond)[0]
		if okObj == nil || identObj(info, first) != okObj {
			continue
		}
		out = append(out, assertIf{info.TypeOf(ta.Type), is})
	}
	return out
}
