package rules

import (
	"fmt"
	"go/ast"
	"go/token"
	"go/types"
	"reflect"
	"strings"

	"verif/checker/internal/core"
)

func frontEndFile(f string) bool {
	if strings.HasSuffix(f, "_test.go") {
		return false
	}
	return strings.Contains(f, "/pkg/dsl/") || strings.Contains(f, "/pkg/packaging/") || strings.Contains(f, "/internal/validation/") || strings.Contains(f, "/internal/cmd/")
}

// innermost function body (declaration or literal) containing n
func innermostBody(d *ast.FuncDecl, n ast.Node) *ast.BlockStmt {
	body := d.Body
	ast.Inspect(d.Body, func(x ast.Node) bool {
		if fl, ok := x.(*ast.FuncLit); ok && fl.Body.Pos() <= n.Pos() && n.End() <= fl.Body.End() {
			body = fl.Body
		}
		return true
	})
	return body
}

// site exceptions for P2: function/slice[index] -> invariant that makes it safe
var p2Exceptions = map[string]string{}

// P2: constant index into a slice needs a dominating length fact.
func ruleConstIndex(fileScope func(string) bool, ruleID string, min int) func(c *core.Ctx) {
	return func(c *core.Ctx) {
		c.Rule(ruleID, "every constant index S[k] into a slice is preceded on all paths by a fact len(S) > k (comparison with exit, helper predicate, short-circuit, or literal construction)", min)
		sum := map[*types.Func][2]*lenIv{}
		for _, d := range c.AllDecls() {
			if !fileScope(c.Fset.Position(d.Pos()).Filename) {
				continue
			}
			if _, skip := outOfScopeFuncs[c.FuncName(d)]; skip {
				continue
			}
			p := c.DeclPkg(d)
			info := p.TypesInfo
			la := &lenAnalyzer{c: c, info: info, sum: sum}
			queries := map[*ast.BlockStmt]func(ast.Node, sliceKey) lenIv{}
			ast.Inspect(d.Body, func(n ast.Node) bool {
				ix, ok := n.(*ast.IndexExpr)
				if !ok {
					return true
				}
				t := info.TypeOf(ix.X)
				if t == nil {
					return true
				}
				if _, isSlice := t.Underlying().(*types.Slice); !isSlice {
					// a constant index into a STRING panics the same way (`line[1]` on a one-character line)
					if b, isBasic := t.Underlying().(*types.Basic); !isBasic || b.Info()&types.IsString == 0 {
						return true
					}
					if tv, isC := info.Types[ix.X]; isC && tv.Value != nil {
						return true // indexing a constant string
					}
				}
				k, isConst := constInt(info, ix.Index)
				if !isConst {
					return true
				}
				key := fmt.Sprintf("%s/%s[%d]", c.FuncName(d), types.ExprString(ix.X), k)
				if r, ok := p2Exceptions[key]; ok {
					c.OK(ruleID, key, ix.Pos(), "table exception: "+r)
					return true
				}
				sk, ok := keyOf(info, ix.X)
				if !ok {
					// indexing a call result / literal: literal with enough elements is fine
					if cl, isLit := ast.Unparen(ix.X).(*ast.CompositeLit); isLit && len(cl.Elts) > k {
						c.OK(ruleID, key, ix.Pos(), "indexes a literal with enough elements")
						return true
					}
					c.Bad(ruleID, key, ix.Pos(), "constant index into the result of an expression whose length is not established")
					return true
				}
				sk.path = normPath(sk.path)
				body := innermostBody(d, ix)
				q, ok := queries[body]
				if !ok {
					q = la.analyze(body)
					queries[body] = q
				}
				iv := q(ix, sk)
				if iv.lo > k {
					c.OK(ruleID, key, ix.Pos(), iv.String()+" holds on every path to the index")
					return true
				}
				// locally constructed: S := []T{a,b,...} / make([]T, n) with n>k and no later shrink — look for the defining literal
				if defLen(info, body, sk) > k {
					c.OK(ruleID, key, ix.Pos(), "slice is built in this function with more than k elements")
					return true
				}
				// the length is established by every caller of an unexported function
				if body == d.Body {
					if eiv, sites := callerLen(c, d, info, sk, sum); sites > 0 && !eiv.isTop() {
						la2 := &lenAnalyzer{c: c, info: info, sum: sum, entry: lenState{sk: eiv}}
						if iv2 := la2.analyze(body)(ix, sk); iv2.lo > k {
							c.OK(ruleID, key, ix.Pos(), fmt.Sprintf("%s holds on every path to the index: established at every call site (%d) of the function", iv2.String(), sites))
							return true
						}
					}
				}
				c.Bad(ruleID, key, ix.Pos(), fmt.Sprintf("index %d is not protected: only `%s` is known here; an input with a shorter slice panics (index out of range)", k, iv.String()))
				return true
			})
		}
	}
}

// callerLen: for a slice key rooted at a parameter of the unexported function d, the hull of what every call site in
// the module knows about the corresponding argument; sites==0 when the function is exported, used as a value, or
// some call site cannot be expressed.
func callerLen(c *core.Ctx, d *ast.FuncDecl, info *types.Info, sk sliceKey, sum map[*types.Func][2]*lenIv) (lenIv, int) {
	if d.Name.IsExported() || d.Recv != nil {
		return topIv(), 0
	}
	pi := -1
	for i, po := range paramObjs(info, d) {
		if po != nil && po == sk.root {
			pi = i
		}
	}
	me, _ := info.Defs[d.Name].(*types.Func)
	if pi < 0 || me == nil {
		return topIv(), 0
	}
	var hull lenIv
	sites := 0
	for _, od := range c.AllDecls() {
		if od.Body == nil || c.DeclPkg(od) == nil {
			continue
		}
		for _, r := range c.Refs(od) {
			if r.Origin() == me {
				return topIv(), 0
			}
		}
		var q func(ast.Node, sliceKey) lenIv
		oinfo := c.DeclPkg(od).TypesInfo
		for _, cs := range c.Calls(od) {
			if cs.Callee == nil || cs.Callee.Origin() != me {
				continue
			}
			if pi >= len(cs.Call.Args) || innermostBody(od, cs.Call) != od.Body {
				return topIv(), 0
			}
			ak, ok := keyOf(oinfo, cs.Call.Args[pi])
			if !ok {
				return topIv(), 0
			}
			ak.path = normPath(ak.path + sk.path)
			if q == nil {
				q = (&lenAnalyzer{c: c, info: oinfo, sum: sum}).analyze(od.Body)
			}
			iv := q(cs.Call, ak)
			if sites == 0 {
				hull = iv
			} else {
				hull = hull.join(iv)
			}
			sites++
		}
	}
	if sites == 0 {
		return topIv(), 0
	}
	return hull, sites
}

// defLen: if the root variable of sk is assigned exactly once in body from a composite
// literal or make with constant length and sk has empty path, return that length.
func defLen(info *types.Info, body *ast.BlockStmt, sk sliceKey) int {
	if sk.path != "" {
		return -1
	}
	n := -1
	count := 0
	ast.Inspect(body, func(x ast.Node) bool {
		as, ok := x.(*ast.AssignStmt)
		if !ok {
			return true
		}
		for i, l := range as.Lhs {
			if identObj(info, l) != sk.root || i >= len(as.Rhs) {
				continue
			}
			count++
			switch r := ast.Unparen(as.Rhs[i]).(type) {
			case *ast.CompositeLit:
				n = len(r.Elts)
			case *ast.CallExpr:
				if id, ok := r.Fun.(*ast.Ident); ok && id.Name == "make" && len(r.Args) >= 2 {
					if v, ok := constInt(info, r.Args[1]); ok {
						n = v
					}
				}
			}
		}
		return true
	})
	if count == 1 {
		return n
	}
	return -1
}

// ---------------------------------------------------------------------------
// P1: pair access into YAML node content. `X.Content[i+1]` inside
// `for i := 0; i < len(X.Content); i += 2` needs an even length, which yaml.v3
// guarantees only for Kind == MappingNode. A test of X.Tag == "!!map" is NOT such a
// guarantee: the tag can be written explicitly on a sequence (`fields: !!map [a]`), and
// custom tags (`!record [a]`) say nothing about the kind.
// ---------------------------------------------------------------------------

func isYamlNodeSlice(t types.Type) bool {
	sl, ok := t.Underlying().(*types.Slice)
	if !ok {
		return false
	}
	return core.TypeIs(sl.Elem(), "gopkg.in/yaml.v3", "Node")
}

func rulePairAccess(c *core.Ctx) {
	const rule = "P1"
	c.Rule(rule, "every S[i+1] pair access over YAML node content is dominated by a check that the node's Kind is yaml.MappingNode (even length guaranteed by the parser) or by an explicit length test", 15)
	sum := map[*types.Func][2]*lenIv{}
	for _, d := range c.AllDecls() {
		if !frontEndFile(c.Fset.Position(d.Pos()).Filename) {
			continue
		}
		p := c.DeclPkg(d)
		info := p.TypesInfo
		var q func(ast.Node, sliceKey) lenIv
		ast.Inspect(d.Body, func(n ast.Node) bool {
			ix, ok := n.(*ast.IndexExpr)
			if !ok {
				return true
			}
			t := info.TypeOf(ix.X)
			if t == nil || !isYamlNodeSlice(t) {
				return true
			}
			// index forms: i (loop var), i+1, constant
			key := fmt.Sprintf("%s/%s[%s]", c.FuncName(d), types.ExprString(ix.X), types.ExprString(ix.Index))
			if k, isConst := constInt(info, ix.Index); isConst {
				sk, ok := keyOf(info, ix.X)
				if ok {
					sk.path = normPath(sk.path)
					if q == nil {
						q = (&lenAnalyzer{c: c, info: info, sum: sum}).analyze(d.Body)
					}
					if iv := q(ix, sk); iv.lo > k {
						c.OK(rule, key, ix.Pos(), iv.String()+" on every path")
						return true
					}
				}
				c.Bad(rule, key, ix.Pos(), "constant index into YAML content without a length test")
				return true
			}
			be, isBin := ast.Unparen(ix.Index).(*ast.BinaryExpr)
			if !isBin {
				// plain loop variable bounded by the loop condition, or range index
				if loopBounds(info, d.Body, ix) {
					c.OK(rule, key, ix.Pos(), "index is the loop variable bounded by i < len(S)")
				} else {
					c.Bad(rule, key, ix.Pos(), "index is not bounded by an enclosing `i < len(S)` loop")
				}
				return true
			}
			if be.Op == token.MUL {
				// S[2*k] inside `for ...; 2*k < len(S); ...` (or `k < len(S)/2`): the first element of pair k
				if pairLoopBounds(info, d.Body, ix, be) {
					c.OK(rule, key, ix.Pos(), "index 2*k is bounded by the loop condition 2*k < len(S)")
				} else {
					c.Bad(rule, key, ix.Pos(), "index 2*k is not bounded by an enclosing `2*k < len(S)` loop")
				}
				return true
			}
			if be.Op != token.ADD {
				c.Bad(rule, key, ix.Pos(), "unrecognised index arithmetic on YAML content")
				return true
			}
			// S[i+1]: need evenness of len(S). S is X.Content (node X) or a []*yaml.Node parameter.
			if sel, ok := ast.Unparen(ix.X).(*ast.SelectorExpr); ok && sel.Sel.Name == "Content" {
				node := identObj(info, sel.X)
				if node != nil && kindIsMappingAt(info, d.Body, node, ix) {
					c.OK(rule, key, ix.Pos(), "node.Kind == yaml.MappingNode is established before the loop: Content has even length")
				} else {
					c.Bad(rule, key, ix.Pos(), "pair access without a Kind == yaml.MappingNode check on the node (a Tag test is not enough: `!!map [a]` or `!record [a]` is a sequence with that tag) — odd-length content panics with index out of range")
				}
				return true
			}
			// slice parameter: every caller must pass X.Content of a node checked for MappingNode
			if po := identObj(info, ix.X); po != nil {
				if okCallers, why := callersPassMapping(c, d, po); okCallers {
					c.OK(rule, key, ix.Pos(), why)
				} else {
					c.Bad(rule, key, ix.Pos(), "pair access on a node slice parameter: "+why)
				}
				return true
			}
			c.Bad(rule, key, ix.Pos(), "pair access on an unrecognised YAML node slice")
			return true
		})
	}
}

// loopBounds: ix.Index is an identifier i and an enclosing for statement has condition i < len(S) with the same S text.
func loopBounds(info *types.Info, body *ast.BlockStmt, ix *ast.IndexExpr) bool {
	id, ok := ast.Unparen(ix.Index).(*ast.Ident)
	if !ok {
		return false
	}
	iobj := info.Uses[id]
	found := false
	ast.Inspect(body, func(n ast.Node) bool {
		switch f := n.(type) {
		case *ast.ForStmt:
			if !(f.Body.Pos() <= ix.Pos() && ix.End() <= f.Body.End()) {
				return true
			}
			if be, ok := f.Cond.(*ast.BinaryExpr); ok && be.Op == token.LSS && identObj(info, be.X) == iobj {
				if a, ok := lenArg(info, be.Y); ok && types.ExprString(a) == types.ExprString(ix.X) {
					found = true
				}
			}
		case *ast.RangeStmt:
			if f.Body.Pos() <= ix.Pos() && ix.End() <= f.Body.End() && f.Key != nil && identObj(info, f.Key) == iobj && types.ExprString(f.X) == types.ExprString(ix.X) {
				found = true
			}
		}
		return true
	})
	return found
}

// pairLoopBounds: ix.Index is `2*k` / `k*2` and an enclosing for statement has the condition `2*k < len(S)` or
// `k < len(S)/2` with the same S text.
func pairLoopBounds(info *types.Info, body *ast.BlockStmt, ix *ast.IndexExpr, mul *ast.BinaryExpr) bool {
	twoTimes := func(e ast.Expr) types.Object {
		b, ok := ast.Unparen(e).(*ast.BinaryExpr)
		if !ok || b.Op != token.MUL {
			return nil
		}
		for _, pr := range [][2]ast.Expr{{b.X, b.Y}, {b.Y, b.X}} {
			if v, isC := constInt(info, pr[0]); isC && v == 2 {
				return identObj(info, pr[1])
			}
		}
		return nil
	}
	k := twoTimes(mul)
	if k == nil {
		return false
	}
	found := false
	ast.Inspect(body, func(n ast.Node) bool {
		f, ok := n.(*ast.ForStmt)
		if !ok || !(f.Body.Pos() <= ix.Pos() && ix.End() <= f.Body.End()) {
			return true
		}
		be, ok := f.Cond.(*ast.BinaryExpr)
		if !ok || be.Op != token.LSS {
			return true
		}
		if twoTimes(be.X) == k {
			if a, ok := lenArg(info, be.Y); ok && types.ExprString(a) == types.ExprString(ix.X) {
				found = true
			}
		}
		if identObj(info, be.X) == k {
			if q, ok := ast.Unparen(be.Y).(*ast.BinaryExpr); ok && q.Op == token.QUO {
				if v, isC := constInt(info, q.Y); isC && v == 2 {
					if a, ok := lenArg(info, q.X); ok && types.ExprString(a) == types.ExprString(ix.X) {
						found = true
					}
				}
			}
		}
		return true
	})
	return found
}

// kindIsMappingAt: before `at`, on the straight-line prefix of the function (or of the
// enclosing case clause), there is `if node.Kind != yaml.MappingNode { return ... }`, or
// `at` lies in the body of `if node.Kind == yaml.MappingNode` / `case yaml.MappingNode` of a switch on node.Kind.
func kindIsMappingAt(info *types.Info, body *ast.BlockStmt, node types.Object, at ast.Node) bool {
	isKindSel := func(e ast.Expr) bool {
		sel, ok := ast.Unparen(e).(*ast.SelectorExpr)
		return ok && sel.Sel.Name == "Kind" && identObj(info, sel.X) == node
	}
	isMapping := func(e ast.Expr) bool {
		sel, ok := ast.Unparen(e).(*ast.SelectorExpr)
		if !ok || sel.Sel.Name != "MappingNode" {
			return false
		}
		o := info.Uses[sel.Sel]
		return o != nil && o.Pkg() != nil && o.Pkg().Path() == "gopkg.in/yaml.v3"
	}
	ok := false
	var walk func(list []ast.Stmt)
	walk = func(list []ast.Stmt) {
		for _, st := range list {
			if st.Pos() > at.Pos() {
				return
			}
			contains := st.Pos() <= at.Pos() && at.End() <= st.End()
			switch s := st.(type) {
			case *ast.IfStmt:
				if be, isB := s.Cond.(*ast.BinaryExpr); isB && isKindSel(be.X) && isMapping(be.Y) {
					if be.Op == token.NEQ && !contains && bodyLeaves(s.Body) {
						ok = true
					}
					if be.Op == token.EQL && contains && s.Body.Pos() <= at.Pos() && at.End() <= s.Body.End() {
						ok = true
					}
				}
				// `Kind == Mapping && <anything>` with `at` in the body
				if contains && s.Body.Pos() <= at.Pos() && at.End() <= s.Body.End() {
					for _, cj := range conjuncts(s.Cond) {
						if b, isB := ast.Unparen(cj).(*ast.BinaryExpr); isB && b.Op == token.EQL && isKindSel(b.X) && isMapping(b.Y) {
							ok = true
						}
					}
				}
				// `Kind != Mapping || <anything>` leaving: afterwards Kind == Mapping
				// `Kind != Mapping && len(node.Content) > 0` leaving: afterwards Kind == Mapping or Content empty,
				// and a pair access sits in a loop bounded by len(Content), so Content is non-empty there.
				if be, isB := s.Cond.(*ast.BinaryExpr); isB && !contains && bodyLeaves(s.Body) {
					isNeq := func(e ast.Expr) bool {
						b, ok := ast.Unparen(e).(*ast.BinaryExpr)
						return ok && b.Op == token.NEQ && isKindSel(b.X) && isMapping(b.Y)
					}
					if be.Op == token.LOR && (isNeq(be.X) || isNeq(be.Y)) {
						ok = true
					}
					if be.Op == token.LAND && isNeq(be.X) {
						if c2, isC := ast.Unparen(be.Y).(*ast.BinaryExpr); isC && (c2.Op == token.GTR || c2.Op == token.NEQ) {
							if a, isLen := lenArg(info, c2.X); isLen {
								if sel, isSel := ast.Unparen(a).(*ast.SelectorExpr); isSel && sel.Sel.Name == "Content" && identObj(info, sel.X) == node {
									if v, isConst := constInt(info, c2.Y); isConst && v == 0 {
										ok = true
									}
								}
							}
						}
					}
				}
				if contains {
					walk(s.Body.List)
					if b, isBlk := s.Else.(*ast.BlockStmt); isBlk {
						walk(b.List)
					}
				}
			case *ast.SwitchStmt:
				if !contains && s.Tag != nil && isKindSel(s.Tag) {
					// switch node.Kind { case yaml.MappingNode: <falls out> ; default: return ... }:
					// control continues after the switch only with Kind == MappingNode
					hasDefault, allOthersLeave, mappingFallsOut := false, true, false
					for _, cc := range s.Body.List {
						cl := cc.(*ast.CaseClause)
						onlyMapping := len(cl.List) == 1 && isMapping(cl.List[0])
						if cl.List == nil {
							hasDefault = true
						}
						if onlyMapping {
							mappingFallsOut = true
							continue
						}
						// inside a switch clause `break` only leaves the switch: demand a return
						if n := len(cl.Body); n == 0 {
							allOthersLeave = false
						} else if _, isRet := cl.Body[n-1].(*ast.ReturnStmt); !isRet {
							allOthersLeave = false
						}
					}
					if hasDefault && allOthersLeave && mappingFallsOut {
						ok = true
					}
				}
				if contains {
					for _, cc := range s.Body.List {
						cl := cc.(*ast.CaseClause)
						if cl.Pos() <= at.Pos() && at.End() <= cl.End() {
							if s.Tag != nil && isKindSel(s.Tag) {
								for _, e := range cl.List {
									if isMapping(e) && len(cl.List) == 1 {
										ok = true
									}
								}
							}
							walk(cl.Body)
						}
					}
				}
			case *ast.ForStmt:
				if contains {
					walk(s.Body.List)
				}
			case *ast.RangeStmt:
				if contains {
					walk(s.Body.List)
				}
			case *ast.BlockStmt:
				if contains {
					walk(s.List)
				}
			case *ast.LabeledStmt:
				if contains {
					walk([]ast.Stmt{s.Stmt})
				}
			}
		}
	}
	walk(body.List)
	return ok
}

func bodyLeaves(b *ast.BlockStmt) bool {
	if len(b.List) == 0 {
		return false
	}
	switch s := b.List[len(b.List)-1].(type) {
	case *ast.ReturnStmt:
		return true
	case *ast.BranchStmt:
		return s.Tok == token.GOTO || s.Tok == token.CONTINUE || s.Tok == token.BREAK
	}
	return false
}

// callersPassMapping: every static call of d passes, for parameter po, `X.Content` with X checked for MappingNode.
func callersPassMapping(c *core.Ctx, d *ast.FuncDecl, po types.Object) (bool, string) {
	p := c.DeclPkg(d)
	fobj, _ := p.TypesInfo.Defs[d.Name].(*types.Func)
	idx := -1
	i := 0
	for _, f := range d.Type.Params.List {
		for _, n := range f.Names {
			if p.TypesInfo.Defs[n] == po {
				idx = i
			}
			i++
		}
	}
	if idx < 0 || fobj == nil {
		return false, "not a parameter of the function"
	}
	ncalls := 0
	for _, cd := range c.AllDecls() {
		cp := c.DeclPkg(cd)
		for _, cs := range c.Calls(cd) {
			if cs.Callee == nil || cs.Callee.Origin() != fobj || idx >= len(cs.Call.Args) {
				continue
			}
			ncalls++
			arg := cs.Call.Args[idx]
			sel, ok := ast.Unparen(arg).(*ast.SelectorExpr)
			if !ok || sel.Sel.Name != "Content" {
				return false, "a caller passes something other than node.Content at " + c.PosStr(arg.Pos())
			}
			node := identObj(cp.TypesInfo, sel.X)
			if node == nil || !kindIsMappingAt(cp.TypesInfo, cd.Body, node, cs.Call) {
				return false, "the caller at " + c.PosStr(arg.Pos()) + " passes node.Content without establishing node.Kind == yaml.MappingNode"
			}
		}
	}
	if ncalls == 0 {
		return false, "no static caller found"
	}
	return true, fmt.Sprintf("all %d callers pass node.Content of a node checked for yaml.MappingNode", ncalls)
}

// ---------------------------------------------------------------------------
// P3: allocation sized by a decoded integer. `make(T, n)` where n is not derived from
// len()/cap()/constants needs (a) a dominating `n < 0 → exit` test (negative → runtime
// panic) and (b) a dominating upper bound (a huge n exhausts memory).
// ---------------------------------------------------------------------------

// structuralBody: the function body in which explaining locals of a size expression are looked up.
var structuralBody ast.Node

func sizeIsStructural(info *types.Info, e ast.Expr) bool {
	return sizeIsStructuralDepth(info, e, 0)
}

func sizeIsStructuralDepth(info *types.Info, e ast.Expr, depth int) bool {
	ok := true
	ast.Inspect(e, func(n ast.Node) bool {
		switch x := n.(type) {
		case *ast.CallExpr:
			if id, isId := ast.Unparen(x.Fun).(*ast.Ident); isId && (id.Name == "len" || id.Name == "cap") {
				return false
			}
			ok = false
		case *ast.Ident:
			if tv, f := info.Types[x]; f && tv.Value != nil {
				return true
			}
			if _, isConst := info.Uses[x].(*types.Const); isConst {
				return true
			}
			// an explaining local: defined exactly once in the function, from a structural expression (`n := len(xs)`)
			if v, isVar := info.Uses[x].(*types.Var); isVar && structuralBody != nil && depth < 3 {
				var rhs []ast.Expr
				ast.Inspect(structuralBody, func(m ast.Node) bool {
					switch s := m.(type) {
					case *ast.AssignStmt:
						for i, l := range s.Lhs {
							if id, isId := ast.Unparen(l).(*ast.Ident); isId && info.ObjectOf(id) == v {
								if len(s.Rhs) == len(s.Lhs) {
									rhs = append(rhs, s.Rhs[i])
								} else {
									rhs = append(rhs, nil)
								}
							}
						}
					case *ast.IncDecStmt:
						if id, isId := ast.Unparen(s.X).(*ast.Ident); isId && info.ObjectOf(id) == v {
							rhs = append(rhs, nil)
						}
					case *ast.RangeStmt:
						for _, l := range []ast.Expr{s.Key, s.Value} {
							if id, isId := l.(*ast.Ident); isId && info.ObjectOf(id) == v {
								rhs = append(rhs, nil)
							}
						}
					}
					return true
				})
				// one definition, or an accumulation (`total := 0; total += len(xs)`): every value ever stored is structural
				allStructural := len(rhs) >= 1
				for _, r := range rhs {
					if r == nil || !sizeIsStructuralDepth(info, r, depth+1) {
						allStructural = false
					}
				}
				if allStructural {
					return true
				}
			}
			ok = false
		}
		return true
	})
	return ok
}

func ruleMakeBounds(c *core.Ctx) {
	const rule = "P3"
	c.Rule(rule, "every make() in the front end whose size is a decoded/user value is dominated by a negative-size test with exit and by an upper bound", 2)
	for _, d := range c.AllDecls() {
		if !frontEndFile(c.Fset.Position(d.Pos()).Filename) {
			continue
		}
		p := c.DeclPkg(d)
		info := p.TypesInfo
		var fc *core.FuncCFG
		structuralBody = d.Body
		ast.Inspect(d.Body, func(n ast.Node) bool {
			ce, ok := n.(*ast.CallExpr)
			if !ok || len(ce.Args) < 2 {
				return true
			}
			id, ok := ast.Unparen(ce.Fun).(*ast.Ident)
			if !ok || id.Name != "make" {
				return true
			}
			if _, isB := info.Uses[id].(*types.Builtin); !isB {
				return true
			}
			if _, isMap := info.TypeOf(ce.Args[0]).Underlying().(*types.Map); isMap {
				return true // map size hints never panic
			}
			for _, sz := range ce.Args[1:] {
				if sizeIsStructural(info, sz) {
					continue
				}
				so := identObj(info, sz)
				key := fmt.Sprintf("%s/make(%s, %s)", c.FuncName(d), types.ExprString(ce.Args[0]), types.ExprString(sz))
				if so == nil {
					c.Bad(rule, key+"/lower", ce.Pos(), "size is a computed non-structural expression without bounds")
					continue
				}
				if fc == nil {
					fc = core.NewCFG(d.Body, info)
				}
				lower, upper := false, false
				ast.Inspect(d.Body, func(x ast.Node) bool {
					is, ok := x.(*ast.IfStmt)
					if !ok || !bodyLeaves(is.Body) {
						return true
					}
					be, ok := is.Cond.(*ast.BinaryExpr)
					if !ok || identObj(info, be.X) != so {
						return true
					}
					v, isConst := constIntSigned(info, be.Y)
					cb := fc.BlockOf(is.Cond)
					if !isConst || cb == nil || len(cb.Succs) != 2 || !fc.OnlyVia(core.Edge{From: cb, To: cb.Succs[1]}, ce) {
						return true
					}
					if (be.Op == token.LSS && v == 0) || (be.Op == token.LEQ && v == -1) {
						lower = true
					}
					if (be.Op == token.GTR || be.Op == token.GEQ) && v > 0 {
						upper = true
					}
					return true
				})
				c.Check(lower, rule, key+"/lower", ce.Pos(), "a negative size leaves before the allocation", "a negative decoded size reaches make(): runtime panic `makeslice: len out of range`")
				c.Check(upper, rule, key+"/upper", ce.Pos(), "an upper bound test precedes the allocation", "no upper bound on a user-supplied size: a huge value exhausts memory instead of producing a diagnostic")
			}
			return true
		})
	}
}

func constIntSigned(info *types.Info, e ast.Expr) (int64, bool) {
	tv, ok := info.Types[e]
	if !ok || tv.Value == nil {
		return 0, false
	}
	s := tv.Value.ExactString()
	var v int64
	_, err := fmt.Sscan(s, &v)
	return v, err == nil
}

// ---------------------------------------------------------------------------
// E4: error provenance at two boundaries.
//  (a) ParseExpression panics on any error that is not a participle error, so every
//      function reachable from parseExpr may only return participle/lexer errors (or
//      errors received from each other).
//  (b) errors leaving the YAML unmarshalling functions must carry a position:
//      parseError(node, ...), a ValidationError, an error from the yaml decoder
//      ("line N:"), ParseExpression, or from one another.
// ---------------------------------------------------------------------------

func errorReturns(info *types.Info, body *ast.BlockStmt, f func(ret *ast.ReturnStmt, e ast.Expr)) {
	ast.Inspect(body, func(n ast.Node) bool {
		if _, ok := n.(*ast.FuncLit); ok {
			return false
		}
		if r, ok := n.(*ast.ReturnStmt); ok && len(r.Results) > 0 {
			last := r.Results[len(r.Results)-1]
			if t := info.TypeOf(last); t != nil {
				if tv := info.Types[last]; tv.IsNil() {
					return true
				}
				f(r, last)
			}
		}
		return true
	})
}

// originOfErr: for an identifier error value, the calls it was last assigned from (all
// assignments in the function: flow-insensitive, conservative).
func errAssignSources(info *types.Info, body *ast.BlockStmt, obj types.Object) []ast.Expr {
	var out []ast.Expr
	ast.Inspect(body, func(n ast.Node) bool {
		switch s := n.(type) {
		case *ast.AssignStmt:
			for i, l := range s.Lhs {
				if identObj(info, l) != obj {
					continue
				}
				if len(s.Rhs) == len(s.Lhs) {
					out = append(out, s.Rhs[i])
				} else if len(s.Rhs) == 1 {
					out = append(out, s.Rhs[0])
				}
			}
		case *ast.ValueSpec:
			for i, nm := range s.Names {
				if info.Defs[nm] == obj && i < len(s.Values) {
					out = append(out, s.Values[i])
				}
			}
		}
		return true
	})
	return out
}

func ruleErrorProvenance(c *core.Ctx) {
	const rule = "E4"
	c.Rule(rule, "errors crossing the expression-parser boundary are participle errors (anything else makes ParseExpression panic); errors leaving the YAML unmarshallers carry a position", 40)
	dsl := c.Pkg("pkg/dsl")
	info := dsl.TypesInfo
	pe, _, _ := c.Func("pkg/dsl", "parseExpr")
	if pe == nil {
		c.Undecided(rule, "anchor/pkg/dsl.parseExpr", 0, "anchor function not found")
		return
	}
	// (a)
	setA := map[*types.Func]bool{}
	for f := range c.Reachable([]*types.Func{pe}, nil) {
		if d := c.Decl(f); d != nil && strings.HasSuffix(c.Fset.Position(d.Pos()).Filename, "expressionparser.go") {
			setA[f] = true
		}
	}
	participleErr := func(e ast.Expr) bool {
		t := info.TypeOf(e)
		n := core.NamedOf(t)
		if n == nil || n.Obj().Pkg() == nil {
			return false
		}
		pth := n.Obj().Pkg().Path()
		return strings.HasPrefix(pth, "github.com/alecthomas/participle/v2")
	}
	var classify func(body *ast.BlockStmt, e ast.Expr, okCallee func(*types.Func) bool, okLit func(ast.Expr) bool, depth int) (bool, string)
	classify = func(body *ast.BlockStmt, e ast.Expr, okCallee func(*types.Func) bool, okLit func(ast.Expr) bool, depth int) (bool, string) {
		e = ast.Unparen(e)
		if tv := info.Types[e]; tv.IsNil() {
			return true, "nil"
		}
		if okLit(e) {
			return true, "positioned error value"
		}
		if ce, ok := e.(*ast.CallExpr); ok {
			f := core.Callee(info, ce)
			if f != nil && okCallee(f.Origin()) {
				return true, "from " + f.Name()
			}
			if f == nil && depth < 3 {
				// a closure of the function: judged by what it returns
				if id, ok := ast.Unparen(ce.Fun).(*ast.Ident); ok {
					var lit *ast.FuncLit
					ast.Inspect(body, func(m ast.Node) bool {
						if as, ok := m.(*ast.AssignStmt); ok && len(as.Lhs) == 1 && len(as.Rhs) == 1 && identObj(info, as.Lhs[0]) == identObj(info, id) {
							if fl, ok := as.Rhs[0].(*ast.FuncLit); ok {
								lit = fl
							}
						}
						return true
					})
					if lit != nil {
						allOk, why := true, "every error the closure returns is accepted"
						n := 0
						ast.Inspect(lit.Body, func(m ast.Node) bool {
							if inner, ok := m.(*ast.FuncLit); ok && inner != lit {
								return false
							}
							if ret, ok := m.(*ast.ReturnStmt); ok && len(ret.Results) > 0 {
								n++
								if ok2, w := classify(lit.Body, ret.Results[len(ret.Results)-1], okCallee, okLit, depth+1); !ok2 {
									allOk, why = false, w
								}
							}
							return true
						})
						if n > 0 {
							return allOk, why
						}
					}
					// a function value looked up in the package: `g := lookup(tag)` where lookup returns nil or named
					// functions — the call is a call of one of those
					if lit == nil {
						if lk, ok := ast.Unparen(singleDefRHS(info, body, id)).(*ast.CallExpr); ok {
							if lf := core.Callee(info, lk); lf != nil && core.InModule(lf) {
								if ld := c.Decl(lf.Origin()); ld != nil && ld.Body != nil {
									li := c.DeclPkg(ld).TypesInfo
									allNamed, cands := true, []*types.Func{}
									ast.Inspect(ld.Body, func(m ast.Node) bool {
										if _, isLit := m.(*ast.FuncLit); isLit {
											return false
										}
										if ret, ok := m.(*ast.ReturnStmt); ok && len(ret.Results) == 1 {
											r := ast.Unparen(ret.Results[0])
											if tv := li.Types[r]; tv.IsNil() {
												return true
											}
											if fn, ok := identObj(li, r).(*types.Func); ok {
												cands = append(cands, fn)
											} else {
												allNamed = false
											}
										}
										return true
									})
									if allNamed && len(cands) > 0 {
										for _, fn := range cands {
											if !okCallee(fn.Origin()) {
												return false, "error produced by " + fn.Name() + " (one of the functions " + lf.Name() + " returns)"
											}
										}
										return true, "from one of the functions " + lf.Name() + " returns"
									}
								}
							}
						}
					}
				}
			}
			return false, "error produced by " + orDyn(core.FullName(f), ce)
		}
		if id, ok := e.(*ast.Ident); ok && depth < 3 {
			obj := info.Uses[id]
			srcs := errAssignSources(info, body, obj)
			if len(srcs) == 0 {
				return false, "error variable " + id.Name + " has no visible source"
			}
			for _, s := range srcs {
				if ok, why := classify(body, s, okCallee, okLit, depth+1); !ok {
					return false, why
				}
			}
			return true, "every source of " + id.Name + " is accepted"
		}
		return false, "unrecognised error expression " + types.ExprString(e)
	}
	for f := range setA {
		d := c.Decl(f)
		if !lastResultIsError(f.Type().(*types.Signature)) {
			continue
		}
		errorReturns(info, d.Body, func(ret *ast.ReturnStmt, e ast.Expr) {
			ok, why := classify(d.Body, e, func(g *types.Func) bool { return setA[g] }, participleErr, 0)
			key := fmt.Sprintf("expr/%s/return %s", c.FuncName(d), exprShape(e))
			c.Check(ok, rule, key, ret.Pos(), why, "non-participle error can reach ParseExpression, which panics on it: "+why)
		})
	}
	// (b) YAML unmarshallers of pkg/dsl/yaml.go
	inYaml := func(f *types.Func) bool {
		d := c.Decl(f)
		return d != nil && strings.HasSuffix(c.Fset.Position(d.Pos()).Filename, "/pkg/dsl/yaml.go")
	}
	positioned := func(e ast.Expr) bool {
		t := info.TypeOf(e)
		return t != nil && core.TypeIs(t, core.Mod+"/internal/validation", "ValidationError")
	}
	okCalleeB := func(g *types.Func) bool {
		name := core.FullName(g)
		switch name {
		case core.Mod + "/pkg/dsl.parseError", core.Mod + "/pkg/dsl.ParseExpression",
			"(gopkg.in/yaml.v3.Node).DecodeWithOptions", "(gopkg.in/yaml.v3.Node).Decode", "(gopkg.in/yaml.v3.Decoder).Decode":
			return true
		}
		// an error of the file system (*fs.PathError) names the file it is about and has no line to name
		if g.Pkg() != nil && (g.Pkg().Path() == "os" || g.Pkg().Path() == "path/filepath" || g.Pkg().Path() == "io/fs") {
			return true
		}
		// every error-returning function of yaml.go is itself an obligation of this rule (below), so an
		// error received from one of them is positioned if the rule holds there
		return inYaml(g) && lastResultIsError(g.Type().(*types.Signature)) && g.Name() != "ParseYamlInDir" && g.Name() != "ParsePackageContents"
	}
	for _, d := range c.AllDecls() {
		if !strings.HasSuffix(c.Fset.Position(d.Pos()).Filename, "/pkg/dsl/yaml.go") {
			continue
		}
		fobj, _ := info.Defs[d.Name].(*types.Func)
		if fobj == nil || !lastResultIsError(fobj.Type().(*types.Signature)) || d.Name.Name == "ParseYamlInDir" || d.Name.Name == "ParsePackageContents" {
			continue // the two entry points wrap what they receive with the file path themselves
		}
		errorReturns(info, d.Body, func(ret *ast.ReturnStmt, e ast.Expr) {
			if !core.IsErrorType(info.TypeOf(e)) && !positioned(e) {
				return
			}
			ok, why := classify(d.Body, e, okCalleeB, positioned, 0)
			key := fmt.Sprintf("yaml/%s/return %s", c.FuncName(d), exprShape(e))
			c.Check(ok, rule, key, ret.Pos(), why, "an error without file position leaves the YAML front end (the diagnostic names the file but no line): "+why)
		})
	}
}

// exprShape: a short, edit-stable description of an error expression (callee or variable), not its message text.
func exprShape(e ast.Expr) string {
	switch x := ast.Unparen(e).(type) {
	case *ast.CallExpr:
		return types.ExprString(x.Fun) + "(..)"
	case *ast.UnaryExpr:
		if cl, ok := x.X.(*ast.CompositeLit); ok {
			return "&" + types.ExprString(cl.Type) + "{..}"
		}
	case *ast.CompositeLit:
		return types.ExprString(x.Type) + "{..}"
	}
	return types.ExprString(e)
}

// ---------------------------------------------------------------------------
// P6: `break` that only leaves a switch/select inside a condition-less `for` and is
// thereby equivalent to `continue` with no progress: classic Go hang.
// ---------------------------------------------------------------------------

func ruleBreakInSwitchInLoop(c *core.Ctx) {
	const rule = "P6"
	c.Rule(rule, "in a `for { ... switch ... }` loop of the parsers, an unlabeled `break` inside the switch does not silently become a no-progress `continue` (nothing follows the switch and nothing was consumed on that path)", 1)
	n := 0
	for _, d := range c.AllDecls() {
		if !frontEndFile(c.Fset.Position(d.Pos()).Filename) {
			continue
		}
		p := c.DeclPkg(d)
		info := p.TypesInfo
		ast.Inspect(d.Body, func(x ast.Node) bool {
			fs, ok := x.(*ast.ForStmt)
			if !ok || fs.Cond != nil || fs.Post != nil || len(fs.Body.List) == 0 {
				return true
			}
			last := fs.Body.List[len(fs.Body.List)-1]
			var clauses []ast.Stmt
			switch sw := last.(type) {
			case *ast.SwitchStmt:
				clauses = sw.Body.List
			case *ast.TypeSwitchStmt:
				clauses = sw.Body.List
			case *ast.SelectStmt:
				clauses = sw.Body.List
			default:
				return true
			}
			n++
			key := fmt.Sprintf("%s/for-switch", c.FuncName(d))
			bad := false
			for _, cl := range clauses {
				var body []ast.Stmt
				switch cc := cl.(type) {
				case *ast.CaseClause:
					body = cc.Body
				case *ast.CommClause:
					body = cc.Body
				}
				// a break reachable without any call before it in this clause
				var scan func(list []ast.Stmt, progressed bool)
				scan = func(list []ast.Stmt, progressed bool) {
					for _, st := range list {
						switch s := st.(type) {
						case *ast.BranchStmt:
							if s.Tok == token.BREAK && s.Label == nil && !progressed {
								bad = true
								c.Bad(rule, key+"/break", s.Pos(), "unlabeled break leaves only the switch; the enclosing `for {}` re-peeks the same input with no progress: the parser hangs")
							}
						case *ast.IfStmt:
							scan(s.Body.List, progressed)
							if b, ok := s.Else.(*ast.BlockStmt); ok {
								scan(b.List, progressed)
							}
						case *ast.ForStmt, *ast.RangeStmt, *ast.SwitchStmt, *ast.TypeSwitchStmt, *ast.SelectStmt:
							// break inside binds to the inner statement
						default:
							hasCall := false
							ast.Inspect(st, func(y ast.Node) bool {
								if ce, ok := y.(*ast.CallExpr); ok {
									if tv, isT := info.Types[ce.Fun]; !isT || !tv.IsType() {
										hasCall = true
									}
								}
								return true
							})
							if hasCall {
								progressed = true
							}
						}
					}
				}
				scan(body, false)
			}
			if !bad {
				c.OK(rule, key, fs.Pos(), "no no-progress break inside the trailing switch of this loop")
			}
			return true
		})
	}
	c.Stats["P6_for_switch_loops"] = n
}

// ---------------------------------------------------------------------------
// P7: positions. Every constructor of NodeMeta in the parsers takes Line and Column from
// its position argument; no node of a parsed model is built with an empty NodeMeta.
// ---------------------------------------------------------------------------

func rulePositions(c *core.Ctx) {
	const rule = "P7"
	c.Rule(rule, "NodeMeta constructors in the parsers derive Line and Column from their position parameter, and validationError/parseError take the position of the node they are given", 4)
	dslp := c.Pkg("pkg/dsl")
	info := dslp.TypesInfo
	for _, name := range []string{"createNodeMeta", "nodeMetaFromPosition"} {
		_, d, _ := c.Func("pkg/dsl", name)
		if d == nil {
			c.Undecided(rule, "anchor/pkg/dsl."+name, 0, "anchor function not found")
			continue
		}
		var param types.Object
		if len(d.Type.Params.List) == 1 && len(d.Type.Params.List[0].Names) == 1 {
			param = info.Defs[d.Type.Params.List[0].Names[0]]
		}
		got := map[string]bool{}
		ast.Inspect(d.Body, func(n ast.Node) bool {
			cl, ok := n.(*ast.CompositeLit)
			if !ok || !core.TypeIs(info.TypeOf(cl), core.Mod+"/pkg/dsl", "NodeMeta") {
				return true
			}
			for _, el := range cl.Elts {
				kv, ok := el.(*ast.KeyValueExpr)
				if !ok {
					continue
				}
				k := kv.Key.(*ast.Ident).Name
				if sel, ok := ast.Unparen(kv.Value).(*ast.SelectorExpr); ok && identObj(info, sel.X) == param && sel.Sel.Name == k {
					got[k] = true
				}
			}
			return true
		})
		c.Check(got["Line"] && got["Column"] && param != nil, rule, name+"/Line,Column from parameter", d.Pos(),
			"NodeMeta{Line: p.Line, Column: p.Column}", "the constructor does not take Line and Column from its position parameter: diagnostics point to the wrong place")
	}
	for _, name := range []string{"validationError", "validationWarning", "parseError"} {
		_, d, _ := c.Func("pkg/dsl", name)
		if d == nil {
			c.Undecided(rule, "anchor/pkg/dsl."+name, 0, "anchor function not found")
			continue
		}
		node := info.Defs[d.Type.Params.List[0].Names[0]]
		line, col := false, false
		ast.Inspect(d.Body, func(n ast.Node) bool {
			kv, ok := n.(*ast.KeyValueExpr)
			if !ok {
				return true
			}
			k, _ := kv.Key.(*ast.Ident)
			if k == nil {
				return true
			}
			uses := usesObj(info, kv.Value, node)
			if k.Name == "Line" && uses && strings.Contains(types.ExprString(kv.Value), "Line") {
				line = true
			}
			if k.Name == "Column" && uses && strings.Contains(types.ExprString(kv.Value), "Column") {
				col = true
			}
			return true
		})
		c.Check(line && col, rule, name+"/position of the node", d.Pos(), "Line and Column come from the node argument", "the diagnostic does not carry the node's line and column")
	}
}

// P7b: every node the parsers build carries a position.
var nodeLitExceptions = map[string]string{
	"pkg/dsl.(*Namespace).UnmarshalYAML/DefinitionMeta": "filled by DefinitionMeta.UnmarshalYAML (sets meta.NodeMeta) on the next line",
	"pkg/dsl.ParseYamlInDir/Namespace":                  "Namespace has no position; ParseYamlInDir skips it in the position check",
}

func ruleNodeLiteralsPositioned(c *core.Ctx) {
	const rule = "P7b"
	c.Rule(rule, "every composite literal of a dsl node type in yaml.go / expressionparser.go sets its NodeMeta (ParseYamlInDir panics on a node without line/column)", 30)
	dslp := c.Pkg("pkg/dsl")
	info := dslp.TypesInfo
	for _, d := range c.AllDecls() {
		fn := c.Fset.Position(d.Pos()).Filename
		if !(strings.HasSuffix(fn, "/pkg/dsl/yaml.go") || strings.HasSuffix(fn, "/pkg/dsl/expressionparser.go")) {
			continue
		}
		ast.Inspect(d.Body, func(n ast.Node) bool {
			cl, ok := n.(*ast.CompositeLit)
			if !ok {
				return true
			}
			t := info.TypeOf(cl)
			nt := core.NamedOf(t)
			st := structOf(t)
			if nt == nil || st == nil || nt.Obj().Pkg() == nil || nt.Obj().Pkg().Path() != core.Mod+"/pkg/dsl" || nt.Obj().Name() == "NodeMeta" {
				return true
			}
			hasMeta := false
			for i := 0; i < st.NumFields(); i++ {
				if f := st.Field(i); f.Embedded() && f.Name() == "NodeMeta" {
					hasMeta = true
				}
			}
			if !hasMeta {
				return true
			}
			key := fmt.Sprintf("%s/%s", c.FuncName(d), nt.Obj().Name())
			if r, ok := nodeLitExceptions[key]; ok {
				c.OK(rule, key, cl.Pos(), "exception: "+r)
				return true
			}
			set := false
			for _, el := range cl.Elts {
				if kv, ok := el.(*ast.KeyValueExpr); ok {
					if id, ok := kv.Key.(*ast.Ident); ok && (id.Name == "NodeMeta" || id.Name == "TypePattern") {
						set = true
					}
				}
			}
			c.Check(set, rule, key, cl.Pos(), "NodeMeta is set in the literal", "node literal without NodeMeta: the node has line 0 and ParseYamlInDir panics (`missing line/column information`)")
			return true
		})
	}
}

// ---------------------------------------------------------------------------
// P8: a slice index obtained by narrowing a big.Int (Int64/Uint64 wrap silently) needs
// an upper bound established in big arithmetic (B.Cmp(..) >= 0 → exit, or B.IsInt64())
// before the conversion, or both bounds tested on the converted value.
// ---------------------------------------------------------------------------

func bigNarrowing(info *types.Info, e ast.Expr) (recv ast.Expr, ok bool) {
	ce, isCall := ast.Unparen(e).(*ast.CallExpr)
	if !isCall {
		return nil, false
	}
	f := core.Callee(info, ce)
	if f == nil {
		return nil, false
	}
	switch core.FullName(f) {
	case "(math/big.Int).Int64", "(math/big.Int).Uint64":
		return ce.Fun.(*ast.SelectorExpr).X, true
	}
	return nil, false
}

func ruleBigIndex(c *core.Ctx) {
	const rule = "P8"
	c.Rule(rule, "a slice index narrowed from a big.Int is bounded in big arithmetic before the conversion (or on both sides after it)", 1)
	for _, d := range c.AllDecls() {
		if !frontEndFile(c.Fset.Position(d.Pos()).Filename) {
			continue
		}
		p := c.DeclPkg(d)
		info := p.TypesInfo
		var fc *core.FuncCFG
		ast.Inspect(d.Body, func(n ast.Node) bool {
			ix, ok := n.(*ast.IndexExpr)
			if !ok {
				return true
			}
			if t := info.TypeOf(ix.X); t == nil {
				return true
			} else if _, isSl := t.Underlying().(*types.Slice); !isSl {
				return true
			}
			var big ast.Expr
			var conv types.Object
			if r, ok := bigNarrowing(info, ix.Index); ok {
				big = r
			} else if o := identObj(info, ix.Index); o != nil {
				for _, src := range errAssignSources(info, d.Body, o) {
					if r, ok := bigNarrowing(info, src); ok {
						big, conv = r, o
					}
				}
			}
			if big == nil {
				return true
			}
			body := innermostBody(d, ix)
			if fc == nil || fc.BlockOf(ix) == nil {
				fc = core.NewCFG(body, info)
			}
			bigTxt := types.ExprString(big)
			upperBig, lowerConv, upperConv := false, false, false
			ast.Inspect(body, func(x ast.Node) bool {
				is, ok := x.(*ast.IfStmt)
				if !ok || !bodyLeaves(is.Body) {
					return true
				}
				cb := fc.BlockOf(is.Cond)
				if cb == nil || len(cb.Succs) != 2 || !fc.OnlyVia(core.Edge{From: cb, To: cb.Succs[1]}, ix) {
					return true
				}
				be, ok := is.Cond.(*ast.BinaryExpr)
				if !ok {
					return true
				}
				// B.Cmp(x) >= 0  /  > 0
				if ce, ok := ast.Unparen(be.X).(*ast.CallExpr); ok {
					if f := core.Callee(info, ce); f != nil && core.FullName(f) == "(math/big.Int).Cmp" {
						if types.ExprString(ce.Fun.(*ast.SelectorExpr).X) == bigTxt && (be.Op == token.GEQ || be.Op == token.GTR) {
							upperBig = true
						}
					}
				}
				if conv != nil && identObj(info, be.X) == conv {
					if be.Op == token.LSS {
						lowerConv = true
					}
					if be.Op == token.GEQ || be.Op == token.GTR {
						upperConv = true
					}
				}
				return true
			})
			key := fmt.Sprintf("%s/%s[%s]", c.FuncName(d), types.ExprString(ix.X), types.ExprString(ix.Index))
			c.Check(upperBig || (lowerConv && upperConv), rule, key, ix.Pos(), "index bounded before/after narrowing",
				"index comes from "+bigTxt+".Int64()/Uint64() without an upper bound in big arithmetic and without a two-sided test of the converted value: a literal >= 2^63 wraps to a negative index and panics")
			return true
		})
	}
}

// P4b: table/switch agreement in the expression parser. combineOperands is called for every
// token whose operatorInfo entry has IsBinary: true; its switches end in `default: panic`, and
// the token types are variables (lexer symbols), so constant exhaustiveness cannot see them.
func ruleBinaryOperatorTokens(c *core.Ctx) {
	const rule = "P4b"
	c.Rule(rule, "every token type that operatorInfo marks IsBinary has a case in combineOperands (whose switches end in a panic)", 7)
	p := c.Pkg("pkg/dsl")
	_, d, _ := c.Func("pkg/dsl", "combineOperands")
	if p == nil || d == nil {
		c.Undecided(rule, "anchor/combineOperands", 0, "not found")
		return
	}
	info := p.TypesInfo
	var table *ast.CompositeLit
	for _, f := range p.Syntax {
		ast.Inspect(f, func(n ast.Node) bool {
			if vs, ok := n.(*ast.ValueSpec); ok {
				for i, nm := range vs.Names {
					if nm.Name == "operatorInfo" && i < len(vs.Values) {
						table, _ = vs.Values[i].(*ast.CompositeLit)
					}
				}
			}
			return true
		})
	}
	if table == nil {
		c.Undecided(rule, "anchor/operatorInfo", 0, "operatorInfo literal not found")
		return
	}
	handled := map[types.Object]bool{}
	ast.Inspect(d.Body, func(n ast.Node) bool {
		if cc, ok := n.(*ast.CaseClause); ok {
			for _, e := range cc.List {
				if id, ok := ast.Unparen(e).(*ast.Ident); ok {
					handled[info.Uses[id]] = true
				}
			}
		}
		return true
	})
	// the if-form of a case (`tok.Type == TokenTypeAs`) and a lookup table of the package that the function searches
	// (`for i := range arithmeticOperators { if arithmeticOperators[i].tokenType != tok.Type { continue } ...`)
	isTokenVar := func(o types.Object) bool {
		v, ok := o.(*types.Var)
		return ok && v.Parent() == p.Types.Scope() && strings.HasPrefix(v.Name(), "TokenType")
	}
	ast.Inspect(d.Body, func(n ast.Node) bool {
		switch x := n.(type) {
		case *ast.BinaryExpr:
			if x.Op == token.EQL || x.Op == token.NEQ {
				for _, e := range []ast.Expr{x.X, x.Y} {
					if o := identObj(info, e); o != nil && isTokenVar(o) {
						handled[o] = true
					}
				}
			}
		case *ast.Ident:
			v, ok := info.Uses[x].(*types.Var)
			if !ok || v.Parent() != p.Types.Scope() || v.Name() == "operatorInfo" {
				return true
			}
			for _, f := range p.Syntax {
				for _, decl := range f.Decls {
					gd, ok := decl.(*ast.GenDecl)
					if !ok {
						continue
					}
					for _, sp := range gd.Specs {
						vs, ok := sp.(*ast.ValueSpec)
						if !ok {
							continue
						}
						for i, nm := range vs.Names {
							if info.Defs[nm] != types.Object(v) || i >= len(vs.Values) {
								continue
							}
							if lit, ok := vs.Values[i].(*ast.CompositeLit); ok {
								ast.Inspect(lit, func(m ast.Node) bool {
									if id, ok := m.(*ast.Ident); ok {
										if o := info.Uses[id]; o != nil && isTokenVar(o) {
											handled[o] = true
										}
									}
									return true
								})
							}
						}
					}
				}
			}
		}
		return true
	})
	for _, el := range table.Elts {
		kv, ok := el.(*ast.KeyValueExpr)
		if !ok {
			continue
		}
		id, ok := kv.Key.(*ast.Ident)
		if !ok {
			c.Undecided(rule, "operatorInfo/key", kv.Pos(), "key is not an identifier")
			continue
		}
		binary := false
		if v, ok := kv.Value.(*ast.CompositeLit); ok {
			for _, fe := range v.Elts {
				if fkv, ok := fe.(*ast.KeyValueExpr); ok && types.ExprString(fkv.Key) == "IsBinary" {
					if tv, ok := info.Types[fkv.Value]; ok && tv.Value != nil && tv.Value.ExactString() == "true" {
						binary = true
					}
				}
			}
		}
		if !binary {
			c.OK(rule, "operatorInfo/"+id.Name, kv.Pos(), "not a binary operator: handled by parseCall/parseSubscript")
			continue
		}
		c.Check(handled[info.Uses[id]], rule, "operatorInfo/"+id.Name, kv.Pos(), "has a case in combineOperands",
			fmt.Sprintf("%s is a binary operator of the grammar but combineOperands has no case for it: an expression using it makes yardl panic (unexpected token type)", id.Name))
	}
}

// P9: reflective struct walks terminate. koanf's structs.Provider (fatih/structs) recurses
// through every exported field that is not tagged `<tag>:"-"`, following pointers, with no
// visited set: a value cycle through walked fields overflows the stack. Every field that
// closes a cycle in the *type* graph of the walked root must therefore be excluded by the
// tag, or be listed with the reason why the values can never be cyclic.
var acyclicByConstruction = map[string]string{
	"Import.Package": "import graphs are acyclic: collectPackages rejects a package that is already on the import chain (rule I1)",
}

func ruleReflectiveWalkTerminates(c *core.Ctx) {
	const rule = "P9"
	c.Rule(rule, "every struct handed to koanf's reflective structs.Provider has no pointer cycle through the fields the walk follows: each field closing a type cycle carries the `-` tag of the walk or is acyclic by construction (table)", 2)
	n := 0
	for _, d := range c.AllDecls() {
		p := c.DeclPkg(d)
		if !frontScope(p.PkgPath) {
			continue
		}
		for _, cs := range c.Calls(d) {
			if cs.Callee == nil || core.FullName(cs.Callee) != "github.com/knadh/koanf/providers/structs.Provider" || len(cs.Call.Args) != 2 {
				continue
			}
			n++
			tag := "yaml"
			if tv, ok := p.TypesInfo.Types[cs.Call.Args[1]]; ok && tv.Value != nil {
				tag = strings.Trim(tv.Value.ExactString(), "\"")
			}
			root := core.NamedOf(p.TypesInfo.TypeOf(cs.Call.Args[0]))
			if root == nil {
				c.Undecided(rule, c.FuncName(d)+"/structs.Provider", cs.Call.Pos(), "argument is not a named struct")
				continue
			}
			onPath := map[*types.Named]bool{}
			done := map[*types.Named]bool{}
			reported := map[string]bool{}
			var walk func(t *types.Named)
			var follow func(owner *types.Named, field *types.Var, ftag string, t types.Type, depth int)
			follow = func(owner *types.Named, field *types.Var, ftag string, t types.Type, depth int) {
				if depth > 6 {
					return
				}
				switch x := t.(type) {
				case *types.Pointer:
					follow(owner, field, ftag, x.Elem(), depth+1)
				case *types.Slice:
					follow(owner, field, ftag, x.Elem(), depth+1)
				case *types.Array:
					follow(owner, field, ftag, x.Elem(), depth+1)
				case *types.Map:
					follow(owner, field, ftag, x.Elem(), depth+1)
				case *types.Alias:
					follow(owner, field, ftag, types.Unalias(x), depth+1)
				case *types.Named:
					if _, isStruct := x.Underlying().(*types.Struct); isStruct {
						if onPath[x] {
							key := owner.Obj().Name() + "." + field.Name()
							if reported[key] {
								return
							}
							reported[key] = true
							if r, ok := acyclicByConstruction[key]; ok {
								c.OK(rule, key, field.Pos(), "closes a type cycle back to "+x.Obj().Name()+" but values are acyclic: "+r)
							} else {
								c.Bad(rule, key, field.Pos(), fmt.Sprintf("field %s closes a cycle back to %s in the struct graph that structs.Provider(%s, %q) walks and is not tagged `%s:\"-\"`: a value that points back (e.g. a version labelling the package itself, `versions: {cur: .}`) makes the walk recurse until the stack overflows", key, x.Obj().Name(), root.Obj().Name(), tag, tag))
							}
							return
						}
						walk(x)
					} else {
						follow(owner, field, ftag, x.Underlying(), depth+1)
					}
				}
			}
			walk = func(t *types.Named) {
				if done[t] {
					return
				}
				onPath[t] = true
				st := t.Underlying().(*types.Struct)
				for i := 0; i < st.NumFields(); i++ {
					f := st.Field(i)
					if !f.Exported() {
						continue
					}
					ftag := reflect.StructTag(st.Tag(i)).Get(tag)
					if ftag == "-" {
						key := t.Obj().Name() + "." + f.Name()
						if nt := core.NamedOf(f.Type()); nt != nil && !reported[key] {
							if _, isStruct := nt.Underlying().(*types.Struct); isStruct && onPath[nt] {
								reported[key] = true
								c.OK(rule, key, f.Pos(), "back-pointer excluded from the walk by its `-` tag")
							}
						}
						continue
					}
					follow(t, f, ftag, f.Type(), 0)
				}
				onPath[t] = false
				done[t] = true
			}
			walk(root)
		}
	}
	if n == 0 {
		c.Undecided(rule, "anchor/structs.Provider", 0, "no call of koanf structs.Provider found")
	}
}
