package rules

import (
	"fmt"
	"go/ast"
	"go/token"
	"go/types"
	"golang.org/x/tools/go/packages"
	"sort"
	"strings"

	"verif/checker/internal/core"
	"verif/checker/internal/gee"
)

// ---------------------------------------------------------------------------
// C05 / C06: the change model handed from the evolution analyser to code generation.
// ---------------------------------------------------------------------------

func typeChangeImpls(c *core.Ctx) []*types.Named {
	var out []*types.Named
	for _, t := range implementers(c, "TypeChange") {
		if n := core.NamedOf(t); n != nil {
			out = append(out, n)
		}
	}
	return out
}

func hasField(n *types.Named, name string) bool {
	st, ok := n.Underlying().(*types.Struct)
	if !ok {
		return false
	}
	for i := 0; i < st.NumFields(); i++ {
		if st.Field(i).Name() == name {
			return true
		}
	}
	return false
}

// V1: Inverse is a well-formed involution.
func ruleInverseInvolution(c *core.Ctx) {
	const rule = "EV1"
	c.Rule(rule, "every TypeChange.Inverse() returns a change whose type pair is tc.Swap(), whose wrapped InnerChange is itself inverted, whose index/definition fields are carried over and whose match vectors are exchanged; Inverse∘Inverse returns to the same change type", 30)
	p := c.Pkg("pkg/dsl")
	info := p.TypesInfo
	invOf := map[string]string{}
	for _, n := range typeChangeImpls(c) {
		name := n.Obj().Name()
		_, d, _ := c.Func("pkg/dsl", name+".Inverse")
		if d == nil {
			c.Undecided(rule, name+"/Inverse", n.Obj().Pos(), "Inverse method not found")
			continue
		}
		var ret *ast.ReturnStmt
		for _, s := range d.Body.List {
			if r, ok := s.(*ast.ReturnStmt); ok {
				ret = r
			}
		}
		if ret == nil || len(ret.Results) != 1 {
			c.Undecided(rule, name+"/Inverse", d.Pos(), "Inverse is not a single return")
			continue
		}
		if tv := info.Types[ret.Results[0]]; tv.IsNil() {
			if name == "TypeChangeStepAdded" {
				c.OK(rule, name+"/Inverse", d.Pos(), "an added step has no inverse (nothing to write for the old version): returns nil by design")
			} else {
				c.Bad(rule, name+"/Inverse", d.Pos(), "Inverse returns nil")
			}
			continue
		}
		ue, ok := ret.Results[0].(*ast.UnaryExpr)
		var cl *ast.CompositeLit
		if ok {
			cl, _ = ue.X.(*ast.CompositeLit)
		}
		if cl == nil {
			c.Undecided(rule, name+"/Inverse", d.Pos(), "Inverse does not return a composite literal")
			continue
		}
		tn := core.NamedOf(info.TypeOf(cl))
		if tn == nil {
			continue
		}
		invOf[name] = tn.Obj().Name()
		st := tn.Underlying().(*types.Struct)
		// map literal elements to field names
		vals := map[string]string{}
		for i, el := range cl.Elts {
			if kv, ok := el.(*ast.KeyValueExpr); ok {
				vals[kv.Key.(*ast.Ident).Name] = core.ExprStringNoParens(core.InlineLocals(info, d.Body, kv.Value))
			} else if i < st.NumFields() {
				vals[st.Field(i).Name()] = core.ExprStringNoParens(core.InlineLocals(info, d.Body, el))
			}
		}
		c.Check(vals["TypePair"] == "tc.Swap()", rule, name+"/Inverse/type pair swapped", d.Pos(), "TypePair: tc.Swap()", "the inverse does not swap old and new type: `"+vals["TypePair"]+"`")
		for i := 0; i < st.NumFields(); i++ {
			f := st.Field(i).Name()
			got := vals[f]
			key := name + "/Inverse/" + f
			switch f {
			case "TypePair":
			case "InnerChange":
				c.Check(got == "tc.InnerChange.Inverse()", rule, key, d.Pos(), "inner change inverted", "the wrapped element change is passed on without being inverted (`"+got+"`): writing for the old version applies the old→new element conversion")
			case "OldMatches":
				c.Check(got == "tc.NewMatches", rule, key, d.Pos(), "match vectors exchanged", "OldMatches of the inverse must be the NewMatches of the original, got `"+got+"`")
			case "NewMatches":
				c.Check(got == "tc.OldMatches", rule, key, d.Pos(), "match vectors exchanged", "NewMatches of the inverse must be the OldMatches of the original, got `"+got+"`")
			default:
				c.Check(got == "tc."+f, rule, key, d.Pos(), "carried over", "field "+f+" of the inverse is `"+got+"`, expected tc."+f)
			}
		}
	}
	for a, b := range invOf {
		back, ok := invOf[b]
		c.Check(ok && back == a, rule, a+"/Inverse∘Inverse", 0, a+" ⇄ "+b, fmt.Sprintf("Inverse of %s is %s, whose inverse is %s: not an involution", a, b, back))
	}
}

// V2: classifiers treat wrapper changes (those with an InnerChange) by recursion.
func ruleWrapperRecursion(c *core.Ctx) {
	const rule = "EV2"
	c.Rule(rule, "typeChangeIsError, typeChangeWarningReason (pkg/dsl) and requiresExplicitConversion (cpp/binary) classify a wrapper change (stream/vector/optional element changed) by calling themselves on its InnerChange, so a change nested under several wrappers is classified by its innermost change", 9)
	var wrappers []string
	for _, n := range typeChangeImpls(c) {
		if hasField(n, "InnerChange") {
			wrappers = append(wrappers, n.Obj().Name())
		}
	}
	sort.Strings(wrappers)
	for _, site := range [][2]string{{"pkg/dsl", "typeChangeIsError"}, {"pkg/dsl", "typeChangeWarningReason"}, {"internal/cpp/binary", "requiresExplicitConversion"}} {
		f, d, p := c.Func(site[0], site[1])
		if d == nil {
			c.Undecided(rule, site[1]+"/anchor", 0, "function not found")
			continue
		}
		// evaluated on the function's guarded returns: for a change of wrapper kind W the value returned
		// is the function applied to W's InnerChange — whether the kinds are told apart by a type switch,
		// by comma-ok assertions, or a mix
		x := &gee.Extractor{Info: p.TypesInfo, Fset: c.Fset, AllReturns: true}
		rows := x.Extract(site[1], d)
		subj := ""
		for _, r := range rows {
			for _, g := range r.Guards {
				if sj, _, _, ok := parseSetGuard(stripDsl(g)); ok && strings.HasPrefix(sj, "type(") && subj == "" {
					subj = sj
				}
			}
		}
		if subj == "" {
			c.Undecided(rule, site[1]+"/type tests", d.Pos(), "the function does not distinguish change kinds by type")
			continue
		}
		for _, w := range wrappers {
			key := site[1] + "/" + w
			asg := map[string]string{subj: w}
			n, rec := 0, true
			var at token.Pos
			for _, r := range rows {
				if r.Kind != "return" || r.In != "" {
					continue
				}
				if sat, _ := guardSat(r.Guards, asg); !sat {
					continue
				}
				// rows whose guards do not mention the kind at all are the fall-through default, reached
				// only when no earlier row returned: ignore them when a kind-specific row exists
				specific := false
				for _, g := range r.Guards {
					if sj, elems, neg, ok := parseSetGuard(stripDsl(g)); ok && sj == subj && !neg {
						for _, e := range elems {
							if e == w {
								specific = true
							}
						}
					}
				}
				if !specific {
					continue
				}
				n++
				at = r.Pos
				val := strings.TrimPrefix(strings.TrimPrefix(r.Tmpl, "VAL:"), "CALL:")
				args := strings.Join(r.Args, ", ")
				want := w + ".InnerChange"
				okRow := (val == site[1]+"("+want+")") || (val == site[1] && args == want)
				rec = rec && okRow
			}
			if n == 0 {
				c.Bad(rule, key, d.Pos(), "no case for wrapper change "+w)
				continue
			}
			c.Check(rec, rule, key, at, "returns "+site[1]+"(tc.InnerChange)", "the case for "+w+" does not return "+site[1]+"(tc.InnerChange): an element change nested under two wrappers (e.g. a vector of optionals) is misclassified")
		}
		_ = f
	}
}

// V3: every change kind the analyser can produce is consumed by code generation, and is
// classified as error / warning / silent-by-design.
var silentByDesign = map[string]string{
	"TypeChangeDefinitionChanged":   "the referenced definition changed; the definition's own change is classified",
	"TypeChangeStepAdded":           "added steps are validated in validateProtocolChanges (must have an empty state)",
	"TypeChangeStreamTypeChanged":   "wrapper: classified by its inner change",
	"TypeChangeVectorTypeChanged":   "wrapper: classified by its inner change",
	"TypeChangeOptionalTypeChanged": "wrapper: classified by its inner change",
}

func ruleChangeKindsConsumed(c *core.Ctx) {
	const rule = "EV3"
	c.Rule(rule, "every TypeChange kind constructed by the evolution analyser has a case in cpp/binary.writeTypeConversion (or is a table exception) and is classified as error (typeChangeIsError), warning (typeChangeWarningReason) or silent by design; every DefinitionChange kind has a case in validateTypeDefinitionChanges and writeCompatibilitySerializers", 25)
	p := c.Pkg("pkg/dsl")
	info := p.TypesInfo
	constructed := map[string]bool{}
	for _, f := range p.Syntax {
		if !strings.HasSuffix(c.Fset.Position(f.Pos()).Filename, "evolution.go") {
			continue
		}
		ast.Inspect(f, func(n ast.Node) bool {
			if cl, ok := n.(*ast.CompositeLit); ok {
				if nt := core.NamedOf(info.TypeOf(cl)); nt != nil && (strings.HasPrefix(nt.Obj().Name(), "TypeChange") || strings.HasSuffix(nt.Obj().Name(), "Change") || nt.Obj().Name() == "AliasRemoved" || nt.Obj().Name() == "ProtocolRemoved" || nt.Obj().Name() == "DefinitionChangeIncompatible") {
					constructed[nt.Obj().Name()] = true
				}
			}
			return true
		})
	}
	var casesIn func(d *ast.FuncDecl, pp *packages.Package, res map[string]bool, seen map[*ast.FuncDecl]bool, depth int)
	casesOf := func(pkgRel, fn string) map[string]bool {
		_, d, pp := c.Func(pkgRel, fn)
		if d == nil {
			return nil
		}
		res := map[string]bool{}
		casesIn(d, pp, res, map[*ast.FuncDecl]bool{}, 0)
		return res
	}
	// the kinds a function distinguishes, itself or in the helpers of its package it hands the work to
	casesIn = func(d *ast.FuncDecl, pp *packages.Package, res map[string]bool, seen map[*ast.FuncDecl]bool, depth int) {
		if seen[d] || depth > 2 {
			return
		}
		seen[d] = true
		for _, cs := range c.Calls(d) {
			if cs.Callee == nil || cs.Callee.Pkg() != pp.Types {
				continue
			}
			if hd := c.Decl(cs.Callee.Origin()); hd != nil && hd.Body != nil {
				casesIn(hd, pp, res, seen, depth+1)
			}
		}
		for _, ts := range findTypeSwitches(pp.TypesInfo, d.Body, nil) {
			for _, cs := range ts.cases {
				for _, t := range cs.types {
					if n := core.NamedOf(t); n != nil {
						res[n.Obj().Name()] = true
					}
				}
			}
		}
		// `if x, ok := v.(*T); ok` is a one-case type switch
		ast.Inspect(d.Body, func(n ast.Node) bool {
			if as, ok := n.(*ast.AssignStmt); ok && len(as.Lhs) == 2 && len(as.Rhs) == 1 {
				if ta, ok := ast.Unparen(as.Rhs[0]).(*ast.TypeAssertExpr); ok && ta.Type != nil {
					if nt := core.NamedOf(pp.TypesInfo.TypeOf(ta.Type)); nt != nil {
						res[nt.Obj().Name()] = true
					}
				}
			}
			return true
		})
	}
	conv := casesOf("internal/cpp/binary", "writeTypeConversion")
	isErr := casesOf("pkg/dsl", "typeChangeIsError")
	warn := casesOf("pkg/dsl", "typeChangeWarningReason")
	if conv == nil || isErr == nil || warn == nil {
		c.Undecided(rule, "anchors", 0, "writeTypeConversion / typeChangeIsError / typeChangeWarningReason not found")
		return
	}
	var names []string
	for n := range constructed {
		names = append(names, n)
	}
	sort.Strings(names)
	for _, n := range names {
		if !strings.HasPrefix(n, "TypeChange") {
			continue
		}
		// consumed
		switch {
		case conv[n]:
			c.OK(rule, "consumed/"+n, 0, "has a case in cpp/binary.writeTypeConversion")
		case n == "TypeChangeIncompatible":
			c.OK(rule, "consumed/"+n, 0, "never reaches code generation: validateChanges returns an error first")
		case n == "TypeChangeDefinitionChanged":
			c.OK(rule, "consumed/"+n, 0, "no explicit conversion: the compatibility serializer of the changed definition is used (requiresExplicitConversion = false)")
		case n == "TypeChangeStepAdded":
			c.OK(rule, "consumed/"+n, 0, "handled by writeChangeSwitchCase's added-step callback")
		default:
			c.Bad(rule, "consumed/"+n, 0, "the analyser constructs "+n+" but cpp/binary.writeTypeConversion has no case for it: generation panics or emits no conversion for an accepted model")
		}
		// classified
		cls := []string{}
		if isErr[n] && n == "TypeChangeIncompatible" {
			cls = append(cls, "error")
		}
		if warn[n] && silentByDesign[n] == "" {
			cls = append(cls, "warning")
		}
		if r, ok := silentByDesign[n]; ok {
			cls = append(cls, "silent: "+r)
		}
		c.Check(len(cls) == 1, rule, "classified/"+n, 0, strings.Join(cls, ""), fmt.Sprintf("%s is classified %v: every change kind must be exactly one of error, warning, silent-by-design", n, cls))
	}
	// definition changes
	vt := casesOf("pkg/dsl", "validateTypeDefinitionChanges")
	cs := casesOf("internal/cpp/binary", "writeCompatibilitySerializers")
	for _, n := range names {
		if strings.HasPrefix(n, "TypeChange") || n == "ProtocolChange" || n == "ProtocolRemoved" {
			continue
		}
		c.Check(vt[n], rule, "validated/"+n, 0, "has a case in validateTypeDefinitionChanges", n+" is constructed but validateTypeDefinitionChanges has no case for it (its default panics)")
		if n != "DefinitionChangeIncompatible" {
			c.Check(cs[n], rule, "emitted/"+n, 0, "has a case in cpp/binary.writeCompatibilitySerializers", n+" is constructed but writeCompatibilitySerializers has no case for it")
		}
	}
}

// V4: change data that is produced must be consumed.
var writeOnlyExceptions = map[string]string{}

func ruleChangeDataUsed(c *core.Ctx) {
	const rule = "EV4"
	c.Rule(rule, "every field of RecordChange / EnumChange / ProtocolChange / NamedTypeChange that the comparers fill is read by a validator or a code generator: change data that is written and never read is an edit class that is silently dropped", 12)
	p := c.Pkg("pkg/dsl")
	reads := map[fieldKey]string{}
	for _, d := range c.AllDecls() {
		pp := c.DeclPkg(d)
		rw := directRW(pp.TypesInfo, d.Body)
		// a function that fills a change struct is its comparer: what it reads back of the
		// same struct while building it is bookkeeping, not a consumer of the change
		fills := map[string]bool{}
		for k := range rw.writes {
			fills[k.typ] = true
		}
		for k, pos := range rw.reads {
			if fills[k.typ] {
				continue
			}
			if _, ok := reads[k]; !ok {
				reads[k] = c.FuncName(d) + " @" + c.PosStr(pos)
			}
		}
	}
	for _, tname := range []string{"RecordChange", "EnumChange", "ProtocolChange", "NamedTypeChange"} {
		tn, _ := p.Types.Scope().Lookup(tname).(*types.TypeName)
		if tn == nil {
			c.Undecided(rule, tname, 0, "type not found")
			continue
		}
		st := tn.Type().Underlying().(*types.Struct)
		for i := 0; i < st.NumFields(); i++ {
			f := st.Field(i)
			if f.Embedded() {
				continue
			}
			key := tname + "." + f.Name()
			if r, ok := reads[fieldKey{tname, f.Name()}]; ok {
				c.OK(rule, key, f.Pos(), "read by "+r)
			} else if r, ok := writeOnlyExceptions[key]; ok {
				c.OK(rule, key, f.Pos(), "exception: "+r)
			} else {
				c.Bad(rule, key, f.Pos(), "the comparer fills "+key+" but nothing reads it: this class of edit is neither rejected, nor warned about, nor handled by code generation")
			}
		}
	}
}
