package rules

import (
	"fmt"
	"go/ast"
	"go/constant"
	"go/token"
	"go/types"
	"sort"
	"strings"

	"verif/checker/internal/core"
)

// Finite-domain evaluation of the *dsl.BinaryExpression case of an expression emitter (rule X3).
//
// The operands of a binary expression are abstracted to "not a binary expression" or "a binary expression
// with operator k"; with the parent's operator that is a domain of 5 x 6 x 6 shapes. For each shape the
// statements of the case are evaluated over that domain — boolean locals, comma-ok type assertions on the
// operands, comparisons of Operator.Precedence(), tests of the operator, switches on it, helper functions
// and closures of the package, literals handed to wrapper calls — and the order of the emissions and of the
// Visit calls is recorded. Nothing of the repository is executed: the evaluator reads the type-checked AST,
// and anything outside this small fragment makes the obligation undecided.

type pvKind int

const (
	pvUnknown pvKind = iota
	pvBool
	pvInt
	pvOp
	pvNode    // a dsl.Expression: role parent | left | right
	pvClosure // function literal with its environment
	pvString
	pvList   // elements of a literal slice / array (a lookup table of the package)
	pvStruct // a literal struct value: field name -> value
	pvMap    // a literal map: keys in literal order
	pvType   // the resolved type of the parent expression (abstracted to: integer / other)
	pvAbs    // a part of an abstract dsl.Type shape (rule J1): s = type | gt | dim | keytype | cases | case0 | scalar | def | nil
)

// tshape: the shape of a dsl.Type as far as the JSON kind table can depend on it.
type tshape struct {
	null    bool
	dim     string // "", Vector, Array, Map
	fixed   bool
	keyPrim string // primitive of a map's key type; "" = not a primitive
	def     string // PrimitiveDefinition | EnumDefinition | RecordDefinition | GenericTypeParameter
	prim    string
	flags   bool
}

type pval struct {
	k    pvKind
	b    bool
	n    int64
	s    string // operator name, role, or string value
	lit  *ast.FuncLit
	env  *penv
	info *types.Info
	// literal tables
	list   []pval
	fields map[string]pval
	keys   []pval
}

func (v pval) same(o pval) bool {
	if v.k == pvOp && o.k == pvOp {
		return v.s == o.s // operators are identified by name
	}
	return v.k == o.k && v.k != pvUnknown && v.s == o.s && v.n == o.n && v.b == o.b
}

type penv struct {
	vars   map[types.Object]pval
	parent *penv
}

func (e *penv) get(o types.Object) (pval, bool) {
	for cur := e; cur != nil; cur = cur.parent {
		if v, ok := cur.vars[o]; ok {
			return v, true
		}
	}
	return pval{}, false
}

func (e *penv) set(o types.Object, v pval) {
	for cur := e; cur != nil; cur = cur.parent {
		if _, ok := cur.vars[o]; ok {
			cur.vars[o] = v
			return
		}
	}
	e.vars[o] = v
}

type pscen struct {
	parent, left, right string // operator constant names; "" = operand is not a binary expression
}

type pctl int

const (
	ctlNext pctl = iota
	ctlReturn
	ctlBreak
	ctlContinue
)

type pinterp struct {
	c       *core.Ctx
	scen    pscen
	events  []string
	unknown string // first construct the evaluator could not decide
	depth   int
	ret     []pval
	// conditions outside the domain (e.g. a test on the resolved type that selects between two tokens) are explored
	// both ways: choices[i] is the outcome taken for the i-th such condition of this run
	choices []bool
	asked   int
	// "int" / "other": what the resolved type of the parent expression is taken to be ("" = not modelled)
	resultKind string
	globals    map[types.Object]pval
	// the call being evaluated is used for its value (assigned or passed on), not as a statement
	wantValue bool
	// a numeric type change: the primitive before and after (values of dsl.PrimitiveDefinition constants)
	oldPrim, newPrim string
	// the type shape under evaluation (rule J1)
	shape *tshape
	// operand kinds of a binary expression being typed (rule X12): values of dsl.PrimitiveKind constant names, "" = not
	// a primitive; commonErr: GetCommonType fails
	typing    bool
	lKind     string
	rKind     string
	commonErr bool
}

func (pi *pinterp) fail(what string) {
	if pi.unknown == "" {
		pi.unknown = what
	}
}

// mkOp: the operator constant with that name, with its numeric value (tables may be indexed by it).
func (pi *pinterp) mkOp(name string) pval {
	v := pval{k: pvOp, s: name}
	if p := pi.c.Pkg("pkg/dsl"); p != nil {
		if k, ok := p.Types.Scope().Lookup(name).(*types.Const); ok && k.Val().Kind() == constant.Int {
			v.n, _ = constant.Int64Val(k.Val())
		}
	}
	return v
}

func (pi *pinterp) opOf(role string) string {
	switch role {
	case "parent":
		return pi.scen.parent
	case "left":
		return pi.scen.left
	case "right":
		return pi.scen.right
	}
	return ""
}

func (pi *pinterp) eval(info *types.Info, e ast.Expr, env *penv) pval {
	switch x := ast.Unparen(e).(type) {
	case *ast.BasicLit:
		if tv, ok := info.Types[x]; ok && tv.Value != nil {
			switch tv.Value.Kind() {
			case constant.Int:
				n, _ := constant.Int64Val(tv.Value)
				return pval{k: pvInt, n: n}
			case constant.String:
				return pval{k: pvString, s: constant.StringVal(tv.Value)}
			}
		}
	case *ast.Ident:
		switch o := info.Uses[x].(type) {
		case *types.Const:
			if x.Name == "true" || x.Name == "false" {
				return pval{k: pvBool, b: x.Name == "true"}
			}
			if nt := core.NamedOf(o.Type()); nt != nil && nt.Obj().Name() == "BinaryOperator" {
				return pi.mkOp(o.Name())
			}
			if o.Val().Kind() == constant.Int {
				n, _ := constant.Int64Val(o.Val())
				return pval{k: pvInt, n: n}
			}
			if o.Val().Kind() == constant.String {
				return pval{k: pvString, s: constant.StringVal(o.Val())}
			}
			if o.Val().Kind() == constant.Bool {
				return pval{k: pvBool, b: constant.BoolVal(o.Val())}
			}
		case *types.Var:
			if v, ok := env.get(o); ok {
				return v
			}
			if o.Parent() != nil && o.Pkg() != nil && o.Parent() == o.Pkg().Scope() {
				return pi.global(o)
			}
		case *types.Nil:
			return pval{}
		}
		if o := info.Defs[x]; o != nil {
			if v, ok := env.get(o); ok {
				return v
			}
		}
	case *ast.SelectorExpr:
		// package-qualified constant
		if o, ok := info.Uses[x.Sel].(*types.Const); ok {
			if nt := core.NamedOf(o.Type()); nt != nil && nt.Obj().Name() == "BinaryOperator" {
				return pi.mkOp(o.Name())
			}
			if o.Val().Kind() == constant.Int {
				n, _ := constant.Int64Val(o.Val())
				return pval{k: pvInt, n: n}
			}
		}
		if o, ok := info.Uses[x.Sel].(*types.Const); ok && o.Val().Kind() == constant.String {
			return pval{k: pvString, s: constant.StringVal(o.Val())}
		}
		if o, ok := info.Uses[x.Sel].(*types.Var); ok && !o.IsField() && o.Parent() != nil && o.Pkg() != nil && o.Parent() == o.Pkg().Scope() {
			return pi.global(o)
		}
		base := pi.eval(info, x.X, env)
		if base.k == pvStruct {
			if fv, ok := base.fields[x.Sel.Name]; ok {
				return fv
			}
			return pval{}
		}
		if base.k == pvAbs && pi.shape != nil {
			switch base.s + "." + x.Sel.Name {
			case "gt.Dimensionality":
				if pi.shape.dim == "" {
					return pval{k: pvAbs, s: "nil"}
				}
				return pval{k: pvAbs, s: "dim"}
			case "gt.Cases":
				return pval{k: pvAbs, s: "cases"}
			case "dim.KeyType":
				return pval{k: pvAbs, s: "keytype"}
			case "case0.Type":
				return pval{k: pvAbs, s: "scalar"}
			case "scalar.ResolvedDefinition":
				if pi.shape.def == "PrimitiveDefinition" {
					return pval{k: pvString, s: pi.shape.prim}
				}
				return pval{k: pvAbs, s: "def"}
			case "def.IsFlags":
				return pval{k: pvBool, b: pi.shape.flags}
			}
			return pval{}
		}
		if base.k == pvType && x.Sel.Name == "ResolvedDefinition" && (base.s == "old" || base.s == "new") {
			if base.s == "old" {
				return pval{k: pvString, s: pi.oldPrim}
			}
			return pval{k: pvString, s: pi.newPrim}
		}
		if base.k == pvNode && base.s == "parent" && x.Sel.Name == "ResolvedType" && pi.resultKind != "" {
			return pval{k: pvType, s: pi.resultKind}
		}
		if base.k == pvNode && base.s == "array" && x.Sel.Name == "Dimensions" {
			return pval{k: pvAbs, s: "nonnil", n: 1} // the dimension list of the abstract array: present and empty
		}
		if base.k == pvNode {
			switch x.Sel.Name {
			case "Left", "Right":
				if base.s == "parent" {
					return pval{k: pvNode, s: strings.ToLower(x.Sel.Name)}
				}
			case "Expression":
				if base.s == "parent" {
					return pval{k: pvNode, s: "operand"}
				}
			case "Operator":
				if op := pi.opOf(base.s); op != "" {
					return pi.mkOp(op)
				}
			}
		}
	case *ast.UnaryExpr:
		if x.Op == token.NOT {
			v := pi.eval(info, x.X, env)
			if v.k == pvBool {
				return pval{k: pvBool, b: !v.b}
			}
		}
	case *ast.BinaryExpr:
		switch x.Op {
		case token.LAND:
			l := pi.eval(info, x.X, env)
			if l.k == pvBool && !l.b {
				return l
			}
			r := pi.eval(info, x.Y, env)
			if l.k == pvBool && r.k == pvBool {
				return pval{k: pvBool, b: l.b && r.b}
			}
			if r.k == pvBool && !r.b {
				return r
			}
			return pval{}
		case token.LOR:
			l := pi.eval(info, x.X, env)
			if l.k == pvBool && l.b {
				return l
			}
			r := pi.eval(info, x.Y, env)
			if l.k == pvBool && r.k == pvBool {
				return pval{k: pvBool, b: l.b || r.b}
			}
			if r.k == pvBool && r.b {
				return r
			}
			return pval{}
		}
		l, r := pi.eval(info, x.X, env), pi.eval(info, x.Y, env)
		if x.Op == token.EQL || x.Op == token.NEQ {
			// comparison of a part of the abstract type with nil
			isNil := func(e ast.Expr) bool { tv, ok := info.Types[e]; return ok && tv.IsNil() }
			abs, other := l, x.Y
			if isNil(x.X) {
				abs, other = r, x.X
			}
			if abs.k == pvAbs && isNil(other) && (abs.s == "nil" || abs.s == "nonnil") {
				return pval{k: pvBool, b: (abs.s == "nil") == (x.Op == token.EQL)}
			}
			if abs.k == pvType && isNil(other) && pi.typing {
				return pval{k: pvBool, b: x.Op == token.NEQ} // the operands are resolved
			}
			if abs.k == pvAbs && isNil(other) && pi.shape != nil {
				null := abs.s == "nil" || (abs.s == "type" && pi.shape.null)
				return pval{k: pvBool, b: null == (x.Op == token.EQL)}
			}
		}
		if l.k == pvInt && r.k == pvInt {
			switch x.Op {
			case token.OR:
				return pval{k: pvInt, n: l.n | r.n}
			case token.AND:
				return pval{k: pvInt, n: l.n & r.n}
			case token.SHL:
				return pval{k: pvInt, n: l.n << uint(r.n)}
			}
		}
		if l.k == pvString && r.k == pvString {
			switch x.Op {
			case token.ADD:
				return pval{k: pvString, s: l.s + r.s}
			case token.EQL:
				return pval{k: pvBool, b: l.s == r.s}
			case token.NEQ:
				return pval{k: pvBool, b: l.s != r.s}
			}
		}
		if x.Op == token.ADD && (l.k == pvString || r.k == pvString) {
			// text with a part the domain does not know (a type name, an identifier)
			ls, rs := "?", "?"
			if l.k == pvString {
				ls = l.s
			}
			if r.k == pvString {
				rs = r.s
			}
			return pval{k: pvString, s: ls + rs}
		}
		if (l.k == pvOp && r.k == pvInt) || (l.k == pvInt && r.k == pvOp) {
			l.k, r.k = pvInt, pvInt // an operator compared with a number (bounds test of a table indexed by it)
		}
		if l.k == pvInt && r.k == pvInt {
			switch x.Op {
			case token.LSS:
				return pval{k: pvBool, b: l.n < r.n}
			case token.LEQ:
				return pval{k: pvBool, b: l.n <= r.n}
			case token.GTR:
				return pval{k: pvBool, b: l.n > r.n}
			case token.GEQ:
				return pval{k: pvBool, b: l.n >= r.n}
			case token.EQL:
				return pval{k: pvBool, b: l.n == r.n}
			case token.NEQ:
				return pval{k: pvBool, b: l.n != r.n}
			case token.ADD:
				return pval{k: pvInt, n: l.n + r.n}
			case token.SUB:
				return pval{k: pvInt, n: l.n - r.n}
			}
		}
		if l.k == pvOp && r.k == pvOp {
			switch x.Op {
			case token.EQL:
				return pval{k: pvBool, b: l.s == r.s}
			case token.NEQ:
				return pval{k: pvBool, b: l.s != r.s}
			}
		}
		if l.k == pvBool && r.k == pvBool {
			switch x.Op {
			case token.EQL:
				return pval{k: pvBool, b: l.b == r.b}
			case token.NEQ:
				return pval{k: pvBool, b: l.b != r.b}
			}
		}
	case *ast.StarExpr:
		if v := pi.eval(info, x.X, env); v.k == pvAbs && v.s == "nonnil" && v.n == 1 {
			return pval{k: pvList}
		}
	case *ast.FuncLit:
		return pval{k: pvClosure, lit: x, env: env, info: info}
	case *ast.CompositeLit:
		return pi.composite(info, x, info.TypeOf(x), env)
	case *ast.IndexExpr:
		base := pi.eval(info, x.X, env)
		idx := pi.eval(info, x.Index, env)
		if base.k == pvAbs && base.s == "cases" && idx.k == pvInt && idx.n == 0 {
			return pval{k: pvAbs, s: "case0"}
		}
		switch base.k {
		case pvList:
			if (idx.k == pvInt || idx.k == pvOp) && idx.n >= 0 && int(idx.n) < len(base.list) {
				return base.list[idx.n]
			}
		case pvMap:
			for i, k := range base.keys {
				if k.same(idx) {
					return base.list[i]
				}
			}
			if idx.k != pvUnknown {
				return pval{k: pvUnknown, s: "absent"}
			}
		}
	case *ast.CallExpr:
		saved := pi.wantValue
		pi.wantValue = true
		rs := pi.call(info, x, env)
		pi.wantValue = saved
		if len(rs) > 0 {
			return rs[0]
		}
	case *ast.TypeAssertExpr:
		return pi.eval(info, x.X, env)
	}
	return pval{}
}

// absIs: does the abstract value have the dynamic type written by texpr? (known=false: outside the domain)
func (pi *pinterp) absIs(info *types.Info, v pval, texpr ast.Expr) (bool, bool) {
	if pi.shape == nil {
		return false, false
	}
	if tv, ok := info.Types[texpr]; ok && tv.IsNil() {
		switch {
		case v.k == pvAbs && v.s == "nil":
			return true, true
		case v.k == pvAbs && v.s == "type":
			return pi.shape.null, true
		case v.k == pvAbs || v.k == pvString:
			return false, true
		}
		return false, false
	}
	t := info.TypeOf(texpr)
	if t == nil {
		return false, false
	}
	name := ""
	if nt := core.NamedOf(t); nt != nil {
		name = nt.Obj().Name()
	}
	_, isIface := t.Underlying().(*types.Interface)
	switch {
	case v.k == pvString: // a primitive definition
		if name == "PrimitiveDefinition" {
			return true, true
		}
		if isIface {
			return name == "TypeDefinition" || name == "Node", true
		}
		return false, true
	case v.k == pvAbs && v.s == "nil":
		return false, true
	case v.k == pvAbs && v.s == "dim":
		if isIface {
			return name == "Dimensionality" || name == "Node", true
		}
		return name == pi.shape.dim, true
	case v.k == pvAbs && v.s == "def":
		if isIface {
			return name == "TypeDefinition" || name == "Node", true
		}
		return name == pi.shape.def, true
	case v.k == pvAbs && v.s == "scalar":
		if isIface {
			return name == "Type" || name == "Node", true
		}
		return name == "SimpleType", true
	case v.k == pvAbs && (v.s == "type" || v.s == "gt"):
		if pi.shape.null && v.s == "type" {
			return false, true
		}
		if isIface {
			return name == "Type" || name == "Node", true
		}
		if v.s == "gt" {
			return name == "GeneralizedType", true
		}
		// the parameter itself: a scalar shape is a *SimpleType, anything with a dimensionality a *GeneralizedType
		if pi.shape.dim == "" {
			return name == "SimpleType", true
		}
		return name == "GeneralizedType", true
	}
	return false, false
}

// global: the value of a package-level variable initialised once with a literal (a lookup table).
func (pi *pinterp) global(o *types.Var) pval {
	if pi.globals == nil {
		pi.globals = map[types.Object]pval{}
	}
	if v, ok := pi.globals[o]; ok {
		return v
	}
	pi.globals[o] = pval{}
	p := pi.c.PkgOf(o.Pkg())
	if p == nil {
		return pval{}
	}
	var init ast.Expr
	n := 0
	for _, f := range p.Syntax {
		for _, dd := range f.Decls {
			gd, ok := dd.(*ast.GenDecl)
			if !ok || gd.Tok != token.VAR {
				continue
			}
			for _, sp := range gd.Specs {
				vs := sp.(*ast.ValueSpec)
				for i, nm := range vs.Names {
					if p.TypesInfo.Defs[nm] == types.Object(o) {
						n++
						if i < len(vs.Values) {
							init = vs.Values[i]
						}
					}
				}
			}
		}
	}
	if n != 1 || init == nil {
		return pval{}
	}
	v := pi.eval(p.TypesInfo, init, &penv{vars: map[types.Object]pval{}})
	if v.k == pvUnknown && o.Type().String() == "*math/big.Int" {
		// a named bound (MinInt8, MaxUint64, Zero): carried by name, its value is read off the initialiser by the rule
		v = pval{k: pvAbs, s: "bigint:" + o.Name()}
	}
	pi.globals[o] = v
	return v
}

// composite evaluates a composite literal of a slice, array, struct or map type.
func (pi *pinterp) composite(info *types.Info, cl *ast.CompositeLit, t types.Type, env *penv) pval {
	if t == nil {
		return pval{}
	}
	elemOf := func(e ast.Expr, et types.Type) pval {
		if inner, ok := e.(*ast.CompositeLit); ok {
			it := info.TypeOf(inner)
			if it == nil {
				it = et
			}
			return pi.composite(info, inner, it, env)
		}
		return pi.eval(info, e, env)
	}
	switch ut := t.Underlying().(type) {
	case *types.Slice, *types.Array:
		var et types.Type
		if sl, ok := ut.(*types.Slice); ok {
			et = sl.Elem()
		} else {
			et = ut.(*types.Array).Elem()
		}
		out := pval{k: pvList}
		next := 0
		for _, e := range cl.Elts {
			if kv, ok := e.(*ast.KeyValueExpr); ok {
				// `[...]T{K: v}`: the element at index K
				kvl := pi.eval(info, kv.Key, env)
				if kvl.k != pvInt && kvl.k != pvOp {
					return pval{}
				}
				next = int(kvl.n)
				e = kv.Value
			}
			if next < 0 || next > 4096 {
				return pval{}
			}
			for len(out.list) <= next {
				out.list = append(out.list, pval{})
			}
			out.list[next] = elemOf(e, et)
			next++
		}
		return out
	case *types.Struct:
		out := pval{k: pvStruct, fields: map[string]pval{}}
		for i, e := range cl.Elts {
			if kv, ok := e.(*ast.KeyValueExpr); ok {
				if id, ok := kv.Key.(*ast.Ident); ok {
					for j := 0; j < ut.NumFields(); j++ {
						if ut.Field(j).Name() == id.Name {
							out.fields[id.Name] = elemOf(kv.Value, ut.Field(j).Type())
						}
					}
				}
			} else if i < ut.NumFields() {
				out.fields[ut.Field(i).Name()] = elemOf(e, ut.Field(i).Type())
			}
		}
		return out
	case *types.Map:
		out := pval{k: pvMap}
		for _, e := range cl.Elts {
			if kv, ok := e.(*ast.KeyValueExpr); ok {
				out.keys = append(out.keys, pi.eval(info, kv.Key, env))
				out.list = append(out.list, elemOf(kv.Value, ut.Elem()))
			}
		}
		return out
	}
	return pval{}
}

// sprintf renders a format with the values the domain knows; everything else becomes "?".
func (pi *pinterp) sprintf(info *types.Info, args []ast.Expr, env *penv) (string, bool) {
	if len(args) == 0 {
		return "", false
	}
	f := pi.eval(info, args[0], env)
	if f.k != pvString {
		return "", false
	}
	rest := args[1:]
	var sb strings.Builder
	ai := 0
	for i := 0; i < len(f.s); i++ {
		ch := f.s[i]
		if ch != '%' || i+1 >= len(f.s) {
			sb.WriteByte(ch)
			continue
		}
		i++
		if f.s[i] == '%' {
			sb.WriteByte('%')
			continue
		}
		for i < len(f.s) && strings.IndexByte("+-# 0123456789.[]*", f.s[i]) >= 0 {
			i++
		}
		txt := "?"
		if ai < len(rest) {
			if v := pi.eval(info, rest[ai], env); v.k == pvString {
				txt = v.s
			} else if v.k == pvInt {
				txt = fmt.Sprint(v.n)
			}
		}
		ai++
		sb.WriteString(txt)
	}
	return sb.String(), true
}

// call evaluates a call and returns its results (possibly unknown).
func (pi *pinterp) call(info *types.Info, ce *ast.CallExpr, env *penv) []pval {
	pi.depth++
	defer func() { pi.depth-- }()
	if pi.depth > 12 {
		pi.fail("call depth")
		return nil
	}
	// closure held in a local
	if id, ok := ast.Unparen(ce.Fun).(*ast.Ident); ok {
		if v, ok := info.Uses[id].(*types.Var); ok {
			if cl, ok := env.get(v); ok && cl.k == pvClosure {
				if cl.lit == nil {
					// the callback that prints the operand of a conversion
					pi.events = append(pi.events, "visit:"+cl.s)
					return nil
				}
				return pi.apply(cl.info, cl.lit.Type, cl.lit.Body, cl.env, info, ce.Args, env, nil, pval{})
			}
		}
		if id.Name == "len" && len(ce.Args) == 1 {
			if _, isB := info.Uses[id].(*types.Builtin); isB {
				if v := pi.eval(info, ce.Args[0], env); v.k == pvAbs && v.s == "cases" {
					return []pval{{k: pvInt, n: 1}}
				} else if v.k == pvList || v.k == pvMap {
					return []pval{{k: pvInt, n: int64(len(v.list))}}
				} else if v.k == pvString {
					return []pval{{k: pvInt, n: int64(len(v.s))}}
				}
				return []pval{{}}
			}
		}
		if id.Name == "panic" {
			if _, isB := info.Uses[id].(*types.Builtin); isB {
				pi.events = append(pi.events, "panic")
				pi.ret = nil
				return []pval{{k: pvUnknown, s: "panic"}}
			}
		}
	}
	if fl, ok := ast.Unparen(ce.Fun).(*ast.FuncLit); ok {
		return pi.apply(info, fl.Type, fl.Body, env, info, ce.Args, env, nil, pval{})
	}
	if tv, ok := info.Types[ce.Fun]; ok && tv.IsType() && len(ce.Args) == 1 {
		// a conversion: int(op), dsl.BinaryOperator(i), string(s)
		v := pi.eval(info, ce.Args[0], env)
		if b, isBasic := tv.Type.Underlying().(*types.Basic); isBasic {
			switch {
			case b.Info()&types.IsInteger != 0 && (v.k == pvInt || v.k == pvOp):
				if nt := core.NamedOf(tv.Type); nt != nil && nt.Obj().Name() == "BinaryOperator" && v.k == pvOp {
					return []pval{v}
				}
				return []pval{{k: pvInt, n: v.n}}
			case b.Info()&types.IsString != 0 && v.k == pvString:
				return []pval{v}
			}
		}
		return []pval{{}}
	}
	f := core.Callee(info, ce)
	if f != nil {
		full := core.FullName(f)
		switch {
		case f.Name() == "Visit" && f.Pkg() != nil && strings.HasSuffix(f.Pkg().Path(), "/pkg/dsl") && len(ce.Args) >= 1:
			v := pi.eval(info, ce.Args[0], env)
			role := "?"
			if v.k == pvNode {
				role = v.s
			}
			// a wrapper handed along with the operand (`self.Visit(t.Expression, tail.Append(func(writeOperand func()) {...}))`)
			// is what prints around it: run it with the callback standing for the operand
			if role == "operand" && len(ce.Args) > 1 {
				var lits []*ast.FuncLit
				for _, a := range ce.Args[1:] {
					ast.Inspect(a, func(n ast.Node) bool {
						switch y := n.(type) {
						case *ast.FuncLit:
							lits = append(lits, y)
							return false
						case *ast.Ident:
							// a closure kept in a local, or a value that carries one (`tail = tail.Append(func...)`)
							if vv, ok := info.Uses[y].(*types.Var); ok {
								if cl, ok := env.get(vv); ok && cl.k == pvClosure && cl.lit != nil {
									lits = append(lits, cl.lit)
								}
							}
						}
						return true
					})
				}
				if len(lits) > 0 {
					for _, fl := range lits {
						ne := &penv{vars: map[types.Object]pval{}, parent: env}
						if fl.Type.Params != nil {
							for _, fld := range fl.Type.Params.List {
								for _, nm := range fld.Names {
									if _, isFunc := info.TypeOf(fld.Type).Underlying().(*types.Signature); isFunc {
										ne.vars[info.Defs[nm]] = pval{k: pvClosure, s: role}
									} else {
										ne.vars[info.Defs[nm]] = pval{}
									}
								}
							}
						}
						saved := pi.ret
						pi.ret = nil
						pi.exec(info, fl.Body.List, ne)
						pi.ret = saved
					}
					return nil
				}
			}
			pi.events = append(pi.events, "visit:"+role)
			return nil
		case full == "fmt.Sprintf":
			if txt, ok := pi.sprintf(info, ce.Args, env); ok {
				return []pval{{k: pvString, s: txt}}
			}
			return []pval{{}}
		case full == "fmt.Fprintf" && len(ce.Args) >= 2:
			txt, ok := pi.sprintf(info, ce.Args[1:], env)
			if !ok {
				txt = "?"
			}
			pi.events = append(pi.events, "emit:"+txt)
			return nil
		case !pi.typing && f.Name() == "GetKindIfPrimitive" && f.Pkg() != nil && strings.HasSuffix(f.Pkg().Path(), "/pkg/dsl") && len(ce.Args) == 1:
			if v := pi.eval(info, ce.Args[0], env); v.k == pvType {
				name := "PrimitiveKindFloatingPoint"
				if v.s == "int" {
					name = "PrimitiveKindInteger"
				}
				if k, ok := f.Pkg().Scope().Lookup(name).(*types.Const); ok && k.Val().Kind() == constant.Int {
					n, _ := constant.Int64Val(k.Val())
					return []pval{{k: pvInt, n: n}, {k: pvBool, b: true}}
				}
			}
			return []pval{{}, {}}
		case strings.HasSuffix(full, ".WriteString") || strings.HasSuffix(full, ".WriteStringln") || full == "fmt.Fprintf" || full == "fmt.Fprint" || full == "fmt.Fprintln" || strings.HasSuffix(full, "IndentedWriter).Write"):
			txt := "?"
			for _, a := range ce.Args {
				if v := pi.eval(info, a, env); v.k == pvString {
					txt = v.s
					break
				}
				if tv, ok := info.Types[a]; ok && tv.Value != nil && tv.Value.Kind() == constant.String {
					txt = constant.StringVal(tv.Value)
					break
				}
			}
			pi.events = append(pi.events, "emit:"+txt)
			return nil
		case pi.typing && f.Name() == "GetResolvedType" && len(ce.Args) == 0:
			if se, ok := ast.Unparen(ce.Fun).(*ast.SelectorExpr); ok {
				if recv := pi.eval(info, se.X, env); recv.k == pvNode && (recv.s == "left" || recv.s == "right") {
					return []pval{{k: pvType, s: recv.s}}
				}
			}
			return []pval{{}}
		case pi.typing && f.Name() == "DefaultRewrite" && len(ce.Args) >= 1:
			return []pval{pi.eval(info, ce.Args[0], env)}
		case pi.typing && (f.Name() == "shallowClone" || f.Name() == "insertConversion") && len(ce.Args) >= 1:
			return []pval{pi.eval(info, ce.Args[0], env)}
		case pi.typing && f.Name() == "GetCommonType" && len(ce.Args) == 2:
			if pi.commonErr {
				return []pval{{}, {k: pvAbs, s: "nonnil"}}
			}
			return []pval{{k: pvType, s: "common"}, {k: pvAbs, s: "nil"}}
		case pi.typing && f.Name() == "GetPrimitiveType" && len(ce.Args) == 1:
			return []pval{{k: pvString, s: "<some primitive>"}, {k: pvBool, b: true}}
		case f.Name() == "Add" && strings.Contains(full, "ErrorSink"):
			pi.events = append(pi.events, "error")
			return nil
		case pi.typing && f.Name() == "GetKindIfPrimitive" && len(ce.Args) == 1:
			v := pi.eval(info, ce.Args[0], env)
			kind := ""
			switch {
			case v.k == pvType && v.s == "left":
				kind = pi.lKind
			case v.k == pvType && v.s == "right":
				kind = pi.rKind
			case v.k == pvType && v.s == "common":
				kind = pi.lKind // the common type of two operands of one kind has that kind
			default:
				return []pval{{}, {}}
			}
			if kind == "" {
				if k, ok := f.Pkg().Scope().Lookup("PrimitiveKindNotPrimitive").(*types.Const); ok {
					n, _ := constant.Int64Val(k.Val())
					return []pval{{k: pvInt, n: n}, {k: pvBool, b: false}}
				}
				return []pval{{}, {k: pvBool, b: false}}
			}
			if k, ok := f.Pkg().Scope().Lookup(kind).(*types.Const); ok && k.Val().Kind() == constant.Int {
				n, _ := constant.Int64Val(k.Val())
				return []pval{{k: pvInt, n: n}, {k: pvBool, b: true}}
			}
			return []pval{{}, {}}
		case pi.shape != nil && f.Name() == "ToGeneralizedType" && len(ce.Args) == 1:
			if v := pi.eval(info, ce.Args[0], env); v.k == pvAbs && (v.s == "type" || v.s == "gt") {
				return []pval{{k: pvAbs, s: "gt"}}
			}
			return []pval{{}}
		case pi.shape != nil && f.Name() == "GetUnderlyingType" && len(ce.Args) == 1:
			return []pval{pi.eval(info, ce.Args[0], env)}
		case pi.shape != nil && f.Name() == "IsFixed" && len(ce.Args) == 0:
			if se, ok := ast.Unparen(ce.Fun).(*ast.SelectorExpr); ok {
				if recv := pi.eval(info, se.X, env); recv.k == pvAbs && recv.s == "dim" {
					return []pval{{k: pvBool, b: pi.shape.fixed}}
				}
			}
			return []pval{{}}
		case pi.shape != nil && f.Name() == "GetPrimitiveType" && len(ce.Args) == 1:
			if v := pi.eval(info, ce.Args[0], env); v.k == pvAbs && v.s == "keytype" {
				return []pval{{k: pvString, s: pi.shape.keyPrim}, {k: pvBool, b: pi.shape.keyPrim != ""}}
			}
			return []pval{{}, {}}
		case (f.Name() == "OldType" || f.Name() == "NewType") && len(ce.Args) == 0 && pi.oldPrim != "":
			if se, ok := ast.Unparen(ce.Fun).(*ast.SelectorExpr); ok {
				if recv := pi.eval(info, se.X, env); recv.k == pvNode && recv.s == "change" {
					return []pval{{k: pvType, s: strings.ToLower(strings.TrimSuffix(f.Name(), "Type"))}}
				}
			}
			return []pval{{}}
		case f.Name() == "Precedence":
			if se, ok := ast.Unparen(ce.Fun).(*ast.SelectorExpr); ok {
				recv := pi.eval(info, se.X, env)
				if recv.k == pvOp {
					if d := pi.c.Decl(f.Origin()); d != nil && d.Recv != nil && len(d.Recv.List) == 1 && len(d.Recv.List[0].Names) == 1 {
						dinfo := pi.c.DeclPkg(d).TypesInfo
						ne := &penv{vars: map[types.Object]pval{dinfo.Defs[d.Recv.List[0].Names[0]]: recv}}
						saved := pi.ret
						pi.ret = nil
						pi.exec(dinfo, d.Body.List, ne)
						r := pi.ret
						pi.ret = saved
						return r
					}
				}
			}
			pi.fail("Precedence() of an operator the evaluator does not know")
			return nil
		}
		// a function of the module with a body: evaluate it
		if core.InModule(f) {
			if d := pi.c.Decl(f.Origin()); d != nil && d.Body != nil {
				dinfo := pi.c.DeclPkg(d).TypesInfo
				var recvObj types.Object
				var recvVal pval
				if d.Recv != nil && len(d.Recv.List) == 1 && len(d.Recv.List[0].Names) == 1 {
					recvObj = dinfo.Defs[d.Recv.List[0].Names[0]]
					if se, ok := ast.Unparen(ce.Fun).(*ast.SelectorExpr); ok {
						recvVal = pi.eval(info, se.X, env)
					}
				}
				// only helpers that take part in the decision are followed: they get a node, an operator, a bool or a
				// function literal; anything else (identifier helpers, type syntax, ...) has no effect on the trace
				relevant := false
				for _, a := range ce.Args {
					if v := pi.eval(info, a, env); (v.k == pvNode && v.s != "change") || v.k == pvOp || v.k == pvAbs || (pi.shape != nil && v.k == pvString) || (v.k == pvType && (v.s == "int" || v.s == "other")) || (v.k == pvClosure && v.lit == nil) || (v.k == pvBool && len(ce.Args) > 1 && f.Pkg() != nil && !strings.HasSuffix(f.Pkg().Path(), "/pkg/dsl")) {
						relevant = true
					}
				}
				if recvVal.k == pvOp || recvVal.k == pvNode {
					relevant = true
				}
				// helpers about a primitive type (GetPrimitiveKind, GetPrimitiveWidth, IsSignedPrimitive) given a known one
				if sig, ok := f.Type().(*types.Signature); ok && sig.Params().Len() == len(ce.Args) {
					for i, a := range ce.Args {
						if nt := core.NamedOf(sig.Params().At(i).Type()); nt != nil && nt.Obj().Name() == "PrimitiveDefinition" {
							if v := pi.eval(info, a, env); v.k == pvString {
								relevant = true
							}
						}
						// a predicate over an enumeration of the model (PrimitiveKind, ...) given a known constant
						if nt := core.NamedOf(sig.Params().At(i).Type()); nt != nil && nt.Obj().Pkg() != nil && strings.HasSuffix(nt.Obj().Pkg().Path(), "/pkg/dsl") {
							if b, isBasic := nt.Underlying().(*types.Basic); isBasic && b.Info()&types.IsInteger != 0 {
								if v := pi.eval(info, a, env); v.k == pvInt || v.k == pvOp {
									relevant = true
								}
							}
						}
					}
				}
				if relevant {
					return pi.apply(dinfo, d.Type, d.Body, &penv{vars: map[types.Object]pval{}}, info, ce.Args, env, recvObj, recvVal)
				}
			}
		}
	}
	// an opaque call whose value is kept (`tail = tail.Append(func(next func()) {...})`): the value carries the literal,
	// which runs when the value is used
	if pi.wantValue {
		for _, a := range ce.Args {
			if fl, ok := ast.Unparen(a).(*ast.FuncLit); ok {
				return []pval{{k: pvClosure, lit: fl, env: env, info: info, s: "carried"}}
			}
			if id, ok := ast.Unparen(a).(*ast.Ident); ok {
				if v, ok := info.Uses[id].(*types.Var); ok {
					if cl, ok := env.get(v); ok && cl.k == pvClosure && cl.lit != nil {
						return []pval{cl}
					}
				}
			}
		}
		return nil
	}
	// an opaque call: function literals handed to it are run once, in order (w.Indented(func(){..}), tail.Run(func(){..}))
	for _, a := range ce.Args {
		if fl, ok := ast.Unparen(a).(*ast.FuncLit); ok {
			pi.apply(info, fl.Type, fl.Body, env, info, nil, env, nil, pval{})
		} else if id, ok := ast.Unparen(a).(*ast.Ident); ok {
			if v, ok := info.Uses[id].(*types.Var); ok {
				if cl, ok := env.get(v); ok && cl.k == pvClosure {
					pi.apply(cl.info, cl.lit.Type, cl.lit.Body, cl.env, info, nil, env, nil, pval{})
				}
			}
		}
	}
	return nil
}

// apply binds the parameters and evaluates a body; returns its results.
func (pi *pinterp) apply(finfo *types.Info, ft *ast.FuncType, body *ast.BlockStmt, defEnv *penv, ainfo *types.Info, args []ast.Expr, aenv *penv, recvObj types.Object, recvVal pval) []pval {
	ne := &penv{vars: map[types.Object]pval{}, parent: defEnv}
	if recvObj != nil {
		ne.vars[recvObj] = recvVal
	}
	i := 0
	if ft.Params != nil {
		for _, fld := range ft.Params.List {
			for _, nm := range fld.Names {
				if i < len(args) {
					ne.vars[finfo.Defs[nm]] = pi.eval(ainfo, args[i], aenv)
				} else {
					ne.vars[finfo.Defs[nm]] = pval{}
				}
				i++
			}
			if len(fld.Names) == 0 {
				i++
			}
		}
	}
	saved := pi.ret
	pi.ret = nil
	pi.exec(finfo, body.List, ne)
	r := pi.ret
	pi.ret = saved
	return r
}

func (pi *pinterp) exec(info *types.Info, list []ast.Stmt, env *penv) pctl {
	for _, st := range list {
		if pi.unknown != "" {
			return ctlReturn
		}
		switch s := st.(type) {
		case *ast.ExprStmt:
			if ce, ok := ast.Unparen(s.X).(*ast.CallExpr); ok {
				savedWV := pi.wantValue
				pi.wantValue = false
				rs := pi.call(info, ce, env)
				pi.wantValue = savedWV
				if len(rs) == 1 && rs[0].s == "panic" && rs[0].k == pvUnknown {
					return ctlReturn
				}
			}
		case *ast.AssignStmt:
			if len(s.Lhs) > 2 && len(s.Rhs) == 1 {
				if ce, ok := ast.Unparen(s.Rhs[0]).(*ast.CallExpr); ok {
					rs := pi.call(info, ce, env)
					for i, l := range s.Lhs {
						v := pval{}
						if i < len(rs) {
							v = rs[i]
						}
						pi.bind(info, l, v, env, s.Tok)
					}
					continue
				}
			}
			if len(s.Lhs) == 2 && len(s.Rhs) == 1 {
				if ta, ok := ast.Unparen(s.Rhs[0]).(*ast.TypeAssertExpr); ok {
					v := pi.eval(info, ta.X, env)
					okv := pval{}
					if v.k == pvNode && types.ExprString(ta.Type) == "*dsl.BinaryExpression" {
						okv = pval{k: pvBool, b: pi.opOf(v.s) != ""}
					}
					if m, known := pi.absIs(info, v, ta.Type); known {
						okv = pval{k: pvBool, b: m}
					}
					pi.bind(info, s.Lhs[0], v, env, s.Tok)
					pi.bind(info, s.Lhs[1], okv, env, s.Tok)
					continue
				}
				if ix, ok := ast.Unparen(s.Rhs[0]).(*ast.IndexExpr); ok {
					v := pi.eval(info, ix, env)
					okv := pval{}
					if base := pi.eval(info, ix.X, env); base.k == pvMap {
						if v.k == pvUnknown && v.s == "absent" {
							okv = pval{k: pvBool, b: false}
						} else if v.k != pvUnknown {
							okv = pval{k: pvBool, b: true}
						}
					}
					pi.bind(info, s.Lhs[0], v, env, s.Tok)
					pi.bind(info, s.Lhs[1], okv, env, s.Tok)
					continue
				}
				if ce, ok := ast.Unparen(s.Rhs[0]).(*ast.CallExpr); ok {
					rs := pi.call(info, ce, env)
					for i, l := range s.Lhs {
						v := pval{}
						if i < len(rs) {
							v = rs[i]
						}
						pi.bind(info, l, v, env, s.Tok)
					}
					continue
				}
			}
			if pi.typing {
				for _, l := range s.Lhs {
					if se, ok := ast.Unparen(l).(*ast.SelectorExpr); ok && se.Sel.Name == "ResolvedType" {
						if base := pi.eval(info, se.X, env); base.k == pvNode && base.s == "parent" {
							pi.events = append(pi.events, "typed")
						}
					}
				}
			}
			if len(s.Lhs) == len(s.Rhs) {
				vals := make([]pval, len(s.Rhs))
				for i, r := range s.Rhs {
					vals[i] = pi.eval(info, r, env)
					if s.Tok != token.ASSIGN && s.Tok != token.DEFINE {
						// x op= y
						cur := pi.eval(info, s.Lhs[i], env)
						nv := pval{}
						switch {
						case s.Tok == token.ADD_ASSIGN && cur.k == pvInt && vals[i].k == pvInt:
							nv = pval{k: pvInt, n: cur.n + vals[i].n}
						case s.Tok == token.SUB_ASSIGN && cur.k == pvInt && vals[i].k == pvInt:
							nv = pval{k: pvInt, n: cur.n - vals[i].n}
						case s.Tok == token.ADD_ASSIGN && cur.k == pvString && vals[i].k == pvString:
							nv = pval{k: pvString, s: cur.s + vals[i].s}
						}
						vals[i] = nv
					}
				}
				for i, l := range s.Lhs {
					pi.bind(info, l, vals[i], env, s.Tok)
				}
			}
		case *ast.DeclStmt:
			if gd, ok := s.Decl.(*ast.GenDecl); ok && gd.Tok == token.VAR {
				for _, sp := range gd.Specs {
					vs := sp.(*ast.ValueSpec)
					for i, nm := range vs.Names {
						v := pval{}
						if i < len(vs.Values) {
							v = pi.eval(info, vs.Values[i], env)
						} else if b, ok := info.TypeOf(nm).Underlying().(*types.Basic); ok && b.Kind() == types.Bool {
							v = pval{k: pvBool, b: false}
						}
						env.vars[info.Defs[nm]] = v
					}
				}
			}
		case *ast.IfStmt:
			scope := &penv{vars: map[types.Object]pval{}, parent: env}
			if s.Init != nil {
				if pi.exec(info, []ast.Stmt{s.Init}, scope) == ctlReturn {
					return ctlReturn
				}
			}
			cv := pi.eval(info, s.Cond, scope)
			if cv.k != pvBool {
				if pi.asked >= 6 {
					pi.fail("condition `" + types.ExprString(s.Cond) + "`")
					return ctlReturn
				}
				b := false
				if pi.asked < len(pi.choices) {
					b = pi.choices[pi.asked]
				}
				pi.asked++
				cv = pval{k: pvBool, b: b}
			}
			var ctl pctl
			if cv.b {
				ctl = pi.exec(info, s.Body.List, &penv{vars: map[types.Object]pval{}, parent: scope})
			} else if s.Else != nil {
				ctl = pi.exec(info, []ast.Stmt{s.Else}, scope)
			}
			if ctl != ctlNext {
				return ctl
			}
		case *ast.BlockStmt:
			if ctl := pi.exec(info, s.List, &penv{vars: map[types.Object]pval{}, parent: env}); ctl != ctlNext {
				return ctl
			}
		case *ast.SwitchStmt:
			scope := &penv{vars: map[types.Object]pval{}, parent: env}
			if s.Init != nil {
				pi.exec(info, []ast.Stmt{s.Init}, scope)
			}
			var tag pval
			if s.Tag != nil {
				tag = pi.eval(info, s.Tag, scope)
				if tag.k == pvUnknown {
					pi.fail("switch on `" + types.ExprString(s.Tag) + "`")
					return ctlReturn
				}
			}
			var chosen, dflt *ast.CaseClause
			for _, cl := range s.Body.List {
				cc := cl.(*ast.CaseClause)
				if cc.List == nil {
					dflt = cc
					continue
				}
				for _, e := range cc.List {
					v := pi.eval(info, e, scope)
					match := false
					if s.Tag == nil {
						if v.k != pvBool {
							pi.fail("case `" + types.ExprString(e) + "`")
							return ctlReturn
						}
						match = v.b
					} else {
						match = v.same(tag)
					}
					if match && chosen == nil {
						chosen = cc
					}
				}
			}
			if chosen == nil {
				chosen = dflt
			}
			if chosen != nil {
				ctl := pi.exec(info, chosen.Body, &penv{vars: map[types.Object]pval{}, parent: scope})
				if ctl == ctlReturn || ctl == ctlContinue {
					return ctl
				}
			}
		case *ast.ReturnStmt:
			var rs []pval
			for _, r := range s.Results {
				rs = append(rs, pi.eval(info, r, env))
			}
			pi.ret = rs
			return ctlReturn
		case *ast.BranchStmt:
			if s.Tok == token.BREAK && s.Label == nil {
				return ctlBreak
			}
			if s.Tok == token.CONTINUE && s.Label == nil {
				return ctlContinue
			}
			pi.fail("branch statement " + s.Tok.String())
			return ctlReturn
		case *ast.IncDecStmt:
			if cur := pi.eval(info, s.X, env); cur.k == pvInt {
				d := int64(1)
				if s.Tok == token.DEC {
					d = -1
				}
				pi.bind(info, s.X, pval{k: pvInt, n: cur.n + d}, env, token.ASSIGN)
			} else {
				pi.bind(info, s.X, pval{}, env, token.ASSIGN)
			}
		case *ast.RangeStmt:
			// only over a literal table of the package: its rows, in order
			coll := pi.eval(info, s.X, env)
			if coll.k != pvList && coll.k != pvMap {
				pi.fail("range over `" + types.ExprString(s.X) + "` inside the binary-expression case")
				return ctlReturn
			}
			for i := range coll.list {
				scope := &penv{vars: map[types.Object]pval{}, parent: env}
				kv := pval{k: pvInt, n: int64(i)}
				if coll.k == pvMap {
					kv = coll.keys[i]
				}
				if s.Key != nil {
					pi.bind(info, s.Key, kv, scope, s.Tok)
				}
				if s.Value != nil {
					pi.bind(info, s.Value, coll.list[i], scope, s.Tok)
				}
				ctl := pi.exec(info, s.Body.List, scope)
				if ctl == ctlReturn {
					return ctlReturn
				}
				if ctl == ctlBreak {
					break
				}
			}
		case *ast.ForStmt:
			scope := &penv{vars: map[types.Object]pval{}, parent: env}
			if s.Init != nil {
				if pi.exec(info, []ast.Stmt{s.Init}, scope) == ctlReturn {
					return ctlReturn
				}
			}
			for iter := 0; ; iter++ {
				if iter > 64 {
					pi.fail("loop without a bound the domain knows")
					return ctlReturn
				}
				if s.Cond != nil {
					cv := pi.eval(info, s.Cond, scope)
					if cv.k != pvBool {
						pi.fail("loop condition `" + types.ExprString(s.Cond) + "`")
						return ctlReturn
					}
					if !cv.b {
						break
					}
				}
				ctl := pi.exec(info, s.Body.List, &penv{vars: map[types.Object]pval{}, parent: scope})
				if ctl == ctlReturn {
					return ctlReturn
				}
				if ctl == ctlBreak {
					break
				}
				if s.Post != nil {
					pi.exec(info, []ast.Stmt{s.Post}, scope)
				}
			}
		case *ast.DeferStmt:
			// deferred emissions run at the end; the parenthesisation decision does not depend on them
		case *ast.TypeSwitchStmt:
			if pi.shape == nil {
				pi.fail("*ast.TypeSwitchStmt inside the evaluated clause")
				return ctlReturn
			}
			scope := &penv{vars: map[types.Object]pval{}, parent: env}
			if s.Init != nil {
				pi.exec(info, []ast.Stmt{s.Init}, scope)
			}
			var subj ast.Expr
			switch a := s.Assign.(type) {
			case *ast.AssignStmt:
				subj = a.Rhs[0].(*ast.TypeAssertExpr).X
			case *ast.ExprStmt:
				subj = a.X.(*ast.TypeAssertExpr).X
			}
			v := pi.eval(info, subj, scope)
			var chosen, dflt *ast.CaseClause
			for _, cl := range s.Body.List {
				cc := cl.(*ast.CaseClause)
				if cc.List == nil {
					dflt = cc
					continue
				}
				for _, e := range cc.List {
					m, known := pi.absIs(info, v, e)
					if !known {
						pi.fail("type switch on `" + types.ExprString(subj) + "`: case " + types.ExprString(e))
						return ctlReturn
					}
					if m && chosen == nil {
						chosen = cc
					}
				}
			}
			if chosen == nil {
				chosen = dflt
			}
			if chosen != nil {
				ce := &penv{vars: map[types.Object]pval{}, parent: scope}
				if o := info.Implicits[chosen]; o != nil {
					ce.vars[o] = v
				}
				ctl := pi.exec(info, chosen.Body, ce)
				if ctl == ctlReturn || ctl == ctlContinue {
					return ctl
				}
			}
		case *ast.SelectStmt, *ast.GoStmt:
			pi.fail(fmt.Sprintf("%T inside the binary-expression case", s))
			return ctlReturn
		}
	}
	return ctlNext
}

func (pi *pinterp) bind(info *types.Info, l ast.Expr, v pval, env *penv, tok token.Token) {
	id, ok := ast.Unparen(l).(*ast.Ident)
	if !ok || id.Name == "_" {
		return
	}
	if tok == token.DEFINE {
		if o := info.Defs[id]; o != nil {
			env.vars[o] = v
			return
		}
	}
	if o := info.ObjectOf(id); o != nil {
		env.set(o, v)
	}
}

// binaryCaseOf finds the `case *dsl.BinaryExpression:` clause of the emitter and the object bound by the type switch.
func binaryCaseOf(info *types.Info, d *ast.FuncDecl) (*ast.CaseClause, types.Object) {
	return caseOfKind(info, d, "*dsl.BinaryExpression")
}

func caseOfKind(info *types.Info, d *ast.FuncDecl, kind string) (*ast.CaseClause, types.Object) {
	var cc *ast.CaseClause
	var obj types.Object
	ast.Inspect(d.Body, func(n ast.Node) bool {
		ts, ok := n.(*ast.TypeSwitchStmt)
		if !ok || cc != nil {
			return true
		}
		for _, cl := range ts.Body.List {
			c := cl.(*ast.CaseClause)
			if len(c.List) == 1 && types.ExprString(c.List[0]) == kind {
				cc = c
				obj = info.Implicits[c]
			}
		}
		return true
	})
	return cc, obj
}

// parenDecisions evaluates the case for every shape; result: side -> shape -> parenthesised?, plus the first
// construct that could not be evaluated.
func parenDecisions(c *core.Ctx, info *types.Info, d *ast.FuncDecl, ops []string) (map[string]map[pscen]bool, string) {
	cc, obj := binaryCaseOf(info, d)
	if cc == nil {
		return nil, "case *dsl.BinaryExpression not found"
	}
	out := map[string]map[pscen]bool{"left": {}, "right": {}}
	operand := append([]string{""}, ops...)
	for _, p := range ops {
		for _, l := range operand {
			for _, r := range operand {
				scen := pscen{p, l, r}
				// every combination of outcomes of the conditions the domain does not decide
				var runs [][]bool
				var explore func(choices []bool) string
				explore = func(choices []bool) string {
					pi := &pinterp{c: c, scen: scen, choices: choices}
					env := &penv{vars: map[types.Object]pval{}}
					if obj != nil {
						env.vars[obj] = pval{k: pvNode, s: "parent"}
					}
					pi.exec(info, cc.Body, env)
					if pi.unknown != "" {
						return pi.unknown
					}
					if pi.asked > len(choices) {
						for _, b := range []bool{false, true} {
							if u := explore(append(append([]bool(nil), choices...), b)); u != "" {
								return u
							}
						}
						return ""
					}
					runs = append(runs, choices)
					for _, side := range []string{"left", "right"} {
						seen := false
						for i, ev := range pi.events {
							if ev == "visit:"+side {
								seen = true
								par := i > 0 && strings.HasPrefix(pi.events[i-1], "emit:") && strings.TrimSpace(strings.TrimPrefix(pi.events[i-1], "emit:")) == "("
								if prev, had := out[side][scen]; had {
									out[side][scen] = prev && par
								} else {
									out[side][scen] = par
								}
							}
						}
						if !seen {
							return fmt.Sprintf("no Visit of the %s operand for parent %s, left %q, right %q (trace %v)", side, p, l, r, pi.events)
						}
					}
					return ""
				}
				if u := explore(nil); u != "" {
					return nil, u
				}
			}
		}
	}
	return out, ""
}

// tokenDecisions evaluates the binary-expression case with plain (non-binary) operands for every operator and for an
// integer / non-integer resolved type, and returns the text printed for the operator: what is emitted between the
// visits of the two operands, or — when that is only a separator (`std::pow(l, r)`) — what is emitted before the left one.
func tokenDecisions(c *core.Ctx, info *types.Info, d *ast.FuncDecl, ops []string) (map[string]map[string]string, string) {
	cc, obj := binaryCaseOf(info, d)
	if cc == nil {
		return nil, "case *dsl.BinaryExpression not found"
	}
	out := map[string]map[string]string{}
	for _, op := range ops {
		out[op] = map[string]string{}
		for _, cls := range []string{"int", "other"} {
			var toks []string
			var explore func(choices []bool) string
			explore = func(choices []bool) string {
				pi := &pinterp{c: c, scen: pscen{op, "", ""}, choices: choices, resultKind: cls}
				env := &penv{vars: map[types.Object]pval{}}
				if obj != nil {
					env.vars[obj] = pval{k: pvNode, s: "parent"}
				}
				pi.exec(info, cc.Body, env)
				if pi.unknown != "" {
					return pi.unknown
				}
				if pi.asked > len(choices) {
					for _, b := range []bool{false, true} {
						if u := explore(append(append([]bool(nil), choices...), b)); u != "" {
							return u
						}
					}
					return ""
				}
				for _, ev := range pi.events {
					if ev == "panic" {
						toks = append(toks, "<panic>") // the emitter aborts for this operator
						return ""
					}
				}
				li, ri := -1, -1
				for i, ev := range pi.events {
					if ev == "visit:left" && li < 0 {
						li = i
					}
					if ev == "visit:right" && ri < 0 {
						ri = i
					}
				}
				if li < 0 || ri < 0 || ri < li {
					return fmt.Sprintf("operands of %s are not visited left then right (trace %v)", op, pi.events)
				}
				text := func(from, to int) string {
					var sb strings.Builder
					for _, ev := range pi.events[from:to] {
						if strings.HasPrefix(ev, "emit:") {
							sb.WriteString(strings.TrimPrefix(ev, "emit:"))
						}
					}
					return strings.TrimSpace(sb.String())
				}
				between := strings.TrimSpace(strings.Trim(text(li+1, ri), "()"))
				if between == "" || between == "," {
					between = strings.TrimSpace(strings.TrimLeft(text(0, li), "("))
					if between == "" {
						between = text(0, li)
					}
				}
				toks = append(toks, between)
				return ""
			}
			if u := explore(nil); u != "" {
				return nil, u
			}
			toks = uniq(toks)
			if len(toks) != 1 {
				return nil, fmt.Sprintf("the text printed for %s depends on a condition the domain does not decide: %v", op, toks)
			}
			out[op][cls] = toks[0]
		}
	}
	return out, ""
}

// conversionWrapped evaluates the `case *dsl.TypeConversionExpression:` clause on every combination of the conditions
// the domain does not decide: does each path print `<something>(` in front of the operand and `)` behind it?
// Returns (decided, wrapped on every path, the path that is not).
func conversionWrapped(c *core.Ctx, info *types.Info, d *ast.FuncDecl) (bool, bool, string) {
	cc, obj := caseOfKind(info, d, "*dsl.TypeConversionExpression")
	if cc == nil {
		return false, false, ""
	}
	all := true
	witness := ""
	runs := 0
	var explore func(choices []bool) bool
	explore = func(choices []bool) bool {
		pi := &pinterp{c: c, choices: choices}
		env := &penv{vars: map[types.Object]pval{}}
		if obj != nil {
			env.vars[obj] = pval{k: pvNode, s: "parent"}
		}
		pi.exec(info, cc.Body, env)
		if pi.unknown != "" {
			return false
		}
		if pi.asked > len(choices) {
			for _, b := range []bool{false, true} {
				if !explore(append(append([]bool(nil), choices...), b)) {
					return false
				}
			}
			return true
		}
		runs++
		at := -1
		for i, ev := range pi.events {
			if ev == "visit:operand" {
				at = i
			}
			if ev == "panic" {
				return true // an abort is not a path that prints the operand bare
			}
		}
		if at < 0 {
			all = false
			witness = fmt.Sprintf("the operand is not printed (trace %v)", pi.events)
			return true
		}
		before, after := "", ""
		for _, ev := range pi.events[:at] {
			if strings.HasPrefix(ev, "emit:") {
				before += strings.TrimPrefix(ev, "emit:")
			}
		}
		for _, ev := range pi.events[at+1:] {
			if strings.HasPrefix(ev, "emit:") {
				after += strings.TrimPrefix(ev, "emit:")
			}
		}
		b := strings.TrimSpace(before)
		if !(strings.HasSuffix(b, "(") && len(b) > 1 && strings.Contains(after, ")")) {
			all = false
			witness = fmt.Sprintf("prints `%s` <operand> `%s`", before, after)
		}
		return true
	}
	if !explore(nil) || runs == 0 {
		return false, false, ""
	}
	return true, all, witness
}

// kindDecisions evaluates a function of one dsl.Type parameter that returns a bit mask (ndjsoncommon.GetJsonDataType)
// for one abstract type shape; every combination of the conditions outside the domain is explored and the masks are
// or-ed. Returns (mask, decided, why not).
func kindDecisions(c *core.Ctx, info *types.Info, d *ast.FuncDecl, sh tshape) (int64, bool, string) {
	params := paramObjs(info, d)
	if len(params) != 1 || params[0] == nil {
		return 0, false, "expected one parameter"
	}
	var mask int64
	runs := 0
	why := ""
	var explore func(choices []bool) bool
	explore = func(choices []bool) bool {
		shc := sh
		pi := &pinterp{c: c, choices: choices, shape: &shc}
		env := &penv{vars: map[types.Object]pval{params[0]: {k: pvAbs, s: "type"}}}
		pi.exec(info, d.Body.List, env)
		if pi.unknown != "" {
			why = pi.unknown
			return false
		}
		if pi.asked > len(choices) {
			for _, b := range []bool{false, true} {
				if !explore(append(append([]bool(nil), choices...), b)) {
					return false
				}
			}
			return true
		}
		for _, ev := range pi.events {
			if ev == "panic" {
				return true // the function aborts for this shape: no kinds
			}
		}
		if len(pi.ret) != 1 || pi.ret[0].k != pvInt {
			why = "the result is not a constant mask"
			return false
		}
		mask |= pi.ret[0].n
		runs++
		return true
	}
	if !explore(nil) {
		return 0, false, why
	}
	if runs == 0 {
		return 0, true, ""
	}
	return mask, true, ""
}

// emptyDimensionsRejected evaluates a statement list that handles a *dsl.Array (bound to obj) for the abstract array whose
// Dimensions is present and empty: is an error reported on every path? (decided, reported)
func emptyDimensionsRejected(c *core.Ctx, info *types.Info, body []ast.Stmt, obj types.Object) (bool, bool) {
	all := true
	runs := 0
	var explore func(choices []bool) bool
	explore = func(choices []bool) bool {
		pi := &pinterp{c: c, choices: choices}
		env := &penv{vars: map[types.Object]pval{}}
		if obj != nil {
			env.vars[obj] = pval{k: pvNode, s: "array"}
		}
		pi.exec(info, body, env)
		if pi.unknown != "" {
			return false
		}
		if pi.asked > len(choices) {
			for _, b := range []bool{false, true} {
				if !explore(append(append([]bool(nil), choices...), b)) {
					return false
				}
			}
			return true
		}
		runs++
		reported := false
		for _, ev := range pi.events {
			if ev == "error" {
				reported = true
			}
		}
		if !reported {
			all = false
		}
		return true
	}
	if !explore(nil) || runs == 0 {
		return false, false
	}
	return true, all
}

func sortedScen(m map[pscen]bool) []pscen {
	var ks []pscen
	for k := range m {
		ks = append(ks, k)
	}
	sort.Slice(ks, func(i, j int) bool {
		a, b := ks[i], ks[j]
		if a.parent != b.parent {
			return a.parent < b.parent
		}
		if a.left != b.left {
			return a.left < b.left
		}
		return a.right < b.right
	})
	return ks
}
