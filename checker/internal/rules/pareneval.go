package rules

import (
	"fmt"
	"go/ast"
	"go/constant"
	"go/token"
	"go/types"
	"sort"
	"strings"

	"verif/checker/internal/core"
)

// Finite-domain evaluation of the *dsl.BinaryExpression case of an expression emitter (rule X3).
//
// The operands of a binary expression are abstracted to "not a binary expression" or "a binary expression
// with operator k"; with the parent's operator that is a domain of 5 x 6 x 6 shapes. For each shape the
// statements of the case are evaluated over that domain — boolean locals, comma-ok type assertions on the
// operands, comparisons of Operator.Precedence(), tests of the operator, switches on it, helper functions
// and closures of the package, literals handed to wrapper calls — and the order of the emissions and of the
// Visit calls is recorded. Nothing of the repository is executed: the evaluator reads the type-checked AST,
// and anything outside this small fragment makes the obligation undecided.

type pvKind int

const (
	pvUnknown pvKind = iota
	pvBool
	pvInt
	pvOp
	pvNode    // a dsl.Expression: role parent | left | right
	pvClosure // function literal with its environment
	pvString
)

type pval struct {
	k    pvKind
	b    bool
	n    int64
	s    string // operator name, role, or string value
	lit  *ast.FuncLit
	env  *penv
	info *types.Info
}

type penv struct {
	vars   map[types.Object]pval
	parent *penv
}

func (e *penv) get(o types.Object) (pval, bool) {
	for cur := e; cur != nil; cur = cur.parent {
		if v, ok := cur.vars[o]; ok {
			return v, true
		}
	}
	return pval{}, false
}

func (e *penv) set(o types.Object, v pval) {
	for cur := e; cur != nil; cur = cur.parent {
		if _, ok := cur.vars[o]; ok {
			cur.vars[o] = v
			return
		}
	}
	e.vars[o] = v
}

type pscen struct {
	parent, left, right string // operator constant names; "" = operand is not a binary expression
}

type pctl int

const (
	ctlNext pctl = iota
	ctlReturn
	ctlBreak
)

type pinterp struct {
	c       *core.Ctx
	scen    pscen
	events  []string
	unknown string // first construct the evaluator could not decide
	depth   int
	ret     []pval
	// conditions outside the domain (e.g. a test on the resolved type that selects between two tokens) are explored
	// both ways: choices[i] is the outcome taken for the i-th such condition of this run
	choices []bool
	asked   int
}

func (pi *pinterp) fail(what string) {
	if pi.unknown == "" {
		pi.unknown = what
	}
}

func (pi *pinterp) opOf(role string) string {
	switch role {
	case "parent":
		return pi.scen.parent
	case "left":
		return pi.scen.left
	case "right":
		return pi.scen.right
	}
	return ""
}

func (pi *pinterp) eval(info *types.Info, e ast.Expr, env *penv) pval {
	switch x := ast.Unparen(e).(type) {
	case *ast.BasicLit:
		if tv, ok := info.Types[x]; ok && tv.Value != nil {
			switch tv.Value.Kind() {
			case constant.Int:
				n, _ := constant.Int64Val(tv.Value)
				return pval{k: pvInt, n: n}
			case constant.String:
				return pval{k: pvString, s: constant.StringVal(tv.Value)}
			}
		}
	case *ast.Ident:
		switch o := info.Uses[x].(type) {
		case *types.Const:
			if x.Name == "true" || x.Name == "false" {
				return pval{k: pvBool, b: x.Name == "true"}
			}
			if nt := core.NamedOf(o.Type()); nt != nil && nt.Obj().Name() == "BinaryOperator" {
				return pval{k: pvOp, s: o.Name()}
			}
			if o.Val().Kind() == constant.Int {
				n, _ := constant.Int64Val(o.Val())
				return pval{k: pvInt, n: n}
			}
			if o.Val().Kind() == constant.Bool {
				return pval{k: pvBool, b: constant.BoolVal(o.Val())}
			}
		case *types.Var:
			if v, ok := env.get(o); ok {
				return v
			}
		case *types.Nil:
			return pval{}
		}
		if o := info.Defs[x]; o != nil {
			if v, ok := env.get(o); ok {
				return v
			}
		}
	case *ast.SelectorExpr:
		// package-qualified constant
		if o, ok := info.Uses[x.Sel].(*types.Const); ok {
			if nt := core.NamedOf(o.Type()); nt != nil && nt.Obj().Name() == "BinaryOperator" {
				return pval{k: pvOp, s: o.Name()}
			}
			if o.Val().Kind() == constant.Int {
				n, _ := constant.Int64Val(o.Val())
				return pval{k: pvInt, n: n}
			}
		}
		base := pi.eval(info, x.X, env)
		if base.k == pvNode {
			switch x.Sel.Name {
			case "Left", "Right":
				if base.s == "parent" {
					return pval{k: pvNode, s: strings.ToLower(x.Sel.Name)}
				}
			case "Operator":
				if op := pi.opOf(base.s); op != "" {
					return pval{k: pvOp, s: op}
				}
			}
		}
	case *ast.UnaryExpr:
		if x.Op == token.NOT {
			v := pi.eval(info, x.X, env)
			if v.k == pvBool {
				return pval{k: pvBool, b: !v.b}
			}
		}
	case *ast.BinaryExpr:
		switch x.Op {
		case token.LAND:
			l := pi.eval(info, x.X, env)
			if l.k == pvBool && !l.b {
				return l
			}
			r := pi.eval(info, x.Y, env)
			if l.k == pvBool && r.k == pvBool {
				return pval{k: pvBool, b: l.b && r.b}
			}
			if r.k == pvBool && !r.b {
				return r
			}
			return pval{}
		case token.LOR:
			l := pi.eval(info, x.X, env)
			if l.k == pvBool && l.b {
				return l
			}
			r := pi.eval(info, x.Y, env)
			if l.k == pvBool && r.k == pvBool {
				return pval{k: pvBool, b: l.b || r.b}
			}
			if r.k == pvBool && r.b {
				return r
			}
			return pval{}
		}
		l, r := pi.eval(info, x.X, env), pi.eval(info, x.Y, env)
		if l.k == pvInt && r.k == pvInt {
			switch x.Op {
			case token.LSS:
				return pval{k: pvBool, b: l.n < r.n}
			case token.LEQ:
				return pval{k: pvBool, b: l.n <= r.n}
			case token.GTR:
				return pval{k: pvBool, b: l.n > r.n}
			case token.GEQ:
				return pval{k: pvBool, b: l.n >= r.n}
			case token.EQL:
				return pval{k: pvBool, b: l.n == r.n}
			case token.NEQ:
				return pval{k: pvBool, b: l.n != r.n}
			case token.ADD:
				return pval{k: pvInt, n: l.n + r.n}
			case token.SUB:
				return pval{k: pvInt, n: l.n - r.n}
			}
		}
		if l.k == pvOp && r.k == pvOp {
			switch x.Op {
			case token.EQL:
				return pval{k: pvBool, b: l.s == r.s}
			case token.NEQ:
				return pval{k: pvBool, b: l.s != r.s}
			}
		}
		if l.k == pvBool && r.k == pvBool {
			switch x.Op {
			case token.EQL:
				return pval{k: pvBool, b: l.b == r.b}
			case token.NEQ:
				return pval{k: pvBool, b: l.b != r.b}
			}
		}
	case *ast.FuncLit:
		return pval{k: pvClosure, lit: x, env: env, info: info}
	case *ast.CallExpr:
		rs := pi.call(info, x, env)
		if len(rs) > 0 {
			return rs[0]
		}
	case *ast.TypeAssertExpr:
		return pi.eval(info, x.X, env)
	}
	return pval{}
}

// call evaluates a call and returns its results (possibly unknown).
func (pi *pinterp) call(info *types.Info, ce *ast.CallExpr, env *penv) []pval {
	pi.depth++
	defer func() { pi.depth-- }()
	if pi.depth > 12 {
		pi.fail("call depth")
		return nil
	}
	// closure held in a local
	if id, ok := ast.Unparen(ce.Fun).(*ast.Ident); ok {
		if v, ok := info.Uses[id].(*types.Var); ok {
			if cl, ok := env.get(v); ok && cl.k == pvClosure {
				return pi.apply(cl.info, cl.lit.Type, cl.lit.Body, cl.env, info, ce.Args, env, nil, pval{})
			}
		}
		if id.Name == "panic" {
			if _, isB := info.Uses[id].(*types.Builtin); isB {
				pi.events = append(pi.events, "panic")
				pi.ret = nil
				return []pval{{k: pvUnknown, s: "panic"}}
			}
		}
	}
	if fl, ok := ast.Unparen(ce.Fun).(*ast.FuncLit); ok {
		return pi.apply(info, fl.Type, fl.Body, env, info, ce.Args, env, nil, pval{})
	}
	f := core.Callee(info, ce)
	if f != nil {
		full := core.FullName(f)
		switch {
		case f.Name() == "Visit" && f.Pkg() != nil && strings.HasSuffix(f.Pkg().Path(), "/pkg/dsl") && len(ce.Args) >= 1:
			v := pi.eval(info, ce.Args[0], env)
			role := "?"
			if v.k == pvNode {
				role = v.s
			}
			pi.events = append(pi.events, "visit:"+role)
			return nil
		case strings.HasSuffix(full, ".WriteString") || strings.HasSuffix(full, ".WriteStringln") || full == "fmt.Fprintf" || full == "fmt.Fprint" || full == "fmt.Fprintln" || strings.HasSuffix(full, "IndentedWriter).Write"):
			txt := "?"
			for _, a := range ce.Args {
				if v := pi.eval(info, a, env); v.k == pvString {
					txt = v.s
					break
				}
				if tv, ok := info.Types[a]; ok && tv.Value != nil && tv.Value.Kind() == constant.String {
					txt = constant.StringVal(tv.Value)
					break
				}
			}
			pi.events = append(pi.events, "emit:"+txt)
			return nil
		case f.Name() == "Precedence":
			if se, ok := ast.Unparen(ce.Fun).(*ast.SelectorExpr); ok {
				recv := pi.eval(info, se.X, env)
				if recv.k == pvOp {
					if d := pi.c.Decl(f.Origin()); d != nil && d.Recv != nil && len(d.Recv.List) == 1 && len(d.Recv.List[0].Names) == 1 {
						dinfo := pi.c.DeclPkg(d).TypesInfo
						ne := &penv{vars: map[types.Object]pval{dinfo.Defs[d.Recv.List[0].Names[0]]: recv}}
						saved := pi.ret
						pi.ret = nil
						pi.exec(dinfo, d.Body.List, ne)
						r := pi.ret
						pi.ret = saved
						return r
					}
				}
			}
			pi.fail("Precedence() of an operator the evaluator does not know")
			return nil
		}
		// a function of the module with a body: evaluate it
		if core.InModule(f) {
			if d := pi.c.Decl(f.Origin()); d != nil && d.Body != nil {
				dinfo := pi.c.DeclPkg(d).TypesInfo
				var recvObj types.Object
				var recvVal pval
				if d.Recv != nil && len(d.Recv.List) == 1 && len(d.Recv.List[0].Names) == 1 {
					recvObj = dinfo.Defs[d.Recv.List[0].Names[0]]
					if se, ok := ast.Unparen(ce.Fun).(*ast.SelectorExpr); ok {
						recvVal = pi.eval(info, se.X, env)
					}
				}
				// only helpers that take part in the decision are followed: they get a node, an operator, a bool or a
				// function literal; anything else (identifier helpers, type syntax, ...) has no effect on the trace
				relevant := false
				for _, a := range ce.Args {
					if v := pi.eval(info, a, env); v.k == pvNode || v.k == pvOp || (v.k == pvBool && len(ce.Args) > 1) {
						relevant = true
					}
				}
				if recvVal.k == pvOp || recvVal.k == pvNode {
					relevant = true
				}
				if relevant {
					return pi.apply(dinfo, d.Type, d.Body, &penv{vars: map[types.Object]pval{}}, info, ce.Args, env, recvObj, recvVal)
				}
			}
		}
	}
	// an opaque call: function literals handed to it are run once, in order (w.Indented(func(){..}), tail.Run(func(){..}))
	for _, a := range ce.Args {
		if fl, ok := ast.Unparen(a).(*ast.FuncLit); ok {
			pi.apply(info, fl.Type, fl.Body, env, info, nil, env, nil, pval{})
		} else if id, ok := ast.Unparen(a).(*ast.Ident); ok {
			if v, ok := info.Uses[id].(*types.Var); ok {
				if cl, ok := env.get(v); ok && cl.k == pvClosure {
					pi.apply(cl.info, cl.lit.Type, cl.lit.Body, cl.env, info, nil, env, nil, pval{})
				}
			}
		}
	}
	return nil
}

// apply binds the parameters and evaluates a body; returns its results.
func (pi *pinterp) apply(finfo *types.Info, ft *ast.FuncType, body *ast.BlockStmt, defEnv *penv, ainfo *types.Info, args []ast.Expr, aenv *penv, recvObj types.Object, recvVal pval) []pval {
	ne := &penv{vars: map[types.Object]pval{}, parent: defEnv}
	if recvObj != nil {
		ne.vars[recvObj] = recvVal
	}
	i := 0
	if ft.Params != nil {
		for _, fld := range ft.Params.List {
			for _, nm := range fld.Names {
				if i < len(args) {
					ne.vars[finfo.Defs[nm]] = pi.eval(ainfo, args[i], aenv)
				} else {
					ne.vars[finfo.Defs[nm]] = pval{}
				}
				i++
			}
			if len(fld.Names) == 0 {
				i++
			}
		}
	}
	saved := pi.ret
	pi.ret = nil
	pi.exec(finfo, body.List, ne)
	r := pi.ret
	pi.ret = saved
	return r
}

func (pi *pinterp) exec(info *types.Info, list []ast.Stmt, env *penv) pctl {
	for _, st := range list {
		if pi.unknown != "" {
			return ctlReturn
		}
		switch s := st.(type) {
		case *ast.ExprStmt:
			if ce, ok := ast.Unparen(s.X).(*ast.CallExpr); ok {
				rs := pi.call(info, ce, env)
				if len(rs) == 1 && rs[0].s == "panic" && rs[0].k == pvUnknown {
					return ctlReturn
				}
			}
		case *ast.AssignStmt:
			if len(s.Lhs) == 2 && len(s.Rhs) == 1 {
				if ta, ok := ast.Unparen(s.Rhs[0]).(*ast.TypeAssertExpr); ok {
					v := pi.eval(info, ta.X, env)
					okv := pval{}
					if v.k == pvNode && types.ExprString(ta.Type) == "*dsl.BinaryExpression" {
						okv = pval{k: pvBool, b: pi.opOf(v.s) != ""}
					}
					pi.bind(info, s.Lhs[0], v, env, s.Tok)
					pi.bind(info, s.Lhs[1], okv, env, s.Tok)
					continue
				}
				if ce, ok := ast.Unparen(s.Rhs[0]).(*ast.CallExpr); ok {
					rs := pi.call(info, ce, env)
					for i, l := range s.Lhs {
						v := pval{}
						if i < len(rs) {
							v = rs[i]
						}
						pi.bind(info, l, v, env, s.Tok)
					}
					continue
				}
			}
			if len(s.Lhs) == len(s.Rhs) {
				vals := make([]pval, len(s.Rhs))
				for i, r := range s.Rhs {
					vals[i] = pi.eval(info, r, env)
				}
				for i, l := range s.Lhs {
					pi.bind(info, l, vals[i], env, s.Tok)
				}
			}
		case *ast.DeclStmt:
			if gd, ok := s.Decl.(*ast.GenDecl); ok && gd.Tok == token.VAR {
				for _, sp := range gd.Specs {
					vs := sp.(*ast.ValueSpec)
					for i, nm := range vs.Names {
						v := pval{}
						if i < len(vs.Values) {
							v = pi.eval(info, vs.Values[i], env)
						} else if b, ok := info.TypeOf(nm).Underlying().(*types.Basic); ok && b.Kind() == types.Bool {
							v = pval{k: pvBool, b: false}
						}
						env.vars[info.Defs[nm]] = v
					}
				}
			}
		case *ast.IfStmt:
			scope := &penv{vars: map[types.Object]pval{}, parent: env}
			if s.Init != nil {
				if pi.exec(info, []ast.Stmt{s.Init}, scope) == ctlReturn {
					return ctlReturn
				}
			}
			cv := pi.eval(info, s.Cond, scope)
			if cv.k != pvBool {
				if pi.asked >= 6 {
					pi.fail("condition `" + types.ExprString(s.Cond) + "`")
					return ctlReturn
				}
				b := false
				if pi.asked < len(pi.choices) {
					b = pi.choices[pi.asked]
				}
				pi.asked++
				cv = pval{k: pvBool, b: b}
			}
			var ctl pctl
			if cv.b {
				ctl = pi.exec(info, s.Body.List, &penv{vars: map[types.Object]pval{}, parent: scope})
			} else if s.Else != nil {
				ctl = pi.exec(info, []ast.Stmt{s.Else}, scope)
			}
			if ctl != ctlNext {
				return ctl
			}
		case *ast.BlockStmt:
			if ctl := pi.exec(info, s.List, &penv{vars: map[types.Object]pval{}, parent: env}); ctl != ctlNext {
				return ctl
			}
		case *ast.SwitchStmt:
			scope := &penv{vars: map[types.Object]pval{}, parent: env}
			if s.Init != nil {
				pi.exec(info, []ast.Stmt{s.Init}, scope)
			}
			var tag pval
			if s.Tag != nil {
				tag = pi.eval(info, s.Tag, scope)
				if tag.k == pvUnknown {
					pi.fail("switch on `" + types.ExprString(s.Tag) + "`")
					return ctlReturn
				}
			}
			var chosen, dflt *ast.CaseClause
			for _, cl := range s.Body.List {
				cc := cl.(*ast.CaseClause)
				if cc.List == nil {
					dflt = cc
					continue
				}
				for _, e := range cc.List {
					v := pi.eval(info, e, scope)
					match := false
					if s.Tag == nil {
						if v.k != pvBool {
							pi.fail("case `" + types.ExprString(e) + "`")
							return ctlReturn
						}
						match = v.b
					} else {
						match = v.k == tag.k && v.s == tag.s && v.n == tag.n && v.b == tag.b
					}
					if match && chosen == nil {
						chosen = cc
					}
				}
			}
			if chosen == nil {
				chosen = dflt
			}
			if chosen != nil {
				ctl := pi.exec(info, chosen.Body, &penv{vars: map[types.Object]pval{}, parent: scope})
				if ctl == ctlReturn {
					return ctlReturn
				}
			}
		case *ast.ReturnStmt:
			var rs []pval
			for _, r := range s.Results {
				rs = append(rs, pi.eval(info, r, env))
			}
			pi.ret = rs
			return ctlReturn
		case *ast.BranchStmt:
			if s.Tok == token.BREAK {
				return ctlBreak
			}
			pi.fail("branch statement " + s.Tok.String())
			return ctlReturn
		case *ast.DeferStmt:
			// deferred emissions run at the end; the parenthesisation decision does not depend on them
		case *ast.ForStmt, *ast.RangeStmt, *ast.TypeSwitchStmt, *ast.SelectStmt, *ast.GoStmt:
			pi.fail(fmt.Sprintf("%T inside the binary-expression case", s))
			return ctlReturn
		}
	}
	return ctlNext
}

func (pi *pinterp) bind(info *types.Info, l ast.Expr, v pval, env *penv, tok token.Token) {
	id, ok := ast.Unparen(l).(*ast.Ident)
	if !ok || id.Name == "_" {
		return
	}
	if tok == token.DEFINE {
		if o := info.Defs[id]; o != nil {
			env.vars[o] = v
			return
		}
	}
	if o := info.ObjectOf(id); o != nil {
		env.set(o, v)
	}
}

// binaryCaseOf finds the `case *dsl.BinaryExpression:` clause of the emitter and the object bound by the type switch.
func binaryCaseOf(info *types.Info, d *ast.FuncDecl) (*ast.CaseClause, types.Object) {
	var cc *ast.CaseClause
	var obj types.Object
	ast.Inspect(d.Body, func(n ast.Node) bool {
		ts, ok := n.(*ast.TypeSwitchStmt)
		if !ok || cc != nil {
			return true
		}
		for _, cl := range ts.Body.List {
			c := cl.(*ast.CaseClause)
			if len(c.List) == 1 && types.ExprString(c.List[0]) == "*dsl.BinaryExpression" {
				cc = c
				obj = info.Implicits[c]
			}
		}
		return true
	})
	return cc, obj
}

// parenDecisions evaluates the case for every shape; result: side -> shape -> parenthesised?, plus the first
// construct that could not be evaluated.
func parenDecisions(c *core.Ctx, info *types.Info, d *ast.FuncDecl, ops []string) (map[string]map[pscen]bool, string) {
	cc, obj := binaryCaseOf(info, d)
	if cc == nil {
		return nil, "case *dsl.BinaryExpression not found"
	}
	out := map[string]map[pscen]bool{"left": {}, "right": {}}
	operand := append([]string{""}, ops...)
	for _, p := range ops {
		for _, l := range operand {
			for _, r := range operand {
				scen := pscen{p, l, r}
				// every combination of outcomes of the conditions the domain does not decide
				var runs [][]bool
				var explore func(choices []bool) string
				explore = func(choices []bool) string {
					pi := &pinterp{c: c, scen: scen, choices: choices}
					env := &penv{vars: map[types.Object]pval{}}
					if obj != nil {
						env.vars[obj] = pval{k: pvNode, s: "parent"}
					}
					pi.exec(info, cc.Body, env)
					if pi.unknown != "" {
						return pi.unknown
					}
					if pi.asked > len(choices) {
						for _, b := range []bool{false, true} {
							if u := explore(append(append([]bool(nil), choices...), b)); u != "" {
								return u
							}
						}
						return ""
					}
					runs = append(runs, choices)
					for _, side := range []string{"left", "right"} {
						seen := false
						for i, ev := range pi.events {
							if ev == "visit:"+side {
								seen = true
								par := i > 0 && strings.HasPrefix(pi.events[i-1], "emit:") && strings.TrimSpace(strings.TrimPrefix(pi.events[i-1], "emit:")) == "("
								if prev, had := out[side][scen]; had {
									out[side][scen] = prev && par
								} else {
									out[side][scen] = par
								}
							}
						}
						if !seen {
							return fmt.Sprintf("no Visit of the %s operand for parent %s, left %q, right %q (trace %v)", side, p, l, r, pi.events)
						}
					}
					return ""
				}
				if u := explore(nil); u != "" {
					return nil, u
				}
			}
		}
	}
	return out, ""
}

func sortedScen(m map[pscen]bool) []pscen {
	var ks []pscen
	for k := range m {
		ks = append(ks, k)
	}
	sort.Slice(ks, func(i, j int) bool {
		a, b := ks[i], ks[j]
		if a.parent != b.parent {
			return a.parent < b.parent
		}
		if a.left != b.left {
			return a.left < b.left
		}
		return a.right < b.right
	})
	return ks
}
