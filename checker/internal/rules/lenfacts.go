package rules

import (
	"fmt"
	"go/ast"
	"go/constant"
	"go/token"
	"go/types"
	"regexp"
	"strings"

	"golang.org/x/tools/go/cfg"

	"verif/checker/internal/core"
)

// Length facts: a small forward dataflow over go/cfg that tracks, per slice expression
// (root variable object + selector path), an interval for len() plus excluded values.
// Facts come from comparisons of len(S) with constants on branch edges, from boolean
// helper methods whose body is a pure predicate over len(receiver) (summaries derived
// from the method body on every run), and from short-circuit operators.

const lenInf = 1 << 30

type lenIv struct {
	lo, hi int
	excl   map[int]bool
}

func topIv() lenIv { return lenIv{0, lenInf, nil} }

func (a lenIv) meet(b lenIv) lenIv { // both hold
	r := lenIv{max(a.lo, b.lo), min(a.hi, b.hi), map[int]bool{}}
	for k := range a.excl {
		r.excl[k] = true
	}
	for k := range b.excl {
		r.excl[k] = true
	}
	return r.norm()
}

func (a lenIv) join(b lenIv) lenIv { // either holds
	r := lenIv{min(a.lo, b.lo), max(a.hi, b.hi), map[int]bool{}}
	for k := range a.excl {
		if b.excl[k] || k < b.lo || k > b.hi {
			r.excl[k] = true
		}
	}
	for k := range b.excl {
		if k < a.lo || k > a.hi {
			r.excl[k] = true
		}
	}
	return r.norm()
}

func (a lenIv) norm() lenIv {
	for a.lo <= a.hi && a.excl[a.lo] {
		a.lo++
	}
	for a.hi >= a.lo && a.hi < lenInf && a.excl[a.hi] {
		a.hi--
	}
	return a
}

func (a lenIv) isTop() bool { return a.lo <= 0 && a.hi >= lenInf && len(a.excl) == 0 }
func (a lenIv) eq(b lenIv) bool {
	if a.lo != b.lo || a.hi != b.hi || len(a.excl) != len(b.excl) {
		return false
	}
	for k := range a.excl {
		if !b.excl[k] {
			return false
		}
	}
	return true
}
func (a lenIv) String() string {
	hi := fmt.Sprint(a.hi)
	if a.hi >= lenInf {
		hi = "inf"
	}
	s := fmt.Sprintf("len in [%d,%s]", a.lo, hi)
	for k := range a.excl {
		if k >= a.lo && k <= a.hi {
			s += fmt.Sprintf(" \\ {%d}", k)
		}
	}
	return s
}

type sliceKey struct {
	root types.Object
	path string
}

type lenState map[sliceKey]lenIv

func (s lenState) clone() lenState {
	r := lenState{}
	for k, v := range s {
		r[k] = v
	}
	return r
}

// keyOf: root object and path for expressions like x, x.F.G, (*x.F), x.F[...]-free.
func keyOf(info *types.Info, e ast.Expr) (sliceKey, bool) {
	path := ""
	for {
		switch x := ast.Unparen(e).(type) {
		case *ast.Ident:
			o := info.Uses[x]
			if o == nil {
				o = info.Defs[x]
			}
			if o == nil {
				return sliceKey{}, false
			}
			return sliceKey{o, path}, true
		case *ast.SelectorExpr:
			path = "." + x.Sel.Name + path
			e = x.X
		case *ast.StarExpr:
			path = "*" + path
			e = x.X
		case *ast.UnaryExpr:
			if x.Op == token.AND {
				path = "&" + path
				e = x.X
				continue
			}
			return sliceKey{}, false
		default:
			return sliceKey{}, false
		}
	}
}

// normalise &x.F / *x.F differences: pointer-receiver helper methods are called as x.F.M()
func normPath(p string) string {
	p = strings.ReplaceAll(p, "*", "")
	p = strings.ReplaceAll(p, "&", "")
	return p
}

func lenArg(info *types.Info, e ast.Expr) (ast.Expr, bool) {
	ce, ok := ast.Unparen(e).(*ast.CallExpr)
	if !ok || len(ce.Args) != 1 {
		return nil, false
	}
	id, ok := ast.Unparen(ce.Fun).(*ast.Ident)
	if !ok || id.Name != "len" {
		return nil, false
	}
	if _, isB := info.Uses[id].(*types.Builtin); !isB {
		return nil, false
	}
	return ce.Args[0], true
}

func constInt(info *types.Info, e ast.Expr) (int, bool) {
	tv, ok := info.Types[e]
	if !ok || tv.Value == nil || tv.Value.Kind() != constant.Int {
		return 0, false
	}
	v, ok := constant.Int64Val(tv.Value)
	if !ok || v < 0 || v > 1<<20 {
		return 0, false
	}
	return int(v), true
}

func cmpIv(op token.Token, n int) lenIv {
	switch op {
	case token.EQL:
		return lenIv{n, n, nil}
	case token.NEQ:
		return lenIv{0, lenInf, map[int]bool{n: true}}.norm()
	case token.LSS:
		return lenIv{0, n - 1, nil}
	case token.LEQ:
		return lenIv{0, n, nil}
	case token.GTR:
		return lenIv{n + 1, lenInf, nil}
	case token.GEQ:
		return lenIv{n, lenInf, nil}
	}
	return topIv()
}

func negOp(op token.Token) token.Token {
	switch op {
	case token.EQL:
		return token.NEQ
	case token.NEQ:
		return token.EQL
	case token.LSS:
		return token.GEQ
	case token.LEQ:
		return token.GTR
	case token.GTR:
		return token.LEQ
	case token.GEQ:
		return token.LSS
	}
	return op
}

func flipOp(op token.Token) token.Token { // c op len  ->  len op' c
	switch op {
	case token.LSS:
		return token.GTR
	case token.LEQ:
		return token.GEQ
	case token.GTR:
		return token.LSS
	case token.GEQ:
		return token.LEQ
	}
	return op
}

type lenAnalyzer struct {
	c    *core.Ctx
	info *types.Info
	// summaries of boolean helper methods: method -> interval implied on the receiver when true / when false
	sum map[*types.Func][2]*lenIv
	// explaining locals: single-definition locals of the body under analysis (`n := len(S)`, `two := n == 2`)
	defs  map[types.Object]ast.Expr
	kills []killSite
	body  *ast.BlockStmt
	// facts every caller establishes for the parameters (unexported functions only)
	entry lenState
}

type killSite struct {
	k   sliceKey
	pos token.Pos
}

// collectLocals finds the locals of body that are defined exactly once, and every place a slice key is overwritten.
func (la *lenAnalyzer) collectLocals(body *ast.BlockStmt) {
	la.body = body
	la.defs = map[types.Object]ast.Expr{}
	la.kills = nil
	count := map[types.Object]int{}
	note := func(l ast.Expr, rhs ast.Expr) {
		if l == nil {
			return
		}
		if id, ok := ast.Unparen(l).(*ast.Ident); ok {
			if o := la.info.ObjectOf(id); o != nil {
				count[o]++
				la.defs[o] = rhs
			}
		}
		if k, ok := keyOf(la.info, l); ok {
			k.path = normPath(k.path)
			la.kills = append(la.kills, killSite{k, l.Pos()})
		}
	}
	ast.Inspect(body, func(n ast.Node) bool {
		switch s := n.(type) {
		case *ast.AssignStmt:
			for i, l := range s.Lhs {
				if len(s.Lhs) == len(s.Rhs) {
					note(l, s.Rhs[i])
				} else {
					note(l, nil)
				}
			}
		case *ast.IncDecStmt:
			note(s.X, nil)
		case *ast.RangeStmt:
			note(s.Key, nil)
			note(s.Value, nil)
		case *ast.UnaryExpr:
			if s.Op == token.AND {
				note(s.X, nil)
			}
		}
		return true
	})
	for o, n := range count {
		if n != 1 || la.defs[o] == nil {
			delete(la.defs, o)
		}
	}
}

// localDef: the defining expression of an explaining local, when using it at `use` still speaks about the present:
// nothing the expression reads about slice lengths is overwritten between the definition and the use.
func (la *lenAnalyzer) localDef(e ast.Expr, use token.Pos) ast.Expr {
	id, ok := ast.Unparen(e).(*ast.Ident)
	if !ok || la.defs == nil {
		return nil
	}
	o := la.info.ObjectOf(id)
	rhs, ok := la.defs[o]
	if !ok || rhs == nil || rhs.Pos() > use {
		return nil
	}
	// loops around the use that do not contain the definition
	useInOuterLoop := false
	ast.Inspect(la.body, func(n ast.Node) bool {
		switch n.(type) {
		case *ast.ForStmt, *ast.RangeStmt:
			if n.Pos() <= use && use < n.End() && !(n.Pos() <= rhs.Pos() && rhs.Pos() < n.End()) {
				useInOuterLoop = true
			}
		}
		return true
	})
	stale := false
	ast.Inspect(rhs, func(n ast.Node) bool {
		x, ok := n.(ast.Expr)
		if !ok {
			return true
		}
		if k, ok := keyOf(la.info, x); ok {
			k.path = normPath(k.path)
			for _, ks := range la.kills {
				if ks.k.root != k.root || ks.pos <= rhs.End() {
					continue
				}
				if !(strings.HasPrefix(k.path, ks.k.path) || strings.HasPrefix(ks.k.path, k.path)) {
					continue
				}
				if ks.pos < use || useInOuterLoop {
					stale = true
				}
			}
		}
		return true
	})
	if stale {
		return nil
	}
	return rhs
}

func (la *lenAnalyzer) lenArgOf(e ast.Expr, use token.Pos) (ast.Expr, bool) {
	if a, ok := lenArg(la.info, e); ok {
		return a, true
	}
	if rhs := la.localDef(e, use); rhs != nil {
		return lenArg(la.info, rhs)
	}
	return nil, false
}

// submatchLen: e names the result of (*regexp.Regexp).FindStringSubmatch on a regexp whose pattern is a constant of the
// source; the number of elements of a non-nil result.
func (la *lenAnalyzer) submatchLen(e ast.Expr, use token.Pos) (int, bool) {
	rhs := la.localDef(e, use)
	if rhs == nil {
		return 0, false
	}
	ce, ok := ast.Unparen(rhs).(*ast.CallExpr)
	if !ok {
		return 0, false
	}
	f := core.Callee(la.info, ce)
	if f == nil || core.FullName(f) != "(regexp.Regexp).FindStringSubmatch" {
		return 0, false
	}
	sel := ast.Unparen(ce.Fun).(*ast.SelectorExpr)
	pat, ok := regexpPattern(la.c, la.info, sel.X, la.localDef(sel.X, use))
	if !ok {
		return 0, false
	}
	re, err := regexp.Compile(pat)
	if err != nil {
		return 0, false
	}
	return re.NumSubexp() + 1, true
}

// regexpPattern: the constant pattern the regexp named by recv was compiled from. localInit is the defining expression
// when recv is a local with a single definition; otherwise recv must be a package-level variable that is initialised
// once and never assigned or address-taken in its package.
func regexpPattern(c *core.Ctx, info0 *types.Info, recv ast.Expr, localInit ast.Expr) (string, bool) {
	init := localInit
	if init != nil {
	} else if o := identObj(info0, recv); o != nil && c != nil {
		// a package-level variable with one initialiser and no assignment anywhere in its package
		if pkg := c.PkgOf(o.Pkg()); pkg != nil {
			assigned := false
			for _, file := range pkg.Syntax {
				ast.Inspect(file, func(n ast.Node) bool {
					switch x := n.(type) {
					case *ast.ValueSpec:
						for i, nm := range x.Names {
							if pkg.TypesInfo.Defs[nm] == o && len(x.Values) == len(x.Names) {
								init = x.Values[i]
							}
						}
					case *ast.AssignStmt:
						for _, l := range x.Lhs {
							if identObj(pkg.TypesInfo, l) == o {
								assigned = true
							}
						}
					case *ast.UnaryExpr:
						if x.Op == token.AND && identObj(pkg.TypesInfo, x.X) == o {
							assigned = true
						}
					}
					return true
				})
			}
			if assigned {
				init = nil
			}
		}
	}
	mc, ok := ast.Unparen(init).(*ast.CallExpr)
	if init == nil || !ok || len(mc.Args) != 1 {
		return "", false
	}
	var info *types.Info = info0
	if _, known := info.Types[mc.Args[0]]; !known {
		if o := identObj(info0, recv); o != nil {
			if pkg := c.PkgOf(o.Pkg()); pkg != nil {
				info = pkg.TypesInfo
			}
		}
	}
	g := core.Callee(info, mc)
	if g == nil || (core.FullName(g) != "regexp.MustCompile" && core.FullName(g) != "regexp.MustCompilePOSIX") {
		return "", false
	}
	tv, ok := info.Types[mc.Args[0]]
	if !ok || tv.Value == nil || tv.Value.Kind() != constant.String {
		return "", false
	}
	return constant.StringVal(tv.Value), true
}

// condFacts: facts implied when cond evaluates to truth.
func (la *lenAnalyzer) condFacts(cond ast.Expr, truth bool) lenState {
	out := lenState{}
	switch x := ast.Unparen(cond).(type) {
	case *ast.Ident:
		if rhs := la.localDef(x, x.Pos()); rhs != nil {
			if _, again := ast.Unparen(rhs).(*ast.Ident); !again {
				return la.condFacts(rhs, truth)
			}
		}
	case *ast.UnaryExpr:
		if x.Op == token.NOT {
			return la.condFacts(x.X, !truth)
		}
	case *ast.BinaryExpr:
		switch x.Op {
		case token.LAND, token.LOR:
			a, b := la.condFacts(x.X, truth), la.condFacts(x.Y, truth)
			both := (x.Op == token.LAND) == truth // both operands known to have value `truth`
			if both {
				for k, v := range a {
					out[k] = v
				}
				for k, v := range b {
					if o, ok := out[k]; ok {
						out[k] = o.meet(v)
					} else {
						out[k] = v
					}
				}
			} else {
				for k, v := range a {
					if w, ok := b[k]; ok {
						out[k] = v.join(w)
					}
				}
			}
			return out
		case token.EQL, token.NEQ, token.LSS, token.LEQ, token.GTR, token.GEQ:
			op := x.Op
			var s ast.Expr
			var n int
			// `m != nil` where m is the result of FindStringSubmatch on a regexp compiled from a constant:
			// a non-nil result has exactly 1+NumSubexp elements
			if op == token.EQL || op == token.NEQ {
				subj := x.X
				if isNilIdent(subj) {
					subj = x.Y
				} else if !isNilIdent(x.Y) {
					subj = nil
				}
				if subj != nil && (op == token.NEQ) == truth {
					if n, ok := la.submatchLen(subj, x.Pos()); ok {
						if k, ok := keyOf(la.info, subj); ok {
							k.path = normPath(k.path)
							out[k] = lenIv{n, n, nil}
							return out
						}
					}
				}
			}
			if a, ok := la.lenArgOf(x.X, x.Pos()); ok {
				if c, ok := constInt(la.info, x.Y); ok {
					s, n = a, c
				}
			} else if a, ok := la.lenArgOf(x.Y, x.Pos()); ok {
				if c, ok := constInt(la.info, x.X); ok {
					s, n, op = a, c, flipOp(op)
				}
			}
			if s != nil {
				if !truth {
					op = negOp(op)
				}
				if k, ok := keyOf(la.info, s); ok {
					k.path = normPath(k.path)
					out[k] = cmpIv(op, n)
				}
			}
			return out
		}
	case *ast.CallExpr:
		// helper predicate S.M()
		if sel, ok := ast.Unparen(x.Fun).(*ast.SelectorExpr); ok && len(x.Args) == 0 {
			if f, ok := la.info.Uses[sel.Sel].(*types.Func); ok {
				if s := la.summary(f); s != nil {
					idx := 0
					if !truth {
						idx = 1
					}
					if s[idx] != nil {
						if k, ok := keyOf(la.info, sel.X); ok {
							k.path = normPath(k.path)
							out[k] = *s[idx]
						}
					}
				}
			}
		}
	}
	return out
}

// summary derives, from the body `return <bool expr over len(*recv)>` of a method on a
// slice type, the interval implied on the receiver when it returns true / false.
func (la *lenAnalyzer) summary(f *types.Func) *[2]*lenIv {
	f = f.Origin()
	if s, ok := la.sum[f]; ok {
		if s[0] == nil && s[1] == nil {
			return nil
		}
		return &s
	}
	la.sum[f] = [2]*lenIv{}
	d := la.c.Decl(f)
	if d == nil || d.Recv == nil || len(d.Recv.List) != 1 || len(d.Recv.List[0].Names) != 1 || len(d.Body.List) != 1 {
		return nil
	}
	ret, ok := d.Body.List[0].(*ast.ReturnStmt)
	if !ok || len(ret.Results) != 1 {
		return nil
	}
	p := la.c.DeclPkg(d)
	recv := p.TypesInfo.Defs[d.Recv.List[0].Names[0]]
	sub := &lenAnalyzer{c: la.c, info: p.TypesInfo, sum: la.sum}
	var res [2]*lenIv
	for i, truth := range []bool{true, false} {
		facts := sub.condFacts(ret.Results[0], truth)
		for k, v := range facts {
			if k.root == recv && k.path == "" && !v.isTop() {
				vv := v
				res[i] = &vv
			}
		}
	}
	la.sum[f] = res
	if res[0] == nil && res[1] == nil {
		return nil
	}
	return &res
}

// analyze runs the dataflow on one function body; returns a query function giving the
// interval known for key k just before node n.
func (la *lenAnalyzer) analyze(body *ast.BlockStmt) func(n ast.Node, k sliceKey) lenIv {
	fc := core.NewCFG(body, la.info)
	la.collectLocals(body)
	blocks := fc.G.Blocks
	in := make([]lenState, len(blocks))
	visited := make([]bool, len(blocks))
	kills := func(st lenState, n ast.Node) {
		ast.Inspect(n, func(x ast.Node) bool {
			if _, ok := x.(*ast.FuncLit); ok {
				return false
			}
			var lhs []ast.Expr
			switch s := x.(type) {
			case *ast.AssignStmt:
				lhs = s.Lhs
			case *ast.IncDecStmt:
				lhs = []ast.Expr{s.X}
			case *ast.RangeStmt:
				lhs = []ast.Expr{s.Key, s.Value}
			case *ast.UnaryExpr:
				if s.Op == token.AND { // address taken: anything may happen to it
					lhs = []ast.Expr{s.X}
				}
			}
			for _, l := range lhs {
				if l == nil {
					continue
				}
				if k, ok := keyOf(la.info, l); ok {
					k.path = normPath(k.path)
					for sk := range st {
						if sk.root == k.root && strings.HasPrefix(sk.path, k.path) {
							delete(st, sk)
						}
					}
				}
			}
			return true
		})
	}
	transfer := func(b *cfg.Block) lenState {
		st := in[b.Index].clone()
		for _, n := range b.Nodes {
			kills(st, n)
		}
		return st
	}
	// `switch len(S) { case 1: ... }`: go/cfg ends a block with the bare case value; read it as `len(S) == 1`
	caseTag := map[ast.Expr]ast.Expr{}
	ast.Inspect(body, func(n ast.Node) bool {
		if sw, ok := n.(*ast.SwitchStmt); ok && sw.Tag != nil {
			for _, cl := range sw.Body.List {
				for _, v := range cl.(*ast.CaseClause).List {
					caseTag[v] = sw.Tag
				}
			}
		}
		return true
	})
	edgeState := func(b *cfg.Block, succIdx int) lenState {
		st := transfer(b)
		if len(b.Succs) == 2 && len(b.Nodes) > 0 {
			if cond, ok := b.Nodes[len(b.Nodes)-1].(ast.Expr); ok {
				if tag, isCase := caseTag[cond]; isCase {
					cond = &ast.BinaryExpr{X: tag, OpPos: cond.Pos(), Op: token.EQL, Y: cond}
				}
				for k, v := range la.condFacts(cond, succIdx == 0) {
					if o, ok := st[k]; ok {
						st[k] = o.meet(v)
					} else {
						st[k] = v
					}
				}
			}
		}
		return st
	}
	work := []*cfg.Block{blocks[0]}
	in[0] = lenState{}
	if la.entry != nil {
		in[0] = la.entry.clone()
	}
	visited[0] = true
	for iter := 0; len(work) > 0 && iter < 20000; iter++ {
		b := work[0]
		work = work[1:]
		for i, s := range b.Succs {
			es := edgeState(b, i)
			if !visited[s.Index] {
				visited[s.Index] = true
				in[s.Index] = es
				work = append(work, s)
				continue
			}
			// join: keep keys present in both, hull
			cur := in[s.Index]
			nw := lenState{}
			for k, v := range cur {
				if w, ok := es[k]; ok {
					j := v.join(w)
					if !j.isTop() {
						nw[k] = j
					}
				}
			}
			changed := len(nw) != len(cur)
			if !changed {
				for k, v := range nw {
					if !v.eq(cur[k]) {
						changed = true
						break
					}
				}
			}
			if changed {
				in[s.Index] = nw
				work = append(work, s)
			}
		}
	}
	return func(n ast.Node, k sliceKey) lenIv {
		b := fc.BlockOf(n)
		if b == nil || !visited[b.Index] {
			return topIv()
		}
		st := in[b.Index].clone()
		for _, top := range b.Nodes {
			if top.Pos() <= n.Pos() && n.End() <= top.End() {
				// short-circuit facts inside the expression containing n
				for fk, fv := range la.shortCircuit(top, n) {
					if o, ok := st[fk]; ok {
						st[fk] = o.meet(fv)
					} else {
						st[fk] = fv
					}
				}
				break
			}
			kills(st, top)
		}
		if v, ok := st[k]; ok {
			return v
		}
		return topIv()
	}
}

// shortCircuit: for n inside top, facts from `A && (.. n ..)` (A true) and `A || (.. n ..)` (A false).
func (la *lenAnalyzer) shortCircuit(top ast.Node, n ast.Node) lenState {
	out := lenState{}
	ast.Inspect(top, func(x ast.Node) bool {
		be, ok := x.(*ast.BinaryExpr)
		if !ok || (be.Op != token.LAND && be.Op != token.LOR) {
			return true
		}
		if be.Y.Pos() <= n.Pos() && n.End() <= be.Y.End() {
			for k, v := range la.condFacts(be.X, be.Op == token.LAND) {
				if o, ok := out[k]; ok {
					out[k] = o.meet(v)
				} else {
					out[k] = v
				}
			}
		}
		return true
	})
	return out
}
