package rules

import (
	"go/ast"
	"regexp"
	"strings"

	"verif/checker/internal/core"
	"verif/checker/internal/gee"
)

// Rules added after the second round of independently seeded changes. Each states a structural
// necessary condition in general terms; none names a particular patch.

// pkgEmitters returns, for a package, the gee rows of every function declaration (with call rows).
func pkgRows(c *core.Ctx, pkgRel string) map[*ast.FuncDecl][]gee.Row {
	out := map[*ast.FuncDecl][]gee.Row{}
	p := c.Pkg(pkgRel)
	if p == nil {
		return out
	}
	for _, f := range p.Syntax {
		if c.IsTestFile(f.Pos()) {
			continue
		}
		for _, dd := range f.Decls {
			fd, ok := dd.(*ast.FuncDecl)
			if !ok || fd.Body == nil {
				continue
			}
			x := &gee.Extractor{Info: p.TypesInfo, Fset: c.Fset}
			out[fd] = x.Extract(fd.Name.Name, fd)
		}
	}
	return out
}

func hasLoop(r gee.Row, over string) bool {
	for _, l := range r.Loop {
		if l == "range "+over {
			return true
		}
	}
	return false
}

// onlyGuards: every guard of the row is one of the allowed texts (after stripping the dsl. qualifier).
func onlyGuards(r gee.Row, allowed ...string) (bool, string) {
	for _, g := range r.Guards {
		g = stripDsl(g)
		ok := false
		for _, a := range allowed {
			if g == a {
				ok = true
			}
		}
		if !ok {
			return false, g
		}
	}
	return true, ""
}

// TS1: the memcpy fast path of a record. The generated IsTriviallySerializable<Record> trait decides
// whether C++ writes the raw object image. It must require, for every record with fields: standard layout,
// every field trivially serializable, and NO padding anywhere — sizeof(T) equal to the sum of the sizes of all
// fields. Otherwise padding bytes reach the wire (C++ reads them back, every other language does not).
func ruleTrivialRecordTrait(c *core.Ctx) {
	const rule = "TS1"
	c.Rule(rule, "cpp/binary: the emitted IsTriviallySerializable<Record> trait conjoins is_standard_layout, the trait of every field (loop over Fields) and sizeof(T) == sum over all Fields of sizeof(field); none of the three is conditional on anything but the record having fields", 4)
	rowsOf := pkgRows(c, "internal/cpp/binary")
	var d *ast.FuncDecl
	for fd, rows := range rowsOf {
		for _, r := range rows {
			if r.Kind == "emit" && strings.Contains(r.Tmpl, "struct IsTriviallySerializable<") {
				d = fd
			}
		}
	}
	if d == nil {
		c.Undecided(rule, "anchor/emitter of IsTriviallySerializable<Record>", 0, "no function of internal/cpp/binary emits the record trait")
		return
	}
	rows := rowsOf[d]
	const fields = "RecordDefinition.Fields"
	allowed := []string{"type(TypeDefinition)∈{RecordDefinition}", "len(RecordDefinition.Fields) > 0", "len(RecordDefinition.Fields) != 0", "!(len(RecordDefinition.Fields) == 0)"}
	var layout, perField, sizeHdr, sizeTerm, plus *gee.Row
	for i := range rows {
		r := &rows[i]
		switch {
		case r.Kind == "emit" && strings.Contains(r.Tmpl, "std::is_standard_layout_v<__T__>"):
			layout = r
		case r.Kind == "emit" && strings.Contains(r.Tmpl, "IsTriviallySerializable<decltype(__T__::%s)>::value"):
			perField = r
		case r.Kind == "emit" && strings.Contains(r.Tmpl, "sizeof(__T__) =="):
			sizeHdr = r
		case r.Kind == "emit" && strings.Contains(r.Tmpl, "sizeof(__T__::%s)") && !strings.Contains(r.Tmpl, "sizeof(__T__) =="):
			sizeTerm = r
		case (r.Kind == "sep" || r.Kind == "emit") && strings.TrimSpace(r.Tmpl) == "+" && hasLoop(*r, fields):
			plus = r
		}
	}
	pos := d.Pos()
	chk := func(key string, r *gee.Row, inLoop bool, missing string) {
		if r == nil {
			c.Bad(rule, "record trait/"+key, pos, missing)
			return
		}
		if ok, g := onlyGuards(*r, allowed...); !ok {
			c.Bad(rule, "record trait/"+key, r.Pos, "the clause is emitted only under `"+g+"`: for the other records the fast path is enabled without it")
			return
		}
		if inLoop && !hasLoop(*r, fields) {
			c.Bad(rule, "record trait/"+key, r.Pos, "the clause is not emitted for every field (no loop over "+fields+")")
			return
		}
		c.OK(rule, "record trait/"+key, r.Pos, "emitted unconditionally"+map[bool]string{true: " for every field", false: ""}[inLoop])
	}
	chk("standard layout", layout, false, "the trait no longer requires std::is_standard_layout_v")
	chk("every field trivially serializable", perField, true, "the trait no longer requires every field to be trivially serializable")
	chk("no padding: sizeof(T) ==", sizeHdr, false, "the trait no longer compares sizeof(T) with the sum of the field sizes: a record with padding is written as its raw object image")
	chk("no padding: sum over every field", sizeTerm, true, "the right-hand side of the size comparison is not the sum of sizeof(field) over all fields: interior padding is not excluded")
	if sizeTerm != nil && sizeHdr != nil {
		okSum := plus != nil && sizeHdr.Seq < sizeTerm.Seq
		okArg := len(sizeTerm.Args) == 1 && strings.Contains(sizeTerm.Args[0], "Field.Name")
		c.Check(okSum && okArg, rule, "record trait/no padding: terms joined by +", sizeTerm.Pos, "sizeof(T) == (sizeof(f1) + … + sizeof(fn)) over the loop's field", "the size terms are not the loop's fields joined by `+` after the `sizeof(T) ==` header")
	}
}

// verbUse is one formatting verb of a template with the argument it consumes and the text around it.
type verbUse struct {
	arg           int // index into the argument list, -1 when out of range
	before, after string
}

// verbUses scans a fmt template: `%%` is literal, `%[n]v` selects argument n (and the following verbs continue from
// n+1), flags/width/precision are skipped.
func verbUses(tmpl string) []verbUse {
	var out []verbUse
	next := 0
	for i := 0; i < len(tmpl); i++ {
		if tmpl[i] != '%' {
			continue
		}
		start := i
		i++
		if i < len(tmpl) && tmpl[i] == '%' {
			continue
		}
		for i < len(tmpl) && strings.ContainsRune("+-# 0", rune(tmpl[i])) {
			i++
		}
		if i < len(tmpl) && tmpl[i] == '[' {
			j := strings.IndexByte(tmpl[i:], ']')
			if j > 0 {
				n := 0
				for _, ch := range tmpl[i+1 : i+j] {
					if ch >= '0' && ch <= '9' {
						n = n*10 + int(ch-'0')
					}
				}
				next = n - 1
				i += j + 1
			}
		}
		for i < len(tmpl) && (tmpl[i] >= '0' && tmpl[i] <= '9' || tmpl[i] == '.' || tmpl[i] == '*') {
			i++
		}
		if i >= len(tmpl) {
			break
		}
		b := tmpl[:start]
		if len(b) > 24 {
			b = b[len(b)-24:]
		}
		a := tmpl[i+1:]
		if len(a) > 8 {
			a = a[:8]
		}
		out = append(out, verbUse{arg: next, before: b, after: a})
		next++
	}
	return out
}

var ctxTailRe = regexp.MustCompile(`[\w.:\[({]*$`)

// O3: names inside JSON text are the model's names. Every `"%s"` position in a template of the NDJSON generators
// is a JSON-visible name (record field key, enum symbol, union tag, protocol step) and is fed the model spelling
// (X.Name / X.Symbol / X.Tag), which is what the other language and the documentation use; the positions that name
// a numpy structured-array field (`value["%s"]`, `("%s", …overall_dtype())`) are Python identifiers.
func ruleJsonNamesAreModelNames(c *core.Ctx) {
	const rule = "O3"
	c.Rule(rule, "python/ndjson and cpp/ndjson: every quoted name position of an emitted template that ends up in JSON text (object key, enum symbol, union tag, step name) receives the model spelling (.Name/.Symbol/.Tag), never the target-language identifier; numpy field positions receive the identifier", 25)
	modelName := func(a string) bool {
		a = strings.TrimSpace(a)
		return strings.HasSuffix(a, ".Name") || strings.HasSuffix(a, ".Symbol") || strings.HasSuffix(a, ".Tag")
	}
	for _, pkgRel := range []string{"internal/python/ndjson", "internal/cpp/ndjson"} {
		for fd, rows := range pkgRows(c, pkgRel) {
			seen := map[string]int{}
			for _, r := range rows {
				if r.Kind != "emit" && r.Kind != "return" && !strings.HasPrefix(r.Kind, "append:") && !strings.HasPrefix(r.Kind, "assign:") {
					continue
				}
				for _, u := range verbUses(r.Tmpl) {
					if !strings.HasSuffix(u.before, "\"") || !strings.HasPrefix(u.after, "\"") {
						continue
					}
					if u.arg < 0 || u.arg >= len(r.Args) {
						continue
					}
					arg := r.Args[u.arg]
					ctx := strings.TrimSuffix(u.before, "\"")
					numpy := strings.HasSuffix(ctx, "value[") || strings.HasSuffix(strings.TrimSpace(ctx), "(") && strings.Contains(r.Tmpl, "overall_dtype()")
					what := ctxTailRe.FindString(strings.TrimSpace(ctx))
					key := pkgRel + "." + fd.Name.Name + "/" + what + "\"%s\""
					seen[key]++
					if seen[key] > 1 {
						key += "#" + itoa(seen[key])
					}
					if numpy {
						c.Check(strings.Contains(arg, "IdentifierName("), rule, key, r.Pos, "numpy field position ← "+arg, "a numpy structured-array field is addressed by `"+arg+"`, but the dtype is declared with the Python identifier of the field")
						continue
					}
					c.Check(modelName(arg), rule, key, r.Pos, "JSON name ← "+arg, "a name inside JSON text is produced from `"+arg+"`, not from the model spelling: the other language (and the documented format) uses the model's name, so the value is not found or is dropped")
				}
			}
		}
	}
}

func itoa(n int) string {
	if n == 0 {
		return "0"
	}
	s := ""
	for n > 0 {
		s = string(rune('0'+n%10)) + s
		n /= 10
	}
	return s
}
