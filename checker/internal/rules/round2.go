package rules

import (
	"fmt"
	"go/ast"
	"go/constant"
	"go/token"
	"go/types"
	"golang.org/x/tools/go/packages"
	"math/big"
	"os"
	"reflect"
	"regexp"
	"sort"
	"strings"

	"golang.org/x/tools/go/cfg"
	"golang.org/x/tools/go/types/typeutil"

	"verif/checker/internal/core"
	"verif/checker/internal/gee"
)

// Rules added after the second round of independently seeded changes. Each states a structural
// necessary condition in general terms; none names a particular patch.

// pkgEmitters returns, for a package, the gee rows of every function declaration (with call rows).
func pkgRows(c *core.Ctx, pkgRel string) map[*ast.FuncDecl][]gee.Row {
	out := map[*ast.FuncDecl][]gee.Row{}
	p := c.Pkg(pkgRel)
	if p == nil {
		return out
	}
	for _, f := range p.Syntax {
		if c.IsTestFile(f.Pos()) {
			continue
		}
		for _, dd := range f.Decls {
			fd, ok := dd.(*ast.FuncDecl)
			if !ok || fd.Body == nil {
				continue
			}
			x := &gee.Extractor{Info: p.TypesInfo, Fset: c.Fset}
			out[fd] = x.Extract(fd.Name.Name, fd)
		}
	}
	return out
}

func hasLoop(r gee.Row, over string) bool {
	for _, l := range r.Loop {
		if l == "range "+over {
			return true
		}
	}
	return false
}

// onlyGuards: every guard of the row is one of the allowed texts (after stripping the dsl. qualifier).
func onlyGuards(r gee.Row, allowed ...string) (bool, string) {
	for _, g := range r.Guards {
		g = stripDsl(g)
		ok := false
		for _, a := range allowed {
			if g == a {
				ok = true
			}
		}
		if !ok {
			return false, g
		}
	}
	return true, ""
}

// TS1: the memcpy fast path of a record. The generated IsTriviallySerializable<Record> trait decides
// whether C++ writes the raw object image. It must require, for every record with fields: standard layout,
// every field trivially serializable, and NO padding anywhere — sizeof(T) equal to the sum of the sizes of all
// fields. Otherwise padding bytes reach the wire (C++ reads them back, every other language does not).
func ruleTrivialRecordTrait(c *core.Ctx) {
	const rule = "TS1"
	c.Rule(rule, "cpp/binary: the emitted IsTriviallySerializable<Record> trait conjoins is_standard_layout, the trait of every field (loop over Fields) and sizeof(T) == sum over all Fields of sizeof(field); none of the three is conditional on anything but the record having fields", 4)
	rowsOf := pkgRows(c, "internal/cpp/binary")
	var d *ast.FuncDecl
	for fd, rows := range rowsOf {
		for _, r := range rows {
			if r.Kind == "emit" && strings.Contains(r.Tmpl, "struct IsTriviallySerializable<") {
				d = fd
			}
		}
	}
	if d == nil {
		c.Undecided(rule, "anchor/emitter of IsTriviallySerializable<Record>", 0, "no function of internal/cpp/binary emits the record trait")
		return
	}
	// helpers of the package that emit parts of the trait are read in place
	rows, _ := flatRows(c, "internal/cpp/binary", d.Name.Name)
	if len(rows) == 0 {
		rows = rowsOf[d]
	}
	const fields = "RecordDefinition.Fields"
	allowed := []string{"type(TypeDefinition)∈{RecordDefinition}", "len(RecordDefinition.Fields) > 0", "len(RecordDefinition.Fields) != 0", "!(len(RecordDefinition.Fields) == 0)"}
	var layout, perField, sizeHdr, sizeTerm, plus *gee.Row
	for i := range rows {
		r := &rows[i]
		switch {
		case r.Kind == "emit" && strings.Contains(r.Tmpl, "std::is_standard_layout_v<__T__>"):
			layout = r
		case r.Kind == "emit" && strings.Contains(r.Tmpl, "IsTriviallySerializable<decltype(__T__::%s)>::value"):
			perField = r
		case r.Kind == "emit" && strings.Contains(r.Tmpl, "sizeof(__T__) =="):
			sizeHdr = r
		case r.Kind == "emit" && strings.Contains(r.Tmpl, "sizeof(__T__::%s)") && !strings.Contains(r.Tmpl, "sizeof(__T__) =="):
			sizeTerm = r
		case (r.Kind == "sep" || r.Kind == "emit") && strings.TrimSpace(r.Tmpl) == "+" && hasLoop(*r, fields):
			plus = r
		}
	}
	pos := d.Pos()
	chk := func(key string, r *gee.Row, inLoop bool, missing string) {
		if r == nil {
			c.Bad(rule, "record trait/"+key, pos, missing)
			return
		}
		if ok, g := onlyGuards(*r, allowed...); !ok {
			c.Bad(rule, "record trait/"+key, r.Pos, "the clause is emitted only under `"+g+"`: for the other records the fast path is enabled without it")
			return
		}
		if inLoop && !hasLoop(*r, fields) {
			c.Bad(rule, "record trait/"+key, r.Pos, "the clause is not emitted for every field (no loop over "+fields+")")
			return
		}
		c.OK(rule, "record trait/"+key, r.Pos, "emitted unconditionally"+map[bool]string{true: " for every field", false: ""}[inLoop])
	}
	chk("standard layout", layout, false, "the trait no longer requires std::is_standard_layout_v")
	chk("every field trivially serializable", perField, true, "the trait no longer requires every field to be trivially serializable")
	chk("no padding: sizeof(T) ==", sizeHdr, false, "the trait no longer compares sizeof(T) with the sum of the field sizes: a record with padding is written as its raw object image")
	chk("no padding: sum over every field", sizeTerm, true, "the right-hand side of the size comparison is not the sum of sizeof(field) over all fields: interior padding is not excluded")
	if sizeTerm != nil && sizeHdr != nil {
		okSum := plus != nil && sizeHdr.Seq < sizeTerm.Seq
		okArg := len(sizeTerm.Args) == 1 && (strings.Contains(sizeTerm.Args[0], "Field.Name") || (strings.Contains(sizeTerm.Args[0], fields+"[") && strings.Contains(sizeTerm.Args[0], "].Name")))
		c.Check(okSum && okArg, rule, "record trait/no padding: terms joined by +", sizeTerm.Pos, "sizeof(T) == (sizeof(f1) + … + sizeof(fn)) over the loop's field", "the size terms are not the loop's fields joined by `+` after the `sizeof(T) ==` header")
	}
}

// verbUse is one formatting verb of a template with the argument it consumes and the text around it.
type verbUse struct {
	arg           int // index into the argument list, -1 when out of range
	before, after string
}

// verbUses scans a fmt template: `%%` is literal, `%[n]v` selects argument n (and the following verbs continue from
// n+1), flags/width/precision are skipped.
func verbUses(tmpl string) []verbUse {
	var out []verbUse
	next := 0
	for i := 0; i < len(tmpl); i++ {
		if tmpl[i] != '%' {
			continue
		}
		start := i
		i++
		if i < len(tmpl) && tmpl[i] == '%' {
			continue
		}
		for i < len(tmpl) && strings.ContainsRune("+-# 0", rune(tmpl[i])) {
			i++
		}
		if i < len(tmpl) && tmpl[i] == '[' {
			j := strings.IndexByte(tmpl[i:], ']')
			if j > 0 {
				n := 0
				for _, ch := range tmpl[i+1 : i+j] {
					if ch >= '0' && ch <= '9' {
						n = n*10 + int(ch-'0')
					}
				}
				next = n - 1
				i += j + 1
			}
		}
		for i < len(tmpl) && (tmpl[i] >= '0' && tmpl[i] <= '9' || tmpl[i] == '.' || tmpl[i] == '*') {
			i++
		}
		if i >= len(tmpl) {
			break
		}
		b := tmpl[:start]
		if len(b) > 24 {
			b = b[len(b)-24:]
		}
		a := tmpl[i+1:]
		if len(a) > 8 {
			a = a[:8]
		}
		out = append(out, verbUse{arg: next, before: b, after: a})
		next++
	}
	return out
}

var ctxTailRe = regexp.MustCompile(`[\w.:\[({]*$`)

// O3: names inside JSON text are the model's names. Every `"%s"` position in a template of the NDJSON generators
// is a JSON-visible name (record field key, enum symbol, union tag, protocol step) and is fed the model spelling
// (X.Name / X.Symbol / X.Tag), which is what the other language and the documentation use; the positions that name
// a numpy structured-array field (`value["%s"]`, `("%s", …overall_dtype())`) are Python identifiers.
func ruleJsonNamesAreModelNames(c *core.Ctx) {
	const rule = "O3"
	c.Rule(rule, "python/ndjson and cpp/ndjson: every quoted name position of an emitted template that ends up in JSON text (object key, enum symbol, union tag, step name) receives the model spelling (.Name/.Symbol/.Tag), never the target-language identifier; numpy field positions receive the identifier", 25)
	modelName := func(a string) bool {
		a = strings.TrimSpace(a)
		return strings.HasSuffix(a, ".Name") || strings.HasSuffix(a, ".Symbol") || strings.HasSuffix(a, ".Tag")
	}
	for _, pkgRel := range []string{"internal/python/ndjson", "internal/cpp/ndjson"} {
		for fd, rows := range pkgRows(c, pkgRel) {
			seen := map[string]int{}
			for _, r := range rows {
				if r.Kind != "emit" && r.Kind != "return" && !strings.HasPrefix(r.Kind, "append:") && !strings.HasPrefix(r.Kind, "assign:") {
					continue
				}
				for _, u := range verbUses(r.Tmpl) {
					if !strings.HasSuffix(u.before, "\"") || !strings.HasPrefix(u.after, "\"") {
						continue
					}
					if u.arg < 0 || u.arg >= len(r.Args) {
						continue
					}
					arg := r.Args[u.arg]
					ctx := strings.TrimSuffix(u.before, "\"")
					numpy := strings.HasSuffix(ctx, "value[") || strings.HasSuffix(strings.TrimSpace(ctx), "(") && strings.Contains(r.Tmpl, "overall_dtype()")
					what := ctxTailRe.FindString(strings.TrimSpace(ctx))
					key := pkgRel + "." + fd.Name.Name + "/" + what + "\"%s\""
					seen[key]++
					if seen[key] > 1 {
						key += "#" + itoa(seen[key])
					}
					if numpy {
						c.Check(strings.Contains(arg, "IdentifierName("), rule, key, r.Pos, "numpy field position ← "+arg, "a numpy structured-array field is addressed by `"+arg+"`, but the dtype is declared with the Python identifier of the field")
						continue
					}
					c.Check(modelName(arg), rule, key, r.Pos, "JSON name ← "+arg, "a name inside JSON text is produced from `"+arg+"`, not from the model spelling: the other language (and the documented format) uses the model's name, so the value is not found or is dropped")
				}
			}
		}
	}
}

func itoa(n int) string {
	if n == 0 {
		return "0"
	}
	s := ""
	for n > 0 {
		s = string(rune('0'+n%10)) + s
		n /= 10
	}
	return s
}

// EV9: no "unchanged" verdict while recorded differences exist. A definition comparer of the evolution analyser
// builds a change object (RecordChange, ProtocolChange, EnumChange) and returns it, or nil for "no change". Every
// piece of change data it computes — each field of the change object that receives a computed value — must take
// part in the decision between the two: the conditions guarding `return <change>` depend (through locals and the
// conditions under which those locals are set) on that field. Data that is recorded but cannot prevent the nil
// verdict is an edit class reported as "unchanged": no compatibility serializer is generated for it.
func ruleComparersConsultTheirData(c *core.Ctx) {
	const rule = "EV9"
	c.Rule(rule, "pkg/dsl definition comparers: every computed field of the change object a comparer can return influences the decision between returning it and returning nil (no recorded difference is compatible with the verdict 'unchanged')", 9)
	p := c.Pkg("pkg/dsl")
	if p == nil {
		c.Undecided(rule, "anchor/pkg/dsl", 0, "package not found")
		return
	}
	info := p.TypesInfo
	for _, d := range c.AllDecls() {
		if c.DeclPkg(d) != p || d.Body == nil || !strings.HasPrefix(d.Name.Name, "compare") || !strings.HasSuffix(d.Name.Name, "Definitions") {
			continue
		}
		parent := map[ast.Node]ast.Node{}
		var stack []ast.Node
		ast.Inspect(d.Body, func(n ast.Node) bool {
			if n == nil {
				stack = stack[:len(stack)-1]
				return true
			}
			if len(stack) > 0 {
				parent[n] = stack[len(stack)-1]
			}
			stack = append(stack, n)
			return true
		})
		isChangeLit := func(e ast.Expr) *ast.CompositeLit {
			if ue, ok := ast.Unparen(e).(*ast.UnaryExpr); ok {
				e = ue.X
			}
			cl, ok := ast.Unparen(e).(*ast.CompositeLit)
			if !ok {
				return nil
			}
			nt := core.NamedOf(info.TypeOf(cl))
			if nt == nil || !strings.HasSuffix(nt.Obj().Name(), "Change") {
				return nil
			}
			return cl
		}
		// change variables: v := &XChange{...}
		changeVars := map[types.Object]*ast.CompositeLit{}
		ast.Inspect(d.Body, func(n ast.Node) bool {
			if as, ok := n.(*ast.AssignStmt); ok && len(as.Lhs) == 1 && len(as.Rhs) == 1 {
				if cl := isChangeLit(as.Rhs[0]); cl != nil {
					if o := identObj(info, as.Lhs[0]); o != nil {
						changeVars[o] = cl
					}
				}
			}
			return true
		})
		hasNilReturn := false
		ast.Inspect(d.Body, func(n ast.Node) bool {
			if r, ok := n.(*ast.ReturnStmt); ok && len(r.Results) == 1 {
				if tv, ok := info.Types[r.Results[0]]; ok && tv.IsNil() {
					hasNilReturn = true
				}
			}
			return true
		})
		if !hasNilReturn {
			continue
		}
		// conditions enclosing a node: if conditions, for conditions, range expressions, switch tags / case expressions;
		// and, for every block on the way up, the conditions under which an EARLIER statement of that block returns
		// (control reaches the node only when those returns were not taken)
		var enclosing func(n ast.Node) []ast.Expr
		enclosing = func(n ast.Node) []ast.Expr {
			var out []ast.Expr
			child := n
			for cur := parent[n]; cur != nil; child, cur = cur, parent[cur] {
				if blk, ok := cur.(*ast.BlockStmt); ok {
					for _, sib := range blk.List {
						if ast.Node(sib) == child {
							break
						}
						ast.Inspect(sib, func(m ast.Node) bool {
							if _, isLit := m.(*ast.FuncLit); isLit {
								return false
							}
							if r, ok := m.(*ast.ReturnStmt); ok {
								for up := parent[r]; up != nil && up != ast.Node(blk); up = parent[up] {
									switch s := up.(type) {
									case *ast.IfStmt:
										out = append(out, s.Cond)
									case *ast.ForStmt:
										if s.Cond != nil {
											out = append(out, s.Cond)
										}
									case *ast.RangeStmt:
										out = append(out, s.X)
									case *ast.CaseClause:
										out = append(out, s.List...)
									}
								}
							}
							return true
						})
					}
				}
				switch s := cur.(type) {
				case *ast.IfStmt:
					out = append(out, s.Cond)
				case *ast.ForStmt:
					if s.Cond != nil {
						out = append(out, s.Cond)
					}
				case *ast.RangeStmt:
					out = append(out, s.X)
				case *ast.CaseClause:
					out = append(out, s.List...)
				case *ast.SwitchStmt:
					if s.Tag != nil {
						out = append(out, s.Tag)
					}
				}
			}
			return out
		}
		// dependence closure of a set of expressions
		closure := func(seeds []ast.Expr) (map[types.Object]bool, map[string]bool) {
			objs := map[types.Object]bool{}
			fields := map[string]bool{} // "<changeVar>.<Field>"
			var work []ast.Expr
			work = append(work, seeds...)
			for len(work) > 0 {
				e := work[len(work)-1]
				work = work[:len(work)-1]
				ast.Inspect(e, func(n ast.Node) bool {
					switch x := n.(type) {
					case *ast.CallExpr:
						// the change object handed to a predicate of the module: the fields that predicate reads count
						if f := core.Callee(info, x); f != nil && core.InModule(f) {
							if cd := c.Decl(f.Origin()); cd != nil && cd.Body != nil {
								cinfo := c.DeclPkg(cd).TypesInfo
								prms := paramObjs(cinfo, cd)
								for i, a := range x.Args {
									o := identObj(info, a)
									if o == nil || changeVars[o] == nil || i >= len(prms) || prms[i] == nil {
										continue
									}
									for _, fd := range declsCalledInPkg(c, cd, 1) {
										finfo := c.DeclPkg(fd).TypesInfo
										ast.Inspect(fd.Body, func(m ast.Node) bool {
											if se, ok := m.(*ast.SelectorExpr); ok {
												if po := identObj(finfo, se.X); po != nil && (po == prms[i] || (fd != cd && core.NamedOf(po.Type()) != nil && core.NamedOf(po.Type()) == core.NamedOf(prms[i].Type()))) {
													fields[o.Name()+"."+se.Sel.Name] = true
												}
											}
											return true
										})
									}
								}
							}
						}
					case *ast.SelectorExpr:
						if o := identObj(info, x.X); o != nil && changeVars[o] != nil {
							fields[o.Name()+"."+x.Sel.Name] = true
						}
					case *ast.Ident:
						o := info.Uses[x]
						v, isVar := o.(*types.Var)
						if !isVar || v.IsField() || objs[o] || v.Parent() == nil || v.Parent() == p.Types.Scope() {
							return true
						}
						objs[o] = true
						// every definition of the local: its right-hand sides and the conditions it is made under;
						// a range variable depends on the ranged expression
						ast.Inspect(d.Body, func(m ast.Node) bool {
							switch s := m.(type) {
							case *ast.AssignStmt:
								for i, l := range s.Lhs {
									if identObj(info, l) == o || (isIndexOf(info, l, o)) {
										if len(s.Rhs) == len(s.Lhs) {
											work = append(work, s.Rhs[i])
										} else {
											work = append(work, s.Rhs...)
										}
										work = append(work, enclosing(s)...)
									}
								}
							case *ast.RangeStmt:
								if identObj(info, s.Key) == o || identObj(info, s.Value) == o {
									work = append(work, s.X)
								}
							case *ast.IncDecStmt:
								if identObj(info, s.X) == o {
									work = append(work, enclosing(s)...)
								}
							}
							return true
						})
					}
					return true
				})
			}
			return objs, fields
		}
		// the verdict is nil only when the guards of ALL change-returning statements fail: their union is what the
		// recorded data must influence
		var allConds []ast.Expr
		var varReturns []types.Object
		var litReturns []*ast.CompositeLit
		ast.Inspect(d.Body, func(n ast.Node) bool {
			r, ok := n.(*ast.ReturnStmt)
			if !ok || len(r.Results) != 1 {
				return true
			}
			conds := enclosing(r)
			if len(conds) == 0 {
				return true // an unconditional return is not a verdict between change and nil
			}
			if o := identObj(info, r.Results[0]); o != nil && changeVars[o] != nil {
				allConds = append(allConds, conds...)
				varReturns = append(varReturns, o)
			} else if cl := isChangeLit(r.Results[0]); cl != nil {
				allConds = append(allConds, conds...)
				litReturns = append(litReturns, cl)
			}
			return true
		})
		objs, fields := closure(allConds)
		done := map[types.Object]bool{}
		for _, o := range varReturns {
			if done[o] {
				continue
			}
			done[o] = true
			written := map[string]token.Pos{}
			// a write that is tied to the verdict without the field being read back: beside it (same statement list) a
			// local the verdict depends on is set — the "something differs" flag — or the value written is itself such a local
			tied := map[string]bool{}
			ast.Inspect(d.Body, func(m ast.Node) bool {
				if as, ok := m.(*ast.AssignStmt); ok {
					for li, l := range as.Lhs {
						base := l
						if ix, ok := ast.Unparen(base).(*ast.IndexExpr); ok {
							base = ix.X
						}
						if se, ok := ast.Unparen(base).(*ast.SelectorExpr); ok && identObj(info, se.X) == o {
							if _, seen := written[se.Sel.Name]; !seen {
								written[se.Sel.Name] = as.Pos()
								tied[se.Sel.Name] = true
							}
							thisTied := false
							if li < len(as.Rhs) {
								ast.Inspect(as.Rhs[li], func(x ast.Node) bool {
									if id, ok := x.(*ast.Ident); ok && objs[info.Uses[id]] {
										thisTied = true
									}
									return true
								})
							}
							var sibs []ast.Stmt
							switch b := parent[as].(type) {
							case *ast.BlockStmt:
								sibs = b.List
							case *ast.CaseClause:
								sibs = b.Body
							}
							for _, sb := range sibs {
								if sa, ok := sb.(*ast.AssignStmt); ok && sa != as {
									for _, sl := range sa.Lhs {
										if so := identObj(info, sl); so != nil && objs[so] {
											thisTied = true
										}
									}
								}
							}
							if !thisTied {
								tied[se.Sel.Name] = false
							}
						}
					}
				}
				return true
			})
			for f, at := range written {
				key := d.Name.Name + "/" + o.Name() + "." + f
				c.Check(fields[o.Name()+"."+f] || tied[f], rule, key, at, "the verdict depends on "+o.Name()+"."+f,
					"the comparer records "+o.Name()+"."+f+" but can still return nil whatever it holds: a difference of that kind is reported as 'unchanged' (no compatibility code is generated, the old layout is read with the new one)")
			}
		}
		for _, cl := range litReturns {
			for _, el := range cl.Elts {
				kv, ok := el.(*ast.KeyValueExpr)
				if !ok {
					continue
				}
				fname := types.ExprString(kv.Key)
				var locals []types.Object
				ast.Inspect(kv.Value, func(m ast.Node) bool {
					if id, ok := m.(*ast.Ident); ok {
						if v, isVar := info.Uses[id].(*types.Var); isVar && !v.IsField() && v.Parent() != p.Types.Scope() && !isParam(d, info, v) {
							locals = append(locals, v)
						}
					}
					return true
				})
				if len(locals) == 0 {
					continue // carried over from the parameters
				}
				dep := false
				for _, l := range locals {
					if objs[l] {
						dep = true
					}
				}
				c.Check(dep, rule, d.Name.Name+"/"+core.NamedOf(info.TypeOf(cl)).Obj().Name()+"."+fname, kv.Pos(), "the verdict depends on the value stored in "+fname,
					"the comparer stores "+types.ExprString(kv.Value)+" in "+fname+" but the decision to report a change does not depend on it")
			}
		}
	}
}

func isIndexOf(info *types.Info, l ast.Expr, o types.Object) bool {
	if ix, ok := ast.Unparen(l).(*ast.IndexExpr); ok {
		return identObj(info, ix.X) == o
	}
	return false
}

func isParam(d *ast.FuncDecl, info *types.Info, v *types.Var) bool {
	for _, f := range d.Type.Params.List {
		for _, n := range f.Names {
			if info.Defs[n] == v {
				return true
			}
		}
	}
	return false
}

// EV7: the table of previous schemas is positional. The generated C++ `previous_schemas_` is indexed by the
// position of a version in ns.Versions (SchemaFromVersion, VersionFromSchema). Its initialiser must therefore
// contribute exactly one element per listed version, whatever the protocol's change for that version is, and
// every `previous_schemas_[%d]` must be fed the index of a loop over the same list.
func rulePreviousSchemasPositional(c *core.Ctx) {
	const rule = "EV7"
	c.Rule(rule, "cpp/protocols: the initialiser of previous_schemas_ emits exactly one element per version of ns.Versions under every outcome of its tests, and every previous_schemas_[%d] is indexed by the loop index over ns.Versions", 3)
	rows, d := flatRows(c, "internal/cpp/protocols", "writeDefinitions")
	if d == nil {
		c.Undecided(rule, "anchor/cpp/protocols.writeDefinitions", 0, "anchor not found")
		return
	}
	const versions = "Namespace.Versions"
	in := false
	var hdr gee.Row
	var elems []gee.Row
	for _, r := range rows {
		if r.Kind != "emit" {
			continue
		}
		if strings.Contains(r.Tmpl, "::previous_schemas_ = {") {
			in, hdr = true, r
			continue
		}
		if in {
			if strings.HasPrefix(strings.TrimSpace(r.Tmpl), "};") {
				break
			}
			elems = append(elems, r)
		}
	}
	if !in {
		c.Undecided(rule, "previous_schemas_ initialiser", d.Pos(), "the emission of the previous_schemas_ initialiser was not found")
		return
	}
	// atoms of the element rows beyond the header's guards
	base := map[string]bool{}
	for _, g := range hdr.Guards {
		base[g] = true
	}
	atomSet := map[string]bool{}
	for _, r := range elems {
		for _, g := range r.Guards {
			if base[g] {
				continue
			}
			a := stripDsl(g)
			for strings.HasPrefix(a, "!(") && strings.HasSuffix(a, ")") {
				a = a[2 : len(a)-1]
			}
			atomSet[a] = true
		}
	}
	var atoms []string
	for a := range atomSet {
		atoms = append(atoms, a)
	}
	sort.Strings(atoms)
	okAll, why := len(atoms) <= 6, ""
	if !okAll {
		why = "too many conditions around the elements"
	}
	for mask := 0; okAll && mask < 1<<len(atoms); mask++ {
		asg := map[string]string{}
		for i, a := range atoms {
			asg[a] = map[bool]string{true: "true", false: "false"}[mask&(1<<i) != 0]
		}
		n := 0
		for _, r := range elems {
			var gs []string
			for _, g := range r.Guards {
				if !base[g] {
					gs = append(gs, g)
				}
			}
			if sat, _ := guardSat(gs, asg); sat && hasLoop(r, versions) {
				n++
			}
		}
		if n != 1 {
			okAll = false
			why = fmt.Sprintf("under %v the loop over %s contributes %d elements", asg, versions, n)
		}
	}
	c.Check(okAll, rule, "previous_schemas_/one element per version", hdr.Pos, fmt.Sprintf("exactly one element per version under all %d outcomes of %v", 1<<len(atoms), atoms),
		"the initialiser of previous_schemas_ does not contribute exactly one element per listed version ("+why+"): SchemaFromVersion / VersionFromSchema index it by version position, so a stream of an older version is attributed to the wrong version or read out of range")
	// every index use
	n := 0
	for _, r := range rows {
		if r.Kind != "emit" || !strings.Contains(r.Tmpl, "previous_schemas_[%d]") {
			continue
		}
		n++
		ix := ""
		for li, l := range r.Loop {
			if l == "range "+versions && li < len(r.LoopIx) {
				ix = r.LoopIx[li]
			}
		}
		var arg string
		for _, u := range verbUses(r.Tmpl) {
			if strings.HasSuffix(u.before, "previous_schemas_[") && u.arg >= 0 && u.arg < len(r.Args) {
				arg = r.Args[u.arg]
			}
		}
		c.Check(ix != "" && arg == ix, rule, "previous_schemas_[%d]/"+strings.TrimSpace(strings.SplitN(r.Tmpl, "previous_schemas_", 2)[0]), r.Pos, "indexed by the loop index over "+versions,
			"previous_schemas_ is indexed by `"+arg+"`, not by the index of the loop over "+versions)
	}
	if n == 0 {
		c.Undecided(rule, "previous_schemas_[%d]", d.Pos(), "no indexed use of previous_schemas_ found")
	}
}

var methodHeaderRe = regexp.MustCompile(`^\s*(def |function |VAR:signature)|::(%s|[A-Za-z]+)\([^;]*\{\s*$`)
var writeHeaderRe = regexp.MustCompile(`def write_|function write_|::Write`)
var stateAssignRe = regexp.MustCompile(`(_state|state_)\s*=[^=]`)
var stateVarRe = regexp.MustCompile(`(^|[^A-Za-z0-9])(_state|state_)([^A-Za-z0-9_]|$)`)
var stateCmpRe = regexp.MustCompile(`(_state|state_)\s*(&\s*~1\s*)?(!=|~=|==)`)
var plainReturnRe = regexp.MustCompile(`(^|[^A-Za-z_])return([^A-Za-z_]|$)`)

// emittedMethods splits the emission rows of a generator into the methods they emit (a method starts at an emission
// that looks like a function header, or where the enclosing closure changes).
func emittedMethods(rows []gee.Row) [][]gee.Row {
	var emits []gee.Row
	for _, r := range rows {
		if r.Kind == "emit" {
			emits = append(emits, r)
		}
	}
	var out [][]gee.Row
	start := -1
	for i, r := range emits {
		if methodHeaderRe.MatchString(r.Tmpl) || (i > 0 && emits[i-1].In != r.In) {
			if start >= 0 {
				out = append(out, emits[start:i])
			}
			start = i
		}
	}
	if start >= 0 {
		out = append(out, emits[start:])
	}
	return out
}

// B4: a generated batch read hands back exactly the items it read. The fallback implementation of
// Read<Step>Impl(std::vector<T>& values) fills a reused vector slot by slot; when the single-item read reports the
// end of the stream it must cut the vector down to the number of items read (`values.resize(i)`) before returning
// false — otherwise items of the previous batch stay behind the new ones.
func ruleFallbackBatchTruncates(c *core.Ctx) {
	const rule = "B4"
	c.Rule(rule, "cpp/protocols: in the emitted fallback batch reader (Read…Impl(std::vector<T>& values)) the end-of-stream branch emits `values.resize(i);` immediately before `return false;`, i being the count of items read", 1)
	rows, d := flatRows(c, "internal/cpp/protocols", "WriteProtocols")
	if d == nil {
		rows, d = flatRows(c, "internal/cpp/protocols", "writeDefinitions")
	}
	if d == nil {
		c.Undecided(rule, "anchor/cpp/protocols.WriteProtocols", 0, "anchor not found")
		return
	}
	norm := func(t string) string {
		if i := strings.Index(t, "//"); i >= 0 {
			t = t[:i]
		}
		return strings.Join(strings.Fields(t), "")
	}
	n := 0
	for _, m := range emittedMethods(rows) {
		hdr := m[0]
		isImpl := false
		for _, a := range hdr.Args {
			if strings.Contains(a, "ProtocolReadImplMethodName(") {
				isImpl = true
			}
		}
		if !isImpl || !strings.Contains(hdr.Tmpl, "std::vector<%s>& values)") || !strings.Contains(hdr.Tmpl, "{") {
			continue
		}
		n++
		ok, at := false, hdr.Pos
		sawReturnFalse := false
		for i, r := range m {
			if norm(r.Tmpl) != "returnfalse;" {
				continue
			}
			sawReturnFalse = true
			at = r.Pos
			// the statement emitted right before it (braces and blank emissions skipped)
			for j := i - 1; j > 0; j-- {
				t := norm(m[j].Tmpl)
				if t == "" || t == "{" || t == "}" {
					continue
				}
				ok = t == "values.resize(i);"
				break
			}
		}
		c.Check(ok && sawReturnFalse, rule, "fallback batch reader/truncate before reporting the end", at, "`values.resize(i);` precedes `return false;`",
			"the fallback batch reader does not cut `values` down to the items read before it reports the end of the stream: with a reused vector the last batch keeps items of the previous one")
	}
	if n == 0 {
		c.Undecided(rule, "fallback batch reader", d.Pos(), "the emission of Read…Impl(std::vector<T>& values) was not found")
	}
}

// S2: no way around the state guard. In every emitted method of a generated protocol reader/writer that contains
// a comparison of the state variable, nothing that leaves the method normally (`return`) is emitted in front of
// the first emission that mentions the state: a fast path in front of the guard accepts the call in any state.
// (Throwing in front of the guard — rejecting a bad argument — is not an acceptance.)
func ruleNoReturnBeforeStateGuard(c *core.Ctx) {
	const rule = "S2"
	c.Rule(rule, "generated protocol methods (C++, Python, MATLAB): inside a method that checks the protocol state, no `return` is emitted before the first emission that mentions the state variable", 14)
	for _, pkgRel := range []string{"internal/cpp/protocols", "internal/python/protocols", "internal/matlab/protocols"} {
		all := pkgRows(c, pkgRel)
		called := map[string]bool{}
		for fd := range all {
			for _, cs := range c.Calls(fd) {
				if cs.Callee != nil && c.DeclPkg(fd) != nil && cs.Callee.Pkg() == c.DeclPkg(fd).Types && cs.Callee.Name() != fd.Name.Name {
					called[cs.Callee.Name()] = true
				}
			}
		}
		for fd := range all {
			if fd.Recv != nil || called[fd.Name.Name] {
				continue // helpers are seen expanded in their callers
			}
			rows, _ := flatRows(c, pkgRel, fd.Name.Name) // helpers of the package expanded at their call sites
			var emits []gee.Row
			for _, r := range rows {
				if r.Kind == "emit" {
					emits = append(emits, r)
				}
			}
			// split into methods
			type span struct{ from, to int }
			var spans []span
			start := -1
			for i, r := range emits {
				boundary := methodHeaderRe.MatchString(r.Tmpl) || (i > 0 && emits[i-1].In != r.In)
				if boundary {
					if start >= 0 {
						spans = append(spans, span{start, i})
					}
					start = i
				}
			}
			if start >= 0 {
				spans = append(spans, span{start, len(emits)})
			}
			seen := map[string]int{}
			for _, sp := range spans {
				firstState, firstCmp := -1, -1
				for i := sp.from; i < sp.to; i++ {
					if firstState < 0 && stateVarRe.MatchString(emits[i].Tmpl) {
						firstState = i
					}
					if firstCmp < 0 && stateCmpRe.MatchString(emits[i].Tmpl) {
						firstCmp = i
					}
				}
				if firstCmp < 0 {
					continue // the method does not check the state
				}
				hdr := emits[sp.from]
				name := strings.TrimSpace(hdr.Tmpl)
				if len(hdr.Args) > 0 {
					name += " " + hdr.Args[len(hdr.Args)-1]
				}
				if hdr.In != "" {
					name = "<" + hdr.In + "> " + name
				}
				if len(name) > 90 {
					name = name[:90]
				}
				key := pkgRel + "." + fd.Name.Name + "/" + name
				seen[key]++
				if seen[key] > 1 {
					key += "#" + itoa(seen[key])
				}
				bad := -1
				for i := sp.from + 1; i < firstState; i++ {
					if plainReturnRe.MatchString(emits[i].Tmpl) {
						bad = i
						break
					}
				}
				if bad >= 0 {
					c.Bad(rule, key, emits[bad].Pos, "`"+strings.TrimSpace(emits[bad].Tmpl)+"` is emitted in front of the state check of this method: the call is accepted (and silently does nothing) in any protocol state, including before earlier steps and after Close")
				} else {
					c.OK(rule, key, hdr.Pos, "the first thing the method does with control flow is the state check")
				}
				// a WRITE method that passed the check records the step before it can return: a `return` between the
				// check and the first assignment of the state leaves a step that was accepted unrecorded
				if writeHeaderRe.MatchString(hdr.Tmpl) || (len(hdr.Args) > 0 && strings.Contains(strings.Join(hdr.Args, " "), "Write")) {
					// the LAST assignment records the step itself (an earlier one may close the previous stream)
					firstAssign := -1
					for i := firstCmp + 1; i < sp.to; i++ {
						if stateAssignRe.MatchString(emits[i].Tmpl) {
							firstAssign = i
						}
					}
					if firstAssign > 0 {
						bad2 := -1
						for i := firstCmp + 1; i < firstAssign; i++ {
							if plainReturnRe.MatchString(emits[i].Tmpl) {
								bad2 = i
							}
						}
						if bad2 >= 0 {
							c.Bad(rule, key+"/recorded", emits[bad2].Pos, "`"+strings.TrimSpace(emits[bad2].Tmpl)+"` is emitted between the state check and the assignment that records the step: a call that was accepted leaves the state where it was, so the next in-order call (or close) is rejected and the stream's end marker is never written")
						} else {
							c.OK(rule, key+"/recorded", hdr.Pos, "nothing returns between the state check and the assignment of the new state")
						}
					}
				}
			}
		}
	}
}

// P6b: a decoder that has failed keeps failing. yaml.v3's (and encoding/json's) Decoder returns the same error
// on every later call once the input is malformed — it never reaches io.EOF. A condition-less loop around
// Decode must therefore leave the loop on every path on which Decode returned a non-nil error; a path that goes
// round again spins forever, appending the same diagnostic until memory runs out.
func ruleDecodeLoopLeavesOnError(c *core.Ctx) {
	const rule = "P6b"
	c.Rule(rule, "front end: inside a `for { … }` loop around (*yaml.Decoder).Decode / (*json.Decoder).Decode, every path on which the call returned a non-nil error leaves the loop before the next iteration", 1)
	n := 0
	for _, d := range c.AllDecls() {
		p := c.DeclPkg(d)
		if p == nil || d.Body == nil || !strings.HasPrefix(p.PkgPath, core.Mod) {
			continue
		}
		info := p.TypesInfo
		var fc *core.FuncCFG
		ast.Inspect(d.Body, func(x ast.Node) bool {
			loop, ok := x.(*ast.ForStmt)
			if !ok {
				return true
			}
			var call *ast.CallExpr
			var errObj types.Object
			ast.Inspect(loop.Body, func(y ast.Node) bool {
				if _, isLit := y.(*ast.FuncLit); isLit {
					return false
				}
				if as, ok := y.(*ast.AssignStmt); ok && len(as.Rhs) == 1 {
					if ce, ok := ast.Unparen(as.Rhs[0]).(*ast.CallExpr); ok {
						if f := core.Callee(info, ce); f != nil && (core.FullName(f) == "(gopkg.in/yaml.v3.Decoder).Decode" || core.FullName(f) == "(encoding/json.Decoder).Decode") {
							call = ce
							errObj = identObj(info, as.Lhs[len(as.Lhs)-1])
						}
					}
				}
				return true
			})
			if call == nil || errObj == nil {
				return true
			}
			if loop.Cond != nil {
				if o, _, isNil := core.IsNilTest(info, loop.Cond); !isNil || o != errObj {
					return true // a counted loop: it ends by itself
				}
			}
			n++
			key := c.FuncName(d) + "/for { Decode }"
			if loop.Cond != nil {
				// `for err == nil { err = d.Decode(..) }`: the loop condition itself is the exit on error, provided
				// nothing else in the body overwrites the error and no path skips back past the condition (none can)
				o, neq, isNil := core.IsNilTest(info, loop.Cond)
				writes := 0
				ast.Inspect(loop.Body, func(y ast.Node) bool {
					if as, ok := y.(*ast.AssignStmt); ok {
						for _, l := range as.Lhs {
							if identObj(info, l) == errObj {
								writes++
							}
						}
					}
					return true
				})
				c.Check(isNil && !neq && o == errObj && writes == 1, rule, key, loop.Pos(), "the loop runs only while the error is nil",
					"the loop around Decode has a condition that does not stop it once Decode has failed: the decoder keeps returning the same error and yardl never terminates")
				return true
			}
			if fc == nil {
				fc = core.NewCFG(d.Body, info)
			}
			decodeBlock := fc.BlockOf(call)
			inside := func(b *cfg.Block) bool {
				if b.Stmt != nil {
					return loop.Body.Pos() <= b.Stmt.Pos() && b.Stmt.End() <= loop.Body.End()
				}
				for _, nd := range b.Nodes {
					if nd.Pos() < loop.Body.Pos() || nd.End() > loop.Body.End() {
						return false
					}
				}
				return len(b.Nodes) > 0
			}
			// the branches on which the error is known to be non-nil
			var starts []*cfg.Block
			ast.Inspect(loop.Body, func(y ast.Node) bool {
				is, ok := y.(*ast.IfStmt)
				if !ok {
					return true
				}
				o, neq, ok := core.IsNilTest(info, is.Cond)
				if !ok || o != errObj {
					return true
				}
				var br *ast.BlockStmt
				if neq {
					br = is.Body
				} else if eb, ok := is.Else.(*ast.BlockStmt); ok {
					br = eb
				}
				if br != nil && len(br.List) > 0 {
					if b := fc.BlockOf(br.List[0]); b != nil {
						starts = append(starts, b)
					}
				}
				if !neq && is.Else == nil && len(is.Body.List) > 0 && stmtLeaves(is.Body.List[len(is.Body.List)-1]) {
					// `if err == nil { continue }`: what follows the if runs with the error set
					ast.Inspect(loop.Body, func(z ast.Node) bool {
						blk, ok := z.(*ast.BlockStmt)
						if !ok {
							return true
						}
						for i, st := range blk.List {
							if st == ast.Stmt(is) && i+1 < len(blk.List) {
								if b := fc.BlockOf(blk.List[i+1]); b != nil {
									starts = append(starts, b)
								}
							}
						}
						return true
					})
				}
				return true
			})
			if decodeBlock == nil || len(starts) == 0 {
				c.Undecided(rule, key, loop.Pos(), "cannot find the test of Decode's error inside the loop")
				return true
			}
			bad := false
			seen := map[int32]bool{}
			var walk func(b *cfg.Block)
			walk = func(b *cfg.Block) {
				for _, s := range b.Succs {
					if s == decodeBlock {
						bad = true
						return
					}
					if seen[s.Index] || !inside(s) {
						continue
					}
					seen[s.Index] = true
					walk(s)
				}
			}
			for _, s := range starts {
				if s == decodeBlock {
					bad = true
				}
				seen[s.Index] = true
				walk(s)
			}
			c.Check(!bad, rule, key, loop.Pos(), "every path with a non-nil Decode error leaves the loop",
				"a path on which Decode returned an error goes round the loop again: the decoder returns the same error on every later call (never io.EOF), so a file with a YAML syntax error makes yardl spin and allocate without bound")
			return true
		})
	}
	if n == 0 {
		c.Undecided(rule, "decode loops", 0, "no `for {}` loop around a Decoder.Decode call found")
	}
}

// V7: a validation pass sees the whole environment. Imported packages and previous versions are validated through
// the same Environment (their namespaces are flattened into it); a pass whose traversal starts at a part of it —
// the top-level namespace, the first namespace — leaves the rule it implements unchecked for every imported package,
// and generation then proceeds on a model that should have been rejected.
// fullIndexLoop: `at` lies in the body of `for i := 0; i < len(S); i++` or `for i := range S` with i the given
// variable and S the given expression (compared as text).
func fullIndexLoop(info *types.Info, body *ast.BlockStmt, iv types.Object, S ast.Expr, at ast.Node) bool {
	want := types.ExprString(S)
	found := false
	ast.Inspect(body, func(n ast.Node) bool {
		switch l := n.(type) {
		case *ast.RangeStmt:
			if l.Body.Pos() <= at.Pos() && at.End() <= l.Body.End() && identObj(info, l.Key) == iv && types.ExprString(l.X) == want {
				found = true
			}
		case *ast.ForStmt:
			if !(l.Body.Pos() <= at.Pos() && at.End() <= l.Body.End()) {
				return true
			}
			init, ok1 := l.Init.(*ast.AssignStmt)
			cond, ok2 := l.Cond.(*ast.BinaryExpr)
			post, ok3 := l.Post.(*ast.IncDecStmt)
			if !ok1 || !ok2 || !ok3 || len(init.Lhs) != 1 || len(init.Rhs) != 1 || post.Tok != token.INC || cond.Op != token.LSS {
				return true
			}
			if v, isC := constInt(info, init.Rhs[0]); !isC || v != 0 || identObj(info, init.Lhs[0]) != iv || identObj(info, post.X) != iv || identObj(info, cond.X) != iv {
				return true
			}
			if a, isLen := lenArg(info, cond.Y); isLen && types.ExprString(a) == want {
				found = true
			}
		}
		return true
	})
	return found
}

func rulePassesWalkWholeEnvironment(c *core.Ctx) {
	const rule = "V7"
	c.Rule(rule, "pkg/dsl: every function with the ValidationPass signature starts its traversal (Visit / VisitWithContext / Rewrite / RewriteWithContext, or a loop over Namespaces) at its *Environment parameter itself, never at a part of it", 12)
	p := c.Pkg("pkg/dsl")
	if p == nil {
		c.Undecided(rule, "anchor/pkg/dsl", 0, "package not found")
		return
	}
	info := p.TypesInfo
	tn, _ := p.Types.Scope().Lookup("ValidationPass").(*types.TypeName)
	if tn == nil {
		c.Undecided(rule, "anchor/ValidationPass", 0, "type not found")
		return
	}
	for _, d := range c.AllDecls() {
		if c.DeclPkg(d) != p || d.Body == nil || d.Recv != nil {
			continue
		}
		f, _ := info.Defs[d.Name].(*types.Func)
		if f == nil || !types.Identical(f.Type(), tn.Type().Underlying()) {
			continue
		}
		params := paramObjs(info, d)
		if len(params) == 0 || params[0] == nil {
			continue
		}
		env := params[0]
		// a pass that asks the environment for its top-level namespace looks at the package being compiled only:
		// the rule it implements is not applied to imported packages
		{
			var topCall *ast.CallExpr
			ast.Inspect(d.Body, func(n ast.Node) bool {
				if ce, ok := n.(*ast.CallExpr); ok {
					if se, ok := ast.Unparen(ce.Fun).(*ast.SelectorExpr); ok && se.Sel.Name == "GetTopLevelNamespace" && identObj(info, se.X) == env {
						topCall = ce
					}
				}
				return true
			})
			pos := d.Pos()
			if topCall != nil {
				pos = topCall.Pos()
			}
			c.Check(topCall == nil, rule, d.Name.Name+"/not restricted to the top-level namespace", pos, "the pass does not single out the top-level namespace",
				"the pass works on env.GetTopLevelNamespace(): definitions of imported packages are never checked by it, and generation proceeds on a model that should have been rejected")
		}
		// loop variables ranging over env.Namespaces
		nsVars := map[types.Object]bool{}
		ast.Inspect(d.Body, func(n ast.Node) bool {
			if rs, ok := n.(*ast.RangeStmt); ok {
				if se, ok := ast.Unparen(rs.X).(*ast.SelectorExpr); ok && se.Sel.Name == "Namespaces" && identObj(info, se.X) == env {
					if o := identObj(info, rs.Value); o != nil {
						nsVars[o] = true
					}
				}
			}
			return true
		})
		nRoots := 0
		var walk func(n ast.Node, depth int)
		walk = func(n ast.Node, depth int) {
			ast.Inspect(n, func(x ast.Node) bool {
				if _, isLit := x.(*ast.FuncLit); isLit && x != n {
					return false // traversal calls inside the callback continue a walk, they do not start one
				}
				ce, ok := x.(*ast.CallExpr)
				if !ok || len(ce.Args) == 0 {
					return true
				}
				callee := core.Callee(info, ce)
				if callee == nil || callee.Pkg() != p.Types {
					return true
				}
				nm := callee.Name()
				if !(strings.HasPrefix(nm, "Visit") || strings.HasPrefix(nm, "Rewrite")) || info.Selections[selOf(ce)] != nil {
					return true
				}
				nRoots++
				root := ast.Unparen(ce.Args[0])
				o := identObj(info, root)
				key := d.Name.Name + "/" + nm + "(" + types.ExprString(root) + ")"
				// env.Namespaces[i] inside a loop that runs i over every index of env.Namespaces
				ixRoot := root
				if id, isID := root.(*ast.Ident); isID && o != nil && o != env && !nsVars[o] {
					// `ns := env.Namespaces[i]` defined once, inside such a loop
					if r := singleDefRHS(info, d.Body, id); r != ast.Expr(id) {
						ixRoot = ast.Unparen(r)
					}
				}
				if ix, isIx := ixRoot.(*ast.IndexExpr); isIx {
					if se, isSel := ast.Unparen(ix.X).(*ast.SelectorExpr); isSel && se.Sel.Name == "Namespaces" && identObj(info, se.X) == env {
						if iv := identObj(info, ix.Index); iv != nil && fullIndexLoop(info, d.Body, iv, se, ce) {
							o = env
						}
					}
				}
				c.Check(o != nil && (o == env || nsVars[o]), rule, key, ce.Pos(), "the traversal starts at the environment (or runs for every namespace of it)",
					"the pass starts its traversal at `"+types.ExprString(root)+"`, a part of the environment: definitions of imported packages (and whatever else lies outside that part) are never checked by this pass")
				return true
			})
		}
		walk(d.Body, 0)
		_ = nRoots
	}
}

func selOf(ce *ast.CallExpr) *ast.SelectorExpr {
	se, _ := ast.Unparen(ce.Fun).(*ast.SelectorExpr)
	return se
}

// Q6: a model directory is the union of its files. ParseYamlInDir parses every file into its own Namespace and
// combines them. Every slice field that (*Namespace).UnmarshalYAML fills must be carried into the combined namespace
// by appending (`combined.F = append(combined.F, file.F...)`) inside the loop over the files: a plain assignment keeps
// only the last file's definitions, a missing statement drops the field — and the same model written as one file or
// as several then yields different packages.
func ruleFilesAreCombined(c *core.Ctx) {
	const rule = "Q6"
	c.Rule(rule, "dsl.ParseYamlInDir: every slice field of Namespace that the YAML unmarshaller fills is accumulated over the files with append inside the file loop (never overwritten, never dropped)", 2)
	p := c.Pkg("pkg/dsl")
	_, d, _ := c.Func("pkg/dsl", "ParseYamlInDir")
	if p == nil || d == nil {
		c.Undecided(rule, "anchor/pkg/dsl.ParseYamlInDir", 0, "anchor not found")
		return
	}
	info := p.TypesInfo
	// fields filled by the unmarshaller
	filled := map[string]bool{}
	for _, od := range c.AllDecls() {
		if c.DeclPkg(od) != p || od.Recv == nil || od.Name.Name != "UnmarshalYAML" {
			continue
		}
		if nt := core.NamedOf(info.TypeOf(od.Recv.List[0].Type)); nt == nil || nt.Obj().Name() != "Namespace" {
			continue
		}
		recv := info.Defs[od.Recv.List[0].Names[0]]
		ast.Inspect(od.Body, func(n ast.Node) bool {
			if as, ok := n.(*ast.AssignStmt); ok {
				for _, l := range as.Lhs {
					if se, ok := ast.Unparen(l).(*ast.SelectorExpr); ok && identObj(info, se.X) == recv {
						if _, isSlice := info.TypeOf(se).Underlying().(*types.Slice); isSlice {
							filled[se.Sel.Name] = true
						}
					}
				}
			}
			return true
		})
	}
	if len(filled) == 0 {
		c.Undecided(rule, "Namespace.UnmarshalYAML", d.Pos(), "cannot find the slice fields the unmarshaller fills")
		return
	}
	// assignments to a Namespace's slice fields inside loops of ParseYamlInDir and of the helpers it calls in the package
	type combine struct {
		field  string
		append bool
		inLoop bool
		pos    token.Pos
	}
	var combos []combine
	for _, fd := range declsCalledInPkg(c, d, 2) {
		var loops []ast.Node
		var walk func(n ast.Node)
		walk = func(n ast.Node) {
			ast.Inspect(n, func(x ast.Node) bool {
				switch s := x.(type) {
				case *ast.RangeStmt:
					loops = append(loops, s)
					walk(s.Body)
					loops = loops[:len(loops)-1]
					return false
				case *ast.ForStmt:
					loops = append(loops, s)
					walk(s.Body)
					loops = loops[:len(loops)-1]
					return false
				case *ast.AssignStmt:
					for i, l := range s.Lhs {
						se, ok := ast.Unparen(l).(*ast.SelectorExpr)
						if !ok || !filled[se.Sel.Name] {
							continue
						}
						if nt := core.NamedOf(info.TypeOf(se.X)); nt == nil || nt.Obj().Name() != "Namespace" {
							continue
						}
						if i >= len(s.Rhs) {
							continue
						}
						// only statements that copy from another Namespace value are combinations
						from := false
						ast.Inspect(s.Rhs[i], func(y ast.Node) bool {
							if r, ok := y.(*ast.SelectorExpr); ok && r.Sel.Name == se.Sel.Name && types.ExprString(r.X) != types.ExprString(se.X) {
								if nt := core.NamedOf(info.TypeOf(r.X)); nt != nil && nt.Obj().Name() == "Namespace" {
									from = true
								}
							}
							return true
						})
						if !from {
							continue
						}
						isApp := false
						if ce, ok := ast.Unparen(s.Rhs[i]).(*ast.CallExpr); ok {
							if id, ok := ce.Fun.(*ast.Ident); ok && id.Name == "append" && len(ce.Args) >= 2 && types.ExprString(ce.Args[0]) == types.ExprString(se) {
								isApp = true
							}
						}
						combos = append(combos, combine{se.Sel.Name, isApp, len(loops) > 0, s.Pos()})
					}
				}
				return true
			})
		}
		walk(fd.Body)
	}
	var names []string
	for f := range filled {
		names = append(names, f)
	}
	sort.Strings(names)
	for _, f := range names {
		var found *combine
		for i := range combos {
			if combos[i].field == f {
				found = &combos[i]
				if !combos[i].append {
					break
				}
			}
		}
		key := "ParseYamlInDir/combine Namespace." + f
		if found == nil {
			c.Bad(rule, key, d.Pos(), "Namespace."+f+" of the parsed files is never carried into the combined namespace")
			continue
		}
		c.Check(found.append && found.inLoop, rule, key, found.pos, "accumulated with append over the files",
			"Namespace."+f+" is assigned, not appended, when the files are combined: only the definitions of the last file (in sorted order) survive, so a model split over several files loses "+f)
	}
}

// G5: inside the MATLAB back end the extents of a fixed array are listed in the same (reversed, column-major) order
// wherever they are emitted: the serializer argument (matlab/binary.typeSerializer) and the default value of a field
// (matlab/types.typeDefault). If the two disagree, a freshly constructed record has a field whose shape its own
// serializer rejects or transposes.
func ruleMatlabExtentOrderAgrees(c *core.Ctx) {
	const rule = "G5"
	c.Rule(rule, "matlab: every place that lists the extents of a fixed array (serializer argument, default value) fills its list with the same index expression over Array.Dimensions, and that expression is the reversed one", 2)
	idxRe := regexp.MustCompile(`^assign:\w+\[(.*)\]$`)
	var first string
	n := 0
	for _, site := range [][2]string{{"internal/matlab/binary", "typeSerializer"}, {"internal/matlab/types", "typeDefault"}} {
		rows, d, _ := geeRows(c, site[0], site[1])
		if d == nil {
			c.Undecided(rule, "anchor/"+site[0]+"."+site[1], 0, "anchor not found")
			continue
		}
		found := false
		for _, r := range rows {
			m := idxRe.FindStringSubmatch(r.Kind)
			if m == nil && strings.HasPrefix(r.Kind, "append:") && len(r.Args) > 0 && strings.Contains(r.Args[0], "ArrayDimension.Length") {
				// appended while walking the dimensions from the last to the first: the same order
				for _, l := range r.Loop {
					if l == "rrange Array.Dimensions" {
						m = []string{"", "len(Array.Dimensions) - i - 1"}
						r.Loop = append(append([]string(nil), r.Loop...), "range Array.Dimensions")
						r.LoopIx = append(append([]string(nil), r.LoopIx...), "i")
					}
				}
			}
			if m == nil || !hasLoop(r, "Array.Dimensions") || len(r.Args) == 0 || !strings.Contains(r.Args[0], "ArrayDimension.Length") {
				continue
			}
			found = true
			n++
			ix := strings.ReplaceAll(m[1], " ", "")
			loopIx := ""
			for li, l := range r.Loop {
				if l == "range Array.Dimensions" && li < len(r.LoopIx) {
					loopIx = r.LoopIx[li]
				}
			}
			norm := strings.ReplaceAll(ix, loopIx, "i")
			reversed := norm == "len(Array.Dimensions)-i-1" || norm == "len(Array.Dimensions)-1-i"
			key := site[0] + "." + site[1] + "/fixed array extents"
			c.Check(reversed, rule, key, r.Pos, "extent of dimension i goes to position n-1-i", "the extent list is filled at index `"+m[1]+"`: not the reversed order MATLAB's column-major layout needs (the other emission sites of the back end and the runtime use n-1-i)")
			if first == "" {
				first = norm
			} else {
				c.Check(norm == first, rule, key+"/same as the other sites", r.Pos, "same index expression as the other emission sites", "this site fills the extent list at `"+norm+"`, another site at `"+first+"`: default values and serializers of the same field disagree about its shape")
			}
		}
		if !found {
			c.Undecided(rule, site[0]+"."+site[1]+"/fixed array extents", d.Pos(), "no indexed assignment of extents inside a loop over Array.Dimensions found")
		}
	}
	_ = n
}

// X7: a type conversion in a computed field is always printed as an explicit conversion. yardl's `e as T` changes
// the type the rest of the expression is computed in (e.g. `(a as int64) * b`); the target language's own implicit
// conversions are different (C++ usual arithmetic conversions, MATLAB's saturating classes), so an emitter may not
// drop the conversion under any condition: inside the *dsl.TypeConversionExpression case the emission of the
// conversion wrapper is guarded by nothing but the case itself.
func ruleConversionAlwaysExplicit(c *core.Ctx) {
	const rule = "X7"
	c.Rule(rule, "each expression emitter prints `e as T` as an explicit conversion on every path of its TypeConversionExpression case (C++ static_cast<T>(, Python <callable>(, MATLAB <class>( through writeTypeConversion)", 3)
	isConv := func(r gee.Row, lang string) bool {
		switch lang {
		case "cpp":
			return r.Kind == "emit" && strings.Contains(r.Tmpl, "static_cast<%s>(")
		case "python":
			return r.Kind == "emit" && strings.HasSuffix(strings.TrimSpace(r.Tmpl), "%s(") && len(r.Args) == 1 && strings.Contains(r.Args[0], "TypeConversionExpression.Type")
		case "matlab":
			return (r.Kind == "call" && len(r.Args) >= 2 && strings.Contains(r.Args[1], "TypeConversionExpression.Type")) ||
				(r.Kind == "emit" && strings.HasSuffix(strings.TrimSpace(r.Tmpl), "(") && len(r.Args) >= 1 && strings.Contains(strings.Join(r.Args, " "), "TypeConversionExpression.Type"))
		}
		return false
	}
	for _, em := range exprEmitters {
		p := c.Pkg(em.pkg)
		_, d, _ := c.Func(em.pkg, em.fn)
		if d == nil || p == nil {
			c.Undecided(rule, em.name+"/anchor", 0, "emitter not found")
			continue
		}
		x := &gee.Extractor{Info: p.TypesInfo, Fset: c.Fset, Decl: func(f *types.Func) *ast.FuncDecl {
			if f == nil || f.Pkg() != p.Types {
				return nil
			}
			return c.Decl(f)
		}}
		const label = "type(Node)∈{TypeConversionExpression}"
		var inCase []gee.Row
		for _, r := range x.Extract(em.fn, d) {
			for _, g := range r.Guards {
				if stripDsl(g) == label {
					inCase = append(inCase, r)
					break
				}
			}
		}
		key := em.name + "/TypeConversionExpression/explicit conversion"
		if len(inCase) == 0 {
			c.Undecided(rule, key, d.Pos(), "case *dsl.TypeConversionExpression not found in the emitter")
			continue
		}
		var conv *gee.Row
		for i := range inCase {
			if isConv(inCase[i], em.name) {
				conv = &inCase[i]
				break
			}
		}
		// second engine: the case evaluated path by path over the finite domain (helpers, closures handed along with the
		// operand, text assembled by concatenation); where it can decide, its answer is taken
		if decided, wrapped, witness := conversionWrapped(c, p.TypesInfo, d); decided {
			c.Tables["X7_engine/"+em.name] = "finite-domain evaluation"
			c.Check(wrapped, rule, key, inCase[0].Pos, "every path of the case prints `<conversion>(` operand `)`",
				"on some path of the TypeConversionExpression case the operand is not wrapped in a conversion ("+witness+"): `e as T` is printed as `e` and the target language's implicit conversions decide the arithmetic")
			continue
		}
		c.Tables["X7_engine/"+em.name] = "row extraction"
		if conv == nil {
			c.Bad(rule, key, inCase[0].Pos, "the TypeConversionExpression case emits no conversion wrapper: `e as T` is printed as `e`")
			continue
		}
		var extra []string
		for _, g := range conv.Guards {
			if stripDsl(g) != label {
				extra = append(extra, g)
			}
		}
		c.Check(len(extra) == 0, rule, key, conv.Pos, "the conversion wrapper is emitted on every path of the case",
			"the conversion is emitted only under `"+strings.Join(extra, " ∧ ")+"`; otherwise `e as T` is printed as `e` and the target language's implicit conversions decide the arithmetic (e.g. a 32-bit multiply for `(i32 as int64) * i32`, unsigned arithmetic for `u32 + i32`)")
	}
}

// X8: the MATLAB conversion wrapper names the class of the target primitive. Sibling tables inside the MATLAB back
// end — the class printed for a primitive type (common.TypeSyntaxWriter) and the wrapper writeTypeConversion puts
// around `e as <primitive>` — must agree for every integer and floating-point primitive.
func ruleMatlabConversionClass(c *core.Ctx) {
	const rule = "X8"
	c.Rule(rule, "matlab: for every integer and floating-point primitive the wrapper printed for `e as T` (types.writeTypeConversion) is the MATLAB class printed for T elsewhere (common.TypeSyntaxWriter)", 10)
	primRows := func(pkgRel, fn string) (map[string]string, *ast.FuncDecl) {
		out := map[string]string{}
		p := c.Pkg(pkgRel)
		if p == nil {
			return out, nil
		}
		var d *ast.FuncDecl
		var body ast.Node
		for _, f := range p.Syntax {
			for _, dd := range f.Decls {
				switch x := dd.(type) {
				case *ast.FuncDecl:
					if x.Name.Name == fn {
						d = x
					}
				case *ast.GenDecl:
					for _, sp := range x.Specs {
						if vs, ok := sp.(*ast.ValueSpec); ok {
							for i, nm := range vs.Names {
								if nm.Name == fn && i < len(vs.Values) {
									if fl, ok := vs.Values[i].(*ast.FuncLit); ok {
										body = fl
										d = &ast.FuncDecl{Name: nm, Type: fl.Type, Body: fl.Body}
									}
								}
							}
						}
					}
				}
			}
		}
		_ = body
		if d == nil {
			return out, nil
		}
		x := &gee.Extractor{Info: p.TypesInfo, Fset: c.Fset}
		for _, r := range x.Extract(fn, d) {
			if r.Kind != "return" || strings.Contains(r.Tmpl, "%") {
				continue
			}
			for _, g := range r.Guards {
				g = stripDsl(g)
				if strings.HasPrefix(g, "PrimitiveDefinition∈{") {
					for _, prim := range strings.Split(g[len("PrimitiveDefinition∈{"):len(g)-1], "|") {
						prim = strings.Trim(prim, "\"")
						if _, dup := out[prim]; !dup {
							out[prim] = r.Tmpl
						}
					}
				}
			}
		}
		return out, d
	}
	syntax, sd := primRows("internal/matlab/common", "TypeSyntaxWriter")
	wrap, wd := primRows("internal/matlab/types", "writeTypeConversion")
	if sd == nil || wd == nil || len(syntax) == 0 || len(wrap) == 0 {
		c.Undecided(rule, "anchor/matlab TypeSyntaxWriter / writeTypeConversion", 0, fmt.Sprintf("tables not found (%d / %d rows)", len(syntax), len(wrap)))
		return
	}
	for _, prim := range []string{"int8", "uint8", "int16", "uint16", "int32", "uint32", "int64", "uint64", "size", "float32", "float64"} {
		w, s := wrap[prim], syntax[prim]
		c.Check(w != "" && s != "" && w == s+"(", rule, "matlab/conversion wrapper/"+prim, wd.Pos(), prim+" → "+w,
			fmt.Sprintf("`e as %s` is wrapped in `%s…)` although the MATLAB class of %s is `%s`: the value gets another class (range, saturation and the serializer's class check differ)", strings.ToLower(prim), w, strings.ToLower(prim), s))
	}
}

// R1: a type reference is resolved only after its arity was checked. resolveType stores the resolved definition into
// SimpleType.ResolvedDefinition; every such store must lie behind the test that the number of type arguments the user
// wrote equals the number of type parameters of the definition (with an error exit), so that arguments given to a
// non-generic type, or too few/many arguments, are rejected instead of being ignored.
func ruleArityCheckedBeforeResolution(c *core.Ctx) {
	const rule = "R1"
	c.Rule(rule, "dsl.resolveType: every store to SimpleType.ResolvedDefinition is dominated by the comparison of len(TypeParameters) with len(TypeArguments) whose mismatch branch returns an error", 2)
	_, d, p := c.Func("pkg/dsl", "resolveType")
	if d == nil {
		c.Undecided(rule, "anchor/pkg/dsl.resolveType", 0, "anchor not found")
		return
	}
	info := p.TypesInfo
	fc := core.NewCFG(d.Body, info)
	// the arity test
	var test *ast.IfStmt
	ast.Inspect(d.Body, func(n ast.Node) bool {
		is, ok := n.(*ast.IfStmt)
		if !ok || test != nil {
			return true
		}
		be, ok := ast.Unparen(is.Cond).(*ast.BinaryExpr)
		if !ok || (be.Op != token.NEQ && be.Op != token.EQL) {
			return true
		}
		// each operand, seen through a local it may have been stored in first
		side := func(e ast.Expr) string {
			if id, isId := ast.Unparen(e).(*ast.Ident); isId {
				e = singleDefRHS(info, d.Body, id)
			}
			if a, isLen := lenArg(info, e); isLen {
				if se, isSel := ast.Unparen(a).(*ast.SelectorExpr); isSel {
					return se.Sel.Name
				}
			}
			return ""
		}
		l, r := side(be.X), side(be.Y)
		if !((l == "TypeParameters" && r == "TypeArguments") || (l == "TypeArguments" && r == "TypeParameters")) {
			return true
		}
		// the mismatch branch leaves with a non-nil error
		branch := is.Body
		if be.Op == token.EQL {
			eb, ok := is.Else.(*ast.BlockStmt)
			if !ok {
				return true
			}
			branch = eb
		}
		leaves := false
		if len(branch.List) > 0 {
			if r, ok := branch.List[len(branch.List)-1].(*ast.ReturnStmt); ok && len(r.Results) > 0 {
				if tv, ok := info.Types[r.Results[len(r.Results)-1]]; ok && !tv.IsNil() {
					leaves = true
				}
			}
		}
		if leaves {
			test = is
		}
		return true
	})
	if test == nil {
		c.Bad(rule, "resolveType/arity test", d.Pos(), "resolveType no longer compares the number of type arguments with the number of type parameters (with an error exit)")
		return
	}
	tb := fc.BlockOf(test.Cond)
	n := 0
	ast.Inspect(d.Body, func(x ast.Node) bool {
		as, ok := x.(*ast.AssignStmt)
		if !ok {
			return true
		}
		for _, l := range as.Lhs {
			se, ok := ast.Unparen(l).(*ast.SelectorExpr)
			if !ok || se.Sel.Name != "ResolvedDefinition" {
				continue
			}
			if nt := core.NamedOf(info.TypeOf(se.X)); nt == nil || nt.Obj().Name() != "SimpleType" {
				continue
			}
			n++
			key := "resolveType/store to ResolvedDefinition"
			if n > 1 {
				key += "#" + itoa(n)
			}
			ab := fc.BlockOf(as)
			good := tb != nil && ab != nil && tb != ab && fc.BlockDominates(tb, ab) && as.Pos() > test.End()
			c.Check(good, rule, key, as.Pos(), "behind the arity check", "the definition is stored on a path that has not passed the arity check: type arguments written on a primitive or a non-generic type (`string<int>`, `Point<float>`) are accepted and ignored")
		}
		return true
	})
	if n == 0 {
		c.Undecided(rule, "resolveType/store to ResolvedDefinition", d.Pos(), "no store to SimpleType.ResolvedDefinition found")
	}
}

// N6: a documentation comment cannot close its own docstring. python/common.WriteDocstring puts the model's comment
// between `"""` delimiters; a comment that starts or ends with `"` would run into the delimiter, so the writer pads it
// with a space. The padding must depend on nothing but that test: any further condition (single-line only, multi-line
// only, ...) leaves comments for which `"""…""""` is emitted, and the generated module does not parse.
func ruleDocstringQuotePadding(c *core.Ctx) {
	const rule = "N6"
	c.Rule(rule, "python/common.WriteDocstring: a comment that ends (starts) with a double quote gets a space appended (prepended), under that test alone, before it is written between the triple-quote delimiters; backslashes and embedded delimiters are escaped first", 4)
	f0, d0, p := c.Func("internal/python/common", "WriteDocstring")
	if d0 == nil {
		c.Undecided(rule, "anchor/python/common.WriteDocstring", 0, "anchor not found")
		return
	}
	info := p.TypesInfo
	// the writer and the same-package helpers it calls (three levels)
	scope := []*ast.FuncDecl{d0}
	seen := map[*types.Func]bool{f0: true}
	for i := 0; i < len(scope) && i < 12; i++ {
		for _, cs := range c.Calls(scope[i]) {
			if cs.Callee == nil || cs.Callee.Pkg() != p.Types || seen[cs.Callee.Origin()] {
				continue
			}
			seen[cs.Callee.Origin()] = true
			if fd := c.Decl(cs.Callee.Origin()); fd != nil && fd.Body != nil {
				scope = append(scope, fd)
			}
		}
	}
	constStr := func(e ast.Expr) (string, bool) {
		if tv, ok := info.Types[e]; ok && tv.Value != nil && tv.Value.Kind() == constant.String {
			return constant.StringVal(tv.Value), true
		}
		return "", false
	}
	isEmptyTest := func(e ast.Expr) bool {
		be, ok := ast.Unparen(e).(*ast.BinaryExpr)
		if !ok || (be.Op != token.EQL && be.Op != token.NEQ && be.Op != token.GTR) {
			return false
		}
		if v, ok := constStr(be.Y); ok && v == "" {
			return true
		}
		if _, isLen := lenArg(info, be.X); isLen {
			if v, ok := constInt(info, be.Y); ok && v == 0 {
				return true
			}
		}
		return false
	}
	// conditions a statement is nested under inside its function (emptiness tests do not count)
	guardsOf := func(d *ast.FuncDecl, n ast.Node) ([]ast.Expr, bool) {
		var out []ast.Expr
		plain := true
		var stack []ast.Node
		ast.Inspect(d.Body, func(x ast.Node) bool {
			if x == nil {
				stack = stack[:len(stack)-1]
				return true
			}
			stack = append(stack, x)
			if x == n {
				for i, a := range stack[:len(stack)-1] {
					switch y := a.(type) {
					case *ast.IfStmt:
						if stack[i+1] == ast.Node(y.Body) {
							if !isEmptyTest(y.Cond) {
								out = append(out, y.Cond)
							}
						} else if stack[i+1] != ast.Node(y.Init) && stack[i+1] != ast.Node(y.Cond) {
							plain = false // an else branch
						}
					case *ast.ForStmt, *ast.RangeStmt, *ast.SwitchStmt, *ast.TypeSwitchStmt, *ast.FuncLit:
						plain = false
					}
				}
			}
			return true
		})
		return out, plain
	}
	// --- escaping
	escaped := map[string]token.Pos{}
	noteReplacer := func(args []ast.Expr, at token.Pos) {
		for i := 0; i+1 < len(args); i += 2 {
			from, ok1 := constStr(args[i])
			to, ok2 := constStr(args[i+1])
			if ok1 && ok2 && to != from && to != "" {
				escaped[from] = at
			}
		}
	}
	replacerArgs := func(e ast.Expr) []ast.Expr {
		// the NewReplacer(...) call a *strings.Replacer expression comes from: a call, or a variable initialised once
		if ce, ok := ast.Unparen(e).(*ast.CallExpr); ok {
			if f := core.Callee(info, ce); f != nil && core.FullName(f) == "strings.NewReplacer" {
				return ce.Args
			}
			return nil
		}
		id, ok := ast.Unparen(e).(*ast.Ident)
		if !ok {
			return nil
		}
		obj := info.ObjectOf(id)
		var args []ast.Expr
		n := 0
		for _, file := range p.Syntax {
			ast.Inspect(file, func(x ast.Node) bool {
				switch y := x.(type) {
				case *ast.ValueSpec:
					for i, nm := range y.Names {
						if info.Defs[nm] == obj && i < len(y.Values) {
							n++
							if ce, ok := ast.Unparen(y.Values[i]).(*ast.CallExpr); ok {
								if f := core.Callee(info, ce); f != nil && core.FullName(f) == "strings.NewReplacer" {
									args = ce.Args
								}
							}
						}
					}
				case *ast.AssignStmt:
					for i, l := range y.Lhs {
						if li, ok := l.(*ast.Ident); ok && info.ObjectOf(li) == obj {
							n++
							if len(y.Lhs) == len(y.Rhs) {
								if ce, ok := ast.Unparen(y.Rhs[i]).(*ast.CallExpr); ok {
									if f := core.Callee(info, ce); f != nil && core.FullName(f) == "strings.NewReplacer" {
										args = ce.Args
									}
								}
							}
						}
					}
				}
				return true
			})
		}
		if n != 1 {
			return nil
		}
		return args
	}
	for _, d := range scope {
		ast.Inspect(d.Body, func(n ast.Node) bool {
			ce, ok := n.(*ast.CallExpr)
			if !ok {
				return true
			}
			f := core.Callee(info, ce)
			if f == nil {
				return true
			}
			var pairs []ast.Expr
			switch core.FullName(f) {
			case "strings.ReplaceAll":
				if len(ce.Args) == 3 {
					pairs = ce.Args[1:]
				}
			case "(strings.Replacer).Replace", "(*strings.Replacer).Replace":
				if se, ok := ast.Unparen(ce.Fun).(*ast.SelectorExpr); ok {
					pairs = replacerArgs(se.X)
				}
			}
			if pairs == nil {
				return true
			}
			if gs, plain := guardsOf(d, ce); len(gs) == 0 && plain {
				noteReplacer(pairs, ce.Pos())
			}
			return true
		})
	}
	raw := false
	for _, d := range scope {
		ast.Inspect(d.Body, func(n ast.Node) bool {
			if e, ok := n.(ast.Expr); ok {
				if v, ok := constStr(e); ok && (strings.HasPrefix(v, `r"""`) || strings.HasPrefix(v, `R"""`)) {
					raw = true
				}
			}
			return true
		})
	}
	for _, e := range []struct{ key, from, why string }{
		{"backslashes escaped", "\\", "a backslash of the comment is interpreted by Python: `C:\\users` is an invalid \\u escape and the generated module does not compile"},
		{"embedded delimiter escaped", `"""`, "a `\"\"\"` inside the comment closes the docstring early and the rest of the comment is parsed as code"},
	} {
		at, ok := escaped[e.from]
		if !ok {
			at = d0.Pos()
		}
		if e.key == "backslashes escaped" && raw {
			ok = true
		}
		c.Check(ok, rule, "WriteDocstring/"+e.key, at, "escaped unconditionally before the literal is written", e.why)
	}
	// --- padding
	resolveBool := func(d *ast.FuncDecl, e ast.Expr) ast.Expr {
		for i := 0; i < 3; i++ {
			id, ok := ast.Unparen(e).(*ast.Ident)
			if !ok {
				break
			}
			r := singleDefRHS(info, d.Body, id)
			if r == ast.Expr(id) {
				break
			}
			e = r
		}
		return ast.Unparen(e)
	}
	isQuote := func(e ast.Expr) bool {
		if tv, ok := info.Types[e]; ok && tv.Value != nil {
			if tv.Value.Kind() == constant.String {
				return constant.StringVal(tv.Value) == "\""
			}
			if v, exact := constant.Int64Val(tv.Value); exact {
				return v == '"'
			}
		}
		return false
	}
	// quoteTest: "leading" / "trailing" when e is exactly one test of the first / last character against a double quote
	quoteTest := func(d *ast.FuncDecl, e ast.Expr) string {
		switch x := resolveBool(d, e).(type) {
		case *ast.CallExpr:
			if f := core.Callee(info, x); f != nil && len(x.Args) == 2 && isQuote(x.Args[1]) {
				switch core.FullName(f) {
				case "strings.HasPrefix":
					return "leading"
				case "strings.HasSuffix":
					return "trailing"
				}
			}
		case *ast.BinaryExpr:
			if x.Op != token.EQL {
				return ""
			}
			l, r := ast.Unparen(x.X), ast.Unparen(x.Y)
			if isQuote(l) {
				l, r = r, l
			}
			if !isQuote(r) {
				return ""
			}
			switch ix := l.(type) {
			case *ast.IndexExpr:
				if v, ok := constInt(info, ix.Index); ok && v == 0 {
					return "leading"
				}
				if be, ok := ast.Unparen(ix.Index).(*ast.BinaryExpr); ok && be.Op == token.SUB {
					if _, isLen := lenArg(info, be.X); isLen {
						if v, ok := constInt(info, be.Y); ok && v == 1 {
							return "trailing"
						}
					}
				}
			case *ast.SliceExpr:
				if ix.Low == nil && ix.High != nil {
					if v, ok := constInt(info, ix.High); ok && v == 1 {
						return "leading"
					}
				}
				if ix.High == nil && ix.Low != nil {
					if be, ok := ast.Unparen(ix.Low).(*ast.BinaryExpr); ok && be.Op == token.SUB {
						if _, isLen := lenArg(info, be.X); isLen {
							if v, ok := constInt(info, be.Y); ok && v == 1 {
								return "trailing"
							}
						}
					}
				}
			}
		}
		return ""
	}
	// padKind: "leading" for `x = " " + x`, "trailing" for `x = x + " "` / `x += " "` (Sprintf forms included)
	padKind := func(as *ast.AssignStmt) string {
		if len(as.Lhs) != 1 || len(as.Rhs) != 1 {
			return ""
		}
		isSpace := func(e ast.Expr) bool { v, ok := constStr(e); return ok && v == " " }
		if as.Tok == token.ADD_ASSIGN && isSpace(as.Rhs[0]) {
			return "trailing"
		}
		switch r := ast.Unparen(as.Rhs[0]).(type) {
		case *ast.BinaryExpr:
			if r.Op == token.ADD {
				if isSpace(r.X) && !isSpace(r.Y) {
					return "leading"
				}
				if isSpace(r.Y) && !isSpace(r.X) {
					return "trailing"
				}
			}
		case *ast.CallExpr:
			if f := core.Callee(info, r); f != nil && core.FullName(f) == "fmt.Sprintf" && len(r.Args) == 2 {
				if v, ok := constStr(r.Args[0]); ok {
					switch v {
					case " %s":
						return "leading"
					case "%s ":
						return "trailing"
					}
				}
			}
		}
		return ""
	}
	type padSite struct {
		pos    token.Pos
		guards []ast.Expr
		plain  bool
		d      *ast.FuncDecl
	}
	pads := map[string][]padSite{}
	for _, d := range scope {
		ast.Inspect(d.Body, func(n ast.Node) bool {
			as, ok := n.(*ast.AssignStmt)
			if !ok {
				return true
			}
			if k := padKind(as); k != "" {
				gs, plain := guardsOf(d, as)
				pads[k] = append(pads[k], padSite{as.Pos(), gs, plain, d})
			}
			return true
		})
	}
	for _, side := range []string{"trailing", "leading"} {
		key := "WriteDocstring/" + side + " quote padded"
		sites := pads[side]
		if len(sites) == 0 {
			c.Bad(rule, key, d0.Pos(), "the docstring writer no longer pads a comment whose "+side+" character is a double quote: `\"\"\"…\"\"\"\"` is emitted and the module does not parse")
			continue
		}
		var good *padSite
		for i := range sites {
			st := &sites[i]
			if st.plain && len(st.guards) == 1 && quoteTest(st.d, st.guards[0]) == side {
				good = st
			}
		}
		if good != nil {
			c.OK(rule, key, good.pos, "padded under a test of the "+side+" character alone")
			continue
		}
		var gl []string
		for _, g := range sites[0].guards {
			gl = append(gl, types.ExprString(g))
		}
		c.Bad(rule, key, sites[0].pos, "the padding is applied only under `"+strings.Join(gl, " ∧ ")+"`: for the other comments with a "+side+" double quote the closing delimiter becomes `\"\"\"\"` (SyntaxError: unterminated string literal in the generated module)")
	}
}

// V8: a rewriter callback that keeps a node also keeps rewriting below it. In a function literal handed to dsl.Rewrite /
// dsl.RewriteWithContext, a case for a node kind that has Node-typed children may return only what self.DefaultRewrite
// produced (directly or stored in a local first), unless the exit is an audited prune: returning the node — or a
// shallow clone of it — as it is stops the rewrite for the whole subtree (comments, unresolved references, ... stay).
func ruleRewriterDescends(scopeFiles func(string) bool, ruleID string, min int) func(c *core.Ctx) {
	return func(c *core.Ctx) {
		c.Rule(ruleID, "every return of a Rewrite callback, in a case for a node kind that has Node children, returns the result of self.DefaultRewrite(...) (audited prunes excepted)", min)
		dslp := c.Pkg("pkg/dsl")
		nodeIface := dslp.Types.Scope().Lookup("Node").Type().Underlying().(*types.Interface)
		for _, d := range c.AllDecls() {
			if d.Body == nil || !scopeFiles(c.Fset.Position(d.Pos()).Filename) {
				continue
			}
			info := c.DeclPkg(d).TypesInfo
			ast.Inspect(d.Body, func(n ast.Node) bool {
				ce, ok := n.(*ast.CallExpr)
				if !ok {
					return true
				}
				f := core.Callee(info, ce)
				if f == nil || f.Pkg() == nil || f.Pkg().Path() != core.Mod+"/pkg/dsl" || !(f.Name() == "Rewrite" || f.Name() == "RewriteWithContext") || f.Type().(*types.Signature).Recv() != nil {
					return true
				}
				for _, a := range ce.Args {
					fl, ok := ast.Unparen(a).(*ast.FuncLit)
					if !ok || len(fl.Type.Params.List) < 2 {
						continue
					}
					var params []types.Object
					for _, fld := range fl.Type.Params.List {
						for _, nm := range fld.Names {
							params = append(params, info.Defs[nm])
						}
					}
					if len(params) < 2 {
						continue
					}
					self, node := params[0], params[1]
					// locals that hold a DefaultRewrite result
					isDescent := func(e ast.Expr) bool {
						found := false
						ast.Inspect(e, func(x ast.Node) bool {
							if c2, ok := x.(*ast.CallExpr); ok {
								if sel, ok := ast.Unparen(c2.Fun).(*ast.SelectorExpr); ok && identObj(info, sel.X) == self && (sel.Sel.Name == "DefaultRewrite" || sel.Sel.Name == "Rewrite") {
									found = true
								}
							}
							return !found
						})
						return found
					}
					rewritten := map[types.Object]bool{}
					ast.Inspect(fl.Body, func(x ast.Node) bool {
						if as, ok := x.(*ast.AssignStmt); ok {
							for i, l := range as.Lhs {
								if i < len(as.Rhs) && isDescent(as.Rhs[i]) {
									if o := identObj(info, l); o != nil {
										rewritten[o] = true
									}
								} else if len(as.Rhs) == 1 && isDescent(as.Rhs[0]) {
									if o := identObj(info, l); o != nil {
										rewritten[o] = true
									}
								}
							}
						}
						return true
					})
					// the callback may leave the decision to a helper of the package: `x, descend := h(node)` with
					// `if !descend { return x }; return self.DefaultRewrite(x)` — then the helper's type switch on its
					// parameter is the switch, and a case prunes where it can return `false` for the flag
					switchBodies := []struct {
						list  []ast.Stmt
						subj  types.Object
						flagI int // >= 0: index of the "descend" result in the helper's returns
					}{{fl.Body.List, node, -1}}
					for _, st := range fl.Body.List {
						as, ok := st.(*ast.AssignStmt)
						if !ok || len(as.Lhs) != 2 || len(as.Rhs) != 1 {
							continue
						}
						hc, ok := ast.Unparen(as.Rhs[0]).(*ast.CallExpr)
						if !ok || len(hc.Args) != 1 || identObj(info, hc.Args[0]) != node {
							continue
						}
						hf := core.Callee(info, hc)
						flag := identObj(info, as.Lhs[1])
						val := identObj(info, as.Lhs[0])
						if hf == nil || !core.InModule(hf) || flag == nil || val == nil || !isBoolType(flag.Type()) {
							continue
						}
						hd := c.Decl(hf.Origin())
						if hd == nil || hd.Body == nil {
							continue
						}
						// every return of the callback that does not descend stands under `!flag`, and returns the helper's value
						shapeOK := true
						ast.Inspect(fl.Body, func(x ast.Node) bool {
							if inner, isLit := x.(*ast.FuncLit); isLit && inner != fl {
								return false
							}
							r, ok := x.(*ast.ReturnStmt)
							if !ok || len(r.Results) != 1 {
								return true
							}
							if isDescent(r.Results[0]) || rewritten[identObj(info, r.Results[0])] {
								return true
							}
							guarded := false
							ast.Inspect(fl.Body, func(y ast.Node) bool {
								if is, ok := y.(*ast.IfStmt); ok && is.Body.Pos() <= r.Pos() && r.End() <= is.Body.End() {
									if u, ok := ast.Unparen(is.Cond).(*ast.UnaryExpr); ok && u.Op == token.NOT && identObj(info, u.X) == flag {
										guarded = true
									}
								}
								return true
							})
							if !guarded || identObj(info, r.Results[0]) != val {
								shapeOK = false
							}
							return true
						})
						hps := paramObjs(c.DeclPkg(hd).TypesInfo, hd)
						if shapeOK && len(hps) == 1 && hps[0] != nil {
							switchBodies = append(switchBodies, struct {
								list  []ast.Stmt
								subj  types.Object
								flagI int
							}{hd.Body.List, hps[0], 1})
						}
					}
					for _, sb := range switchBodies {
						for _, st := range sb.list {
							ts, ok := st.(*ast.TypeSwitchStmt)
							if !ok {
								continue
							}
							ti := parseTypeSwitch(info, ts)
							if identObj(info, ti.subject) != sb.subj {
								continue
							}
							for _, cs := range ti.cases {
								var lbls []string
								has := false
								for _, t := range cs.types {
									if t != nil {
										lbls = append(lbls, typeLabel(t))
										if hasNodeChildren(c, t, nodeIface) {
											has = true
										}
									}
								}
								if !has {
									continue
								}
								key := c.FuncName(d) + "/case " + strings.Join(lbls, ",")
								var bad *ast.ReturnStmt
								nret := 0
								for _, b := range cs.body {
									ast.Inspect(b, func(x ast.Node) bool {
										if _, isLit := x.(*ast.FuncLit); isLit {
											return false
										}
										r, ok := x.(*ast.ReturnStmt)
										if !ok || len(r.Results) == 0 {
											return true
										}
										nret++
										res := r.Results[0]
										if sb.flagI >= 0 {
											// helper form: the case descends iff it returns `true` for the flag
											if sb.flagI < len(r.Results) {
												if tv, ok := info.Types[r.Results[sb.flagI]]; ok && tv.Value != nil && tv.Value.Kind() == constant.Bool && constant.BoolVal(tv.Value) {
													return true
												}
											}
											if bad == nil {
												bad = r
											}
											return true
										}
										if isDescent(res) || rewritten[identObj(info, res)] {
											return true
										}
										if bad == nil {
											bad = r
										}
										return true
									})
								}
								if nret == 0 {
									continue
								}
								if bad == nil {
									c.OK(ruleID, key, cs.cc.Pos(), "every return goes through DefaultRewrite")
								} else if r, ok := auditedRewriterPrunes[key]; ok {
									c.OK(ruleID, key, cs.cc.Pos(), "audited: "+r)
								} else {
									c.Bad(ruleID, key, bad.Pos(), "this case returns `"+types.ExprString(bad.Results[0])+"` without rewriting the node's children: the rewrite stops at this node and everything below it is left as it was")
								}
							}
						}
					}
				}
				return true
			})
		}
	}
}

// auditedRewriterPrunes: "<func>/case <T>" -> why the children need no rewriting there
var auditedRewriterPrunes = map[string]string{}

// N1b: the pipeline from parsing to generation is sequential. A goroutine, channel operation or select in a function
// reachable from parsing, validation or generation makes the order of results (definitions, diagnostics, files) depend
// on scheduling; watch mode and the command layer's goroutines are outside these roots.
func ruleNoConcurrencyInPipeline(c *core.Ctx) {
	const rule = "N1b"
	c.Rule(rule, "no `go` statement, channel send/receive or select in any function reachable by static calls from parsing, validation, evolution analysis or code generation", 6)
	roots := [][2]string{{"pkg/dsl", "ParseYamlInDir"}, {"pkg/dsl", "Validate"}, {"pkg/dsl", "ValidateEvolution"}, {"pkg/dsl", "ParsePackageContents"}, {"internal/cpp", "Generate"},
		{"internal/python", "Generate"}, {"internal/matlab", "Generate"}, {"internal/cmd", "outputJson"}, {"internal/cmd", "validatePackage"}, {"pkg/packaging", "LoadPackage"}}
	for _, r := range roots {
		f, d, _ := c.Func(r[0], r[1])
		key := "root/" + r[0] + "." + r[1]
		if f == nil || d == nil {
			c.Undecided(rule, key, 0, "anchor function not found")
			continue
		}
		reach := c.Reachable([]*types.Func{f}, func(g *types.Func) bool { return !core.InModule(g) })
		reach[f] = true
		var where string
		var at token.Pos
		n := 0
		for g := range reach {
			gd := c.Decl(g)
			if gd == nil || gd.Body == nil {
				continue
			}
			n++
			ast.Inspect(gd.Body, func(x ast.Node) bool {
				if where != "" {
					return false
				}
				switch s := x.(type) {
				case *ast.GoStmt:
					where, at = "`go` statement in "+c.FuncName(gd), s.Pos()
				case *ast.SendStmt:
					where, at = "channel send in "+c.FuncName(gd), s.Pos()
				case *ast.SelectStmt:
					where, at = "select in "+c.FuncName(gd), s.Pos()
				case *ast.UnaryExpr:
					if s.Op == token.ARROW {
						where, at = "channel receive in "+c.FuncName(gd), s.Pos()
					}
				case *ast.RangeStmt:
					if t := c.DeclPkg(gd).TypesInfo.TypeOf(s.X); t != nil {
						if _, isChan := t.Underlying().(*types.Chan); isChan {
							where, at = "range over a channel in "+c.FuncName(gd), s.Pos()
						}
					}
				}
				return true
			})
		}
		if where != "" {
			c.Bad(rule, key, at, where+": results are merged in scheduling order, so the order of type definitions, protocols or diagnostics (and with it the generated files) can differ between two runs on the same package")
		} else {
			c.OK(rule, key, d.Pos(), fmt.Sprintf("%d module functions reachable, all sequential", n))
		}
	}
}

// D1: a set that is consulted is also filled. A local map whose entries are looked up (`_, found := m[k]`, `m[k]`)
// but into which nothing is ever stored — no `m[k] = v`, not passed on, not captured by a call that could fill it —
// always answers "not there": the duplicate / already-seen check built on it never fires.
func ruleLookedUpMapsAreFilled(scope func(string) bool, ruleID string, min int) func(c *core.Ctx) {
	return func(c *core.Ctx) {
		c.Rule(ruleID, "every function-local map created empty (make / empty literal) that is indexed for reading is also stored into (or handed to code that can) in the same function", min)
		for _, d := range c.AllDecls() {
			if d.Body == nil || !scope(c.Fset.Position(d.Pos()).Filename) || c.IsTestFile(d.Pos()) {
				continue
			}
			info := c.DeclPkg(d).TypesInfo
			// maps created empty in this function
			created := map[types.Object]ast.Node{}
			ast.Inspect(d.Body, func(n ast.Node) bool {
				as, ok := n.(*ast.AssignStmt)
				if !ok || as.Tok != token.DEFINE || len(as.Lhs) != len(as.Rhs) {
					return true
				}
				for i, l := range as.Lhs {
					o := identObj(info, l)
					if o == nil {
						continue
					}
					if _, isMap := o.Type().Underlying().(*types.Map); !isMap {
						continue
					}
					switch r := ast.Unparen(as.Rhs[i]).(type) {
					case *ast.CallExpr:
						if id, ok := r.Fun.(*ast.Ident); ok && id.Name == "make" {
							created[o] = as
						}
					case *ast.CompositeLit:
						if len(r.Elts) == 0 {
							created[o] = as
						}
					}
				}
				return true
			})
			if len(created) == 0 {
				continue
			}
			read := map[types.Object]token.Pos{}
			written := map[types.Object]bool{}
			ast.Inspect(d.Body, func(n ast.Node) bool {
				switch s := n.(type) {
				case *ast.AssignStmt:
					for _, l := range s.Lhs {
						if ix, ok := ast.Unparen(l).(*ast.IndexExpr); ok {
							if o := identObj(info, ix.X); o != nil {
								written[o] = true
							}
						}
						if o := identObj(info, l); o != nil && s.Tok != token.DEFINE && created[o] != nil {
							written[o] = true // reassigned as a whole
						}
					}
				case *ast.IncDecStmt:
					if ix, ok := ast.Unparen(s.X).(*ast.IndexExpr); ok {
						if o := identObj(info, ix.X); o != nil {
							written[o] = true
						}
					}
				case *ast.CallExpr:
					// handed to a call (other than len/delete-free readers): may be filled there
					if id, ok := ast.Unparen(s.Fun).(*ast.Ident); ok && (id.Name == "len" || id.Name == "delete") {
						return true
					}
					for _, a := range s.Args {
						if o := identObj(info, a); o != nil && created[o] != nil {
							written[o] = true
						}
						if ue, ok := ast.Unparen(a).(*ast.UnaryExpr); ok && ue.Op == token.AND {
							if o := identObj(info, ue.X); o != nil && created[o] != nil {
								written[o] = true
							}
						}
					}
				case *ast.CompositeLit:
					for _, el := range s.Elts {
						v := el
						if kv, ok := el.(*ast.KeyValueExpr); ok {
							v = kv.Value
						}
						if o := identObj(info, v); o != nil && created[o] != nil {
							written[o] = true // stored in a struct: may be filled through it
						}
					}
				case *ast.ReturnStmt:
					for _, r := range s.Results {
						if o := identObj(info, r); o != nil && created[o] != nil {
							written[o] = true
						}
					}
				case *ast.IndexExpr:
					if o := identObj(info, s.X); o != nil && created[o] != nil {
						if _, seen := read[o]; !seen {
							read[o] = s.Pos()
						}
					}
				case *ast.RangeStmt:
					if o := identObj(info, s.X); o != nil && created[o] != nil {
						if _, seen := read[o]; !seen {
							read[o] = s.Pos()
						}
					}
				}
				return true
			})
			for o, at := range read {
				key := c.FuncName(d) + "/map " + o.Name()
				c.Check(written[o], ruleID, key, at, "filled in the same function", "the map `"+o.Name()+"` is created empty and looked up, but nothing is ever stored into it: every lookup misses, so the check that relies on it (duplicate name, already visited, ...) can never fire")
			}
		}
	}
}

// E6: nothing is compared with itself. `f(x) != f(x)`, `a.F == a.F`: a comparison whose two operands are the same
// side-effect-free expression is constant; the check it was meant to make (usually: against the OTHER object) is gone.
func ruleNoSelfComparison(scope func(string) bool, ruleID string, min int) func(c *core.Ctx) {
	return func(c *core.Ctx) {
		c.Rule(ruleID, "no comparison (== != < <= > >=) whose two operands are the same expression", min)
		n := 0
		for _, d := range c.AllDecls() {
			if d.Body == nil || !scope(c.Fset.Position(d.Pos()).Filename) || c.IsTestFile(d.Pos()) {
				continue
			}
			info := c.DeclPkg(d).TypesInfo
			bad := 0
			ast.Inspect(d.Body, func(x ast.Node) bool {
				be, ok := x.(*ast.BinaryExpr)
				if !ok {
					return true
				}
				switch be.Op {
				case token.EQL, token.NEQ, token.LSS, token.LEQ, token.GTR, token.GEQ:
				default:
					return true
				}
				n++
				if types.ExprString(be.X) != types.ExprString(be.Y) {
					return true
				}
				// floating point x != x is the NaN test
				if b, ok := info.TypeOf(be.X).Underlying().(*types.Basic); ok && b.Info()&types.IsFloat != 0 {
					return true
				}
				bad++
				c.Bad(ruleID, c.FuncName(d)+"/"+types.ExprString(be), be.Pos(), "both operands of the comparison are `"+types.ExprString(be.X)+"`: the test is constant, so the condition it guards (conflict, mismatch, change) is never — or always — taken")
				return true
			})
			if bad == 0 && n > 0 {
				// one obligation per function keeps the instance count meaningful without flooding the evidence
			}
		}
		c.Check(n > 0, ruleID, "comparisons scanned", 0, fmt.Sprintf("%d comparisons, none compares an expression with itself", n), "no comparison found in scope")
	}
}

// EV5: the wire of an older version carries the OLD types. In the C++ compatibility (de)serializers — the per-version
// Read/Write functions of a changed record or alias, and the per-version branch of a protocol step — every value is
// read from / written to the stream with the routine of its type in the PREVIOUS version: wherever a type change X is
// known for the field/step (`X != nil`), the routine is typeRwFunction(X.OldType(), …); the type of the latest
// definition never selects the routine. The explicit conversion, when one is required, receives the same change and
// the same direction flag.
func ruleOldTypesOnTheOldWire(c *core.Ctx) {
	const rule = "EV5"
	c.Rule(rule, "cpp/binary compatibility serializers: an I/O emission that can run while a type change X is known uses typeRwFunction(X.OldType(), write); no I/O routine is selected from the latest definition's types; writeTypeConversion gets the same change and `write`", 10)
	p := c.Pkg("internal/cpp/binary")
	if p == nil {
		c.Undecided(rule, "anchor/internal/cpp/binary", 0, "package not found")
		return
	}
	ioType := func(r gee.Row) (string, bool) {
		if r.Kind == "call" && r.Tmpl == "writeStepRw" && len(r.Args) >= 2 {
			return r.Args[1], true
		}
		if r.Kind == "emit" && strings.Contains(r.Tmpl, "(stream") && len(r.Args) >= 1 {
			a := r.Args[0]
			for _, fn := range []string{"typeRwFunction(", "typeDefinitionRwFunction("} {
				if strings.HasPrefix(a, fn) {
					inner := a[len(fn) : len(a)-1]
					if i := strings.LastIndex(inner, ","); i > 0 {
						return strings.TrimSpace(inner[:i]), true
					}
				}
			}
		}
		return "", false
	}
	neqNil := regexp.MustCompile(`^(.+) != nil$`)
	for _, fn := range []string{"writeCompatibilitySerializers", "writeProtocolStep"} {
		_, d, _ := c.Func("internal/cpp/binary", fn)
		if d == nil {
			c.Undecided(rule, "anchor/cpp/binary."+fn, 0, "anchor not found")
			continue
		}
		x := &gee.Extractor{Info: p.TypesInfo, Fset: c.Fset, Decl: func(f *types.Func) *ast.FuncDecl {
			if f == nil || f.Pkg() != p.Types {
				return nil
			}
			return c.Decl(f)
		}}
		rows := x.Extract(fn, d)
		// helpers of the package that do the emitting for one change (`writeConvertingRw(w, tc, ...)`) are read in the
		// context of the call: their rows get the guards of the call site, their parameters the argument texts (a
		// dsl-typed parameter is rendered by its type name in the helper's rows)
		keep := map[string]bool{"writeTypeConversion": true, "writeStepRw": true}
		var expandCalls func(in []gee.Row, depth int) []gee.Row
		expandCalls = func(in []gee.Row, depth int) []gee.Row {
			var out []gee.Row
			for _, r := range in {
				var cd *ast.FuncDecl
				if r.Kind == "call" && !keep[r.Tmpl] && depth < 3 {
					if _, hd, _ := c.Func("internal/cpp/binary", r.Tmpl); hd != nil && hd.Recv == nil && hd != d {
						cd = hd
					}
				}
				if cd == nil {
					out = append(out, r)
					continue
				}
				subst := map[string]string{}
				pi := 0
				for _, fl := range cd.Type.Params.List {
					for _, nm := range fl.Names {
						if pi < len(r.Args) && nm.Name != "_" {
							if tn := dslNamedType(p.TypesInfo.TypeOf(fl.Type)); tn != "" {
								subst[tn] = r.Args[pi]
							} else if r.Args[pi] != nm.Name {
								subst[nm.Name] = r.Args[pi]
							}
						}
						pi++
					}
				}
				sub := func(t string) string {
					for k, v := range subst {
						t = replaceIdent(t, k, v)
					}
					return t
				}
				hx := &gee.Extractor{Info: p.TypesInfo, Fset: c.Fset, Decl: x.Decl}
				for _, hr := range expandCalls(hx.Extract(r.Tmpl, cd), depth+1) {
					nr := hr
					nr.Guards = append(append([]string(nil), r.Guards...), mapStrings(hr.Guards, sub)...)
					nr.Args = mapStrings(hr.Args, sub)
					out = append(out, nr)
				}
			}
			return out
		}
		rows = expandCalls(rows, 0)
		// the changes this function tests for presence or classifies
		changes := map[string]bool{}
		for _, r := range rows {
			for _, g := range r.Guards {
				g = stripDsl(g)
				for strings.HasPrefix(g, "!(") && strings.HasSuffix(g, ")") && balanced(g[2:len(g)-1]) {
					g = g[2 : len(g)-1]
				}
				for _, part := range splitTop(g, " && ") {
					if m := neqNil.FindStringSubmatch(strings.TrimSpace(part)); m != nil && (strings.Contains(m[1], "Change") || strings.HasSuffix(m[1], "tc")) && !strings.HasSuffix(m[1], "Definition()") {
						changes[m[1]] = true
					}
					if strings.HasPrefix(strings.TrimSpace(part), "requiresExplicitConversion(") {
						changes[strings.TrimSuffix(strings.TrimPrefix(strings.TrimSpace(part), "requiresExplicitConversion("), ")")] = true
					}
				}
			}
		}
		seen := map[string]int{}
		for _, r := range rows {
			T, isIO := ioType(r)
			if !isIO {
				continue
			}
			T = stripDsl(T)
			key := fn + "/io " + T
			seen[key]++
			if seen[key] > 1 {
				key += "#" + itoa(seen[key])
			}
			if strings.Contains(T, "LatestDefinition()") && (strings.Contains(strings.Join(r.Guards, " "), "RecordChange") || strings.Contains(T, "Fields[")) {
				c.Bad(rule, key, r.Pos, "the routine for a field of an older version is selected from the LATEST record's field type (`"+T+"`): when the field's type — or a record/alias nested in it — changed, the old stream is read with the new layout")
				continue
			}
			verdict := ""
			for X := range changes {
				asg := map[string]string{X + " != nil": "true"}
				if sat, _ := guardSat(mapStrings(r.Guards, stripDsl), asg); !sat {
					continue
				}
				// this emission can run while the change X is known
				mentions := false
				for _, g := range r.Guards {
					if strings.Contains(stripDsl(g), X) {
						mentions = true
					}
				}
				if !mentions {
					continue // unrelated to X (e.g. the removed-field branch, the step-added branch)
				}
				if T != X+".OldType()" {
					verdict = "can run while the type change `" + X + "` is known, but the routine is chosen for `" + T + "`, not for " + X + ".OldType(): the stream of the older version is read/written with the wrong layout"
				}
			}
			c.Check(verdict == "", rule, key, r.Pos, "routine of the previous version's type", verdict)
		}
		// conversions: the direction flag is the one the I/O routines of this function are selected with
		dirFlags := map[string]bool{}
		for _, r := range rows {
			if r.Kind == "emit" && strings.Contains(r.Tmpl, "(stream") && len(r.Args) >= 1 {
				for _, fnn := range []string{"typeRwFunction(", "typeDefinitionRwFunction("} {
					if a := r.Args[0]; strings.HasPrefix(a, fnn) && strings.HasSuffix(a, ")") {
						if i := strings.LastIndex(a, ","); i > 0 {
							dirFlags[strings.TrimSpace(a[i+1:len(a)-1])] = true
						}
					}
				}
			}
		}
		nconv := 0
		for _, r := range rows {
			if r.Kind != "call" || r.Tmpl != "writeTypeConversion" || len(r.Args) < 5 {
				continue
			}
			nconv++
			key := fn + "/conversion#" + itoa(nconv)
			X := stripDsl(r.Args[1])
			okFlag := r.Args[4] == "write" || (dirFlags[r.Args[4]] && r.Args[4] != "true" && r.Args[4] != "false")
			guarded := false
			for _, g := range r.Guards {
				if strings.Contains(stripDsl(g), "requiresExplicitConversion(") && !strings.HasPrefix(stripDsl(g), "!") {
					guarded = true
				}
			}
			c.Check(okFlag && guarded, rule, key, r.Pos, "conversion of "+X+" under requiresExplicitConversion, same direction flag",
				"writeTypeConversion is called with direction `"+r.Args[4]+"` / outside the requiresExplicitConversion branch: the conversion runs in the wrong direction or for a change that needs none")
		}
		if nconv == 0 {
			c.Undecided(rule, fn+"/conversions", d.Pos(), "no writeTypeConversion call found")
		}
	}
}

// TE1: a C++ enum has the underlying type its model declares. WriteEnum/ReadEnum serialise std::underlying_type_t<E>,
// so the `base:` of a yardl enum reaches the wire only through the `enum class E : <base>` clause (and the first
// template argument of yardl::BaseFlags for flags). With a declared base type the clause must be emitted, and with the
// base type's own C++ spelling.
func ruleCppEnumUnderlyingType(c *core.Ctx) {
	const rule = "TE1"
	c.Rule(rule, "cpp/types: for an enum with a base type the emitted `enum class` carries `: <TypeSyntax(BaseType)>`; flags pass TypeSyntax(BaseType) (int32 by default) to yardl::BaseFlags", 2)
	rowsOf := pkgRows(c, "internal/cpp/types")
	var rows []gee.Row
	var d *ast.FuncDecl
	for fd, rs := range rowsOf {
		for _, r := range rs {
			if r.Kind == "emit" && strings.Contains(r.Tmpl, "enum class %s") {
				rows, d = rs, fd
			}
		}
	}
	if d == nil {
		c.Undecided(rule, "anchor/emitter of `enum class`", 0, "no function of internal/cpp/types emits `enum class`")
		return
	}
	// under "not flags, base type given" some emission must carry the base clause
	okEnum, okFlags := false, false
	flagsViaLocal := false
	var posEnum, posFlags = d.Pos(), d.Pos()
	for _, r := range rows {
		if r.Kind != "emit" {
			continue
		}
		gs := mapStrings(r.Guards, stripDsl)
		if strings.Contains(r.Tmpl, ": %s") && !strings.Contains(r.Tmpl, "BaseFlags") {
			hasBaseArg := false
			for _, a := range r.Args {
				if strings.Contains(a, "EnumDefinition.BaseType") {
					hasBaseArg = true
				}
			}
			sat, _ := guardSat(gs, map[string]string{"type(TypeDefinition)": "EnumDefinition", "EnumDefinition.IsFlags": "false", "EnumDefinition.BaseType != nil": "true"})
			if hasBaseArg && sat {
				okEnum, posEnum = true, r.Pos
			}
		}
		if strings.Contains(r.Tmpl, "yardl::BaseFlags<%s") {
			posFlags = r.Pos
			if len(r.Args) >= 2 && (strings.Contains(r.Args[1], "BaseType") || r.Args[1] == "valueTypeSyntax") {
				okFlags = true
			}
			// any local named in the argument that some row assigns from the base type
			if len(r.Args) >= 2 && !okFlags {
				for _, o := range rows {
					if !strings.HasPrefix(o.Kind, "assign:") || !(strings.Contains(strings.Join(o.Args, " "), "BaseType") || strings.Contains(o.Tmpl, "BaseType")) {
						continue
					}
					if v := strings.TrimPrefix(o.Kind, "assign:"); v != "" && regexp.MustCompile(`\b`+regexp.QuoteMeta(v)+`\b`).MatchString(r.Args[1]) {
						okFlags, flagsViaLocal = true, true
					}
				}
			}
		}
	}
	// the flags argument, when it is a local, must be assigned from the base type under `BaseType != nil`
	if okFlags {
		fromBase := false
		for _, r := range rows {
			if r.Kind == "assign:valueTypeSyntax" && len(r.Args) == 1 && strings.Contains(r.Args[0], "EnumDefinition.BaseType") {
				if sat, _ := guardSat(mapStrings(r.Guards, stripDsl), map[string]string{"type(TypeDefinition)": "EnumDefinition", "EnumDefinition.IsFlags": "true", "EnumDefinition.BaseType != nil": "true"}); sat {
					fromBase = true
				}
			}
		}
		for _, r := range rows {
			if strings.Contains(r.Tmpl, "yardl::BaseFlags<%s") && len(r.Args) >= 2 && strings.Contains(r.Args[1], "EnumDefinition.BaseType") {
				fromBase = true
			}
		}
		okFlags = fromBase || flagsViaLocal
	}
	if !okFlags {
		// the flags declaration may live in a function of its own: any function of the package that prints the BaseFlags
		// instantiation, with the argument either the base type itself or a let-bound local that starts out as the base type
		for _, rs := range rowsOf {
			for _, r := range rs {
				if r.Kind != "emit" || !strings.Contains(r.Tmpl, "yardl::BaseFlags<%s") || len(r.Args) < 2 {
					continue
				}
				posFlags = r.Pos
				if strings.Contains(r.Args[1], "BaseType") {
					okFlags = true
				}
				for _, v := range regexp.MustCompile(`\$\w+`).FindAllString(r.Args[1], -1) {
					for _, o := range rs {
						if o.Kind == "let:"+v && strings.Contains(o.Tmpl, "EnumDefinition.BaseType") && len(o.Guards) == 0 {
							okFlags = true
						}
					}
				}
			}
		}
	}
	c.Check(okEnum, rule, "enum class/underlying type clause", posEnum, "`: TypeSyntax(BaseType)` is emitted when the enum declares a base type",
		"the emitted `enum class` has no `: <base>` clause for an enum that declares a base type: C++ falls back to int, WriteEnum writes a zig-zag varint where the schema (and every other language) says e.g. uint8/uint64 — values are encoded differently and large unsigned values do not fit")
	c.Check(okFlags, rule, "flags/underlying type argument", posFlags, "yardl::BaseFlags receives TypeSyntax(BaseType) when the flags declare a base type",
		"yardl::BaseFlags is not instantiated with the declared base type of the flags")
}

// L3: context objects are passed on complete. For the struct types listed in completeLiteralTypes — the scope/context
// values a recursive traversal hands down (every literal of them on the reviewed tree sets every field) — a composite
// literal that leaves a field out silently resets that part of the context for the whole subtree (e.g. the chain of
// computed fields being resolved, which is what detects cycles).
var completeLiteralTypes = map[string]string{
	"ComputedFieldScope": "record, already rewritten fields, fields being resolved (cycle detection) and variables in scope all travel down the expression tree",
}

func ruleContextLiteralsComplete(c *core.Ctx) {
	const rule = "L3"
	c.Rule(rule, "pkg/dsl: every composite literal of a traversal-context struct (table: ComputedFieldScope) that continues an existing context (copies a field from another value of the type) sets all of its fields", 2)
	p := c.Pkg("pkg/dsl")
	if p == nil {
		c.Undecided(rule, "anchor/pkg/dsl", 0, "package not found")
		return
	}
	info := p.TypesInfo
	for _, d := range c.AllDecls() {
		if c.DeclPkg(d) != p || d.Body == nil || c.IsTestFile(d.Pos()) {
			continue
		}
		n := 0
		ast.Inspect(d.Body, func(x ast.Node) bool {
			cl, ok := x.(*ast.CompositeLit)
			if !ok {
				return true
			}
			nt := core.NamedOf(info.TypeOf(cl))
			if nt == nil || completeLiteralTypes[nt.Obj().Name()] == "" {
				return true
			}
			st, ok := nt.Underlying().(*types.Struct)
			if !ok {
				return true
			}
			// only literals that continue an existing context (they copy at least one field from another value of the
			// type); a fresh root context legitimately starts empty
			derived := false
			ast.Inspect(cl, func(y ast.Node) bool {
				if se, ok := y.(*ast.SelectorExpr); ok {
					if bt := core.NamedOf(info.TypeOf(se.X)); bt != nil && bt.Obj() == nt.Obj() {
						derived = true
					}
				}
				return !derived
			})
			if !derived {
				return true
			}
			n++
			key := c.FuncName(d) + "/" + nt.Obj().Name() + "{…}#" + itoa(n)
			set := map[string]bool{}
			keyed := false
			for _, el := range cl.Elts {
				if kv, ok := el.(*ast.KeyValueExpr); ok {
					keyed = true
					if id, ok := kv.Key.(*ast.Ident); ok {
						set[id.Name] = true
					}
				}
			}
			var missing []string
			if keyed || len(cl.Elts) == 0 {
				for i := 0; i < st.NumFields(); i++ {
					if !set[st.Field(i).Name()] {
						missing = append(missing, st.Field(i).Name())
					}
				}
			}
			c.Check(len(missing) == 0, rule, key, cl.Pos(), "all fields set", "the literal leaves out "+strings.Join(missing, ", ")+" ("+completeLiteralTypes[nt.Obj().Name()]+"): below this point the traversal runs with that part of the context reset")
			return true
		})
	}
}

// X9: size() means the same number in every language. For each shape of its first argument (vector, map, array) and
// number of arguments, the first token an emitter prints for the built-in size() is the target language's way of
// getting that number (refs/operators.json: size_function) — in particular the element count of an N-d array is
// numpy's `.size` / yardl::size / numel, never a first-extent `len()`.
func ruleSizeFunctionTokens(c *core.Ctx) {
	const rule = "X9"
	c.Rule(rule, "each expression emitter prints, for size(x) and size(x, d), the token of refs/operators.json for the shape of x (vector / map / array) and the number of arguments", 12)
	var ref struct {
		Size map[string]map[string]string `json:"size_function"`
	}
	if err := loadRef("operators.json", &ref); err != nil || ref.Size == nil {
		c.Undecided(rule, "refs/operators.json", 0, "size_function table missing")
		return
	}
	punct := map[string]bool{")": true, ", ": true, ",": true, "]": true, "": true, ")-(": true}
	for _, em := range exprEmitters {
		rows, d := flatRows(c, em.pkg, em.fn)
		if d == nil {
			c.Undecided(rule, em.name+"/anchor", 0, "emitter not found")
			continue
		}
		var sizeRows []gee.Row
		subj := ""
		for _, r := range rows {
			if r.Kind != "emit" {
				continue
			}
			isSize := false
			for _, g := range r.Guards {
				g = stripDsl(g)
				if sj, elems, neg, ok := parseSetGuard(g); ok && !neg && strings.HasSuffix(sj, "FunctionName") {
					for _, e := range elems {
						if strings.Trim(e, "\"") == "size" || e == "FunctionSize" {
							isSize = true
						}
					}
				}
				if sj, _, _, ok := parseSetGuard(g); ok && strings.HasPrefix(sj, "type(") && strings.HasSuffix(sj, ".Dimensionality)") {
					subj = sj
				}
			}
			if isSize {
				sizeRows = append(sizeRows, r)
			}
		}
		if len(sizeRows) == 0 {
			c.Undecided(rule, em.name+"/size()", d.Pos(), "no emission under FunctionName == size found")
			continue
		}
		for sc, want := range ref.Size[em.name] {
			parts := strings.Split(sc, "/")
			dim, nargs := parts[0], parts[1]
			asg := map[string]string{subj: dim,
				"len(FunctionCallExpression.Arguments) == 1": map[string]string{"1": "true", "2": "false"}[nargs],
				"len(FunctionCallExpression.Arguments) > 1":  map[string]string{"1": "false", "2": "true"}[nargs],
				"len(FunctionCallExpression.Arguments) == 2": map[string]string{"1": "false", "2": "true"}[nargs],
				"len(FunctionCallExpression.Arguments) >= 2": map[string]string{"1": "false", "2": "true"}[nargs],
				"len(FunctionCallExpression.Arguments) < 2":  map[string]string{"1": "true", "2": "false"}[nargs],
			}
			got := ""
			var at = d.Pos()
			for _, r := range sizeRows {
				var gs []string
				for _, g := range r.Guards {
					g = stripDsl(g)
					if sj, _, _, ok := parseSetGuard(g); ok && (strings.HasSuffix(sj, "FunctionName") || sj == "type(Node)") {
						continue
					}
					gs = append(gs, g)
				}
				if sat, unk := guardSat(gs, asg); sat && len(unk) == 0 && !punct[strings.TrimSpace(r.Tmpl)] && got == "" {
					got, at = r.Tmpl, r.Pos
				}
			}
			c.Check(got == want, rule, em.name+"/size/"+sc, at, "prints `"+got+"`", fmt.Sprintf("for size() of a %s with %s argument(s) the %s emitter prints `%s`, the reference token is `%s`: the computed field yields a different number than in the other languages (e.g. the first extent instead of the element count)", dim, nargs, em.name, got, want))
		}
	}
}

// Q5b: both documented spellings of an array's dimensions are accepted. The expanded form lists dimensions as a
// sequence of names (`dimensions: [x, y]`) or a map of name → length; the items of the sequence form are decoded by
// (*ArrayDimension).UnmarshalYAML, which therefore must accept a string scalar (the name) as well as an integer
// scalar (a length): a test of the node's tag against "!!str" and one against "!!int", each leading to a nil-error
// return that stored the value.
func ruleDimensionItemSpellings(c *core.Ctx) {
	const rule = "Q5b"
	c.Rule(rule, "(*ArrayDimension).UnmarshalYAML accepts the scalar tags !!str (dimension name of the sequence form) and !!int (length)", 2)
	p := c.Pkg("pkg/dsl")
	var d *ast.FuncDecl
	for _, od := range c.AllDecls() {
		if c.DeclPkg(od) == p && od.Recv != nil && od.Name.Name == "UnmarshalYAML" {
			if nt := core.NamedOf(p.TypesInfo.TypeOf(od.Recv.List[0].Type)); nt != nil && nt.Obj().Name() == "ArrayDimension" {
				d = od
			}
		}
	}
	if d == nil {
		c.Undecided(rule, "anchor/(*ArrayDimension).UnmarshalYAML", 0, "method not found")
		return
	}
	info := p.TypesInfo
	// tag constants tested (== in an if, or a case of a switch on .Tag) in the method and the package helpers it calls
	accepted := map[string]bool{}
	for _, fd := range declsCalledInPkg(c, d, 1) {
		ast.Inspect(fd.Body, func(n ast.Node) bool {
			switch x := n.(type) {
			case *ast.BinaryExpr:
				if x.Op == token.EQL {
					for _, pair := range [][2]ast.Expr{{x.X, x.Y}, {x.Y, x.X}} {
						if strings.HasSuffix(types.ExprString(pair[0]), ".Tag") {
							if tv := info.Types[pair[1]]; tv.Value != nil && tv.Value.Kind() == constant.String {
								accepted[constant.StringVal(tv.Value)] = true
							}
						}
					}
				}
			case *ast.SwitchStmt:
				if x.Tag != nil && strings.HasSuffix(types.ExprString(x.Tag), ".Tag") {
					for _, s := range x.Body.List {
						cc := s.(*ast.CaseClause)
						// a case that only reports an error does not accept the tag
						onlyErr := len(cc.Body) == 1
						if onlyErr {
							if r, ok := cc.Body[0].(*ast.ReturnStmt); !ok || len(r.Results) != 1 || info.Types[r.Results[0]].IsNil() {
								onlyErr = false
							}
						}
						for _, e := range cc.List {
							if tv := info.Types[e]; tv.Value != nil && tv.Value.Kind() == constant.String && !onlyErr {
								accepted[constant.StringVal(tv.Value)] = true
							}
						}
					}
				}
			}
			return true
		})
	}
	for _, tag := range []string{"!!str", "!!int"} {
		c.Check(accepted[tag], rule, "ArrayDimension.UnmarshalYAML/"+tag, d.Pos(), "accepted",
			"the dimension item decoder has no branch for the scalar tag "+tag+": the documented expanded spelling `dimensions: [x, y]` (names) / `[3, 4]` (lengths) is rejected although the shorthand `T[x, y]` / `T[3, 4]` is accepted")
	}
}

// P10: decoding YAML into the address of a pointer can null it. yaml.v3 decodes a null node (`~`, `null`, an empty
// document) into a **T by setting the *T to nil, even when it pointed to a prepared value. Every Decode /
// DecodeWithOptions whose argument is `&p` with p itself a pointer must therefore be skipped for null nodes (a test of
// the node's Tag against "!!null" around it) or be followed by a nil test of p — otherwise the next use of p (its
// position, its fields) dereferences nil on an input that merely says "null".
func ruleDecodeIntoPointerPointer(c *core.Ctx) {
	const rule = "P10"
	c.Rule(rule, "front end: a yaml Decode/DecodeWithOptions into `&p` where p is a pointer is guarded by a `Tag != \"!!null\"` test or followed by a nil test of p", 1)
	n := 0
	for _, d := range c.AllDecls() {
		if d.Body == nil || !frontEndFile(c.Fset.Position(d.Pos()).Filename) {
			continue
		}
		info := c.DeclPkg(d).TypesInfo
		parent := map[ast.Node]ast.Node{}
		var stack []ast.Node
		ast.Inspect(d.Body, func(x ast.Node) bool {
			if x == nil {
				stack = stack[:len(stack)-1]
				return true
			}
			if len(stack) > 0 {
				parent[x] = stack[len(stack)-1]
			}
			stack = append(stack, x)
			return true
		})
		ast.Inspect(d.Body, func(x ast.Node) bool {
			ce, ok := x.(*ast.CallExpr)
			if !ok || len(ce.Args) == 0 {
				return true
			}
			f := core.Callee(info, ce)
			if f == nil {
				return true
			}
			switch core.FullName(f) {
			case "(gopkg.in/yaml.v3.Node).Decode", "(gopkg.in/yaml.v3.Node).DecodeWithOptions", "(gopkg.in/yaml.v3.Decoder).Decode":
			default:
				return true
			}
			ue, ok := ast.Unparen(ce.Args[0]).(*ast.UnaryExpr)
			if !ok || ue.Op != token.AND {
				return true
			}
			obj := identObj(info, ue.X)
			if obj == nil {
				return true
			}
			if _, isPtr := obj.Type().Underlying().(*types.Pointer); !isPtr {
				return true
			}
			n++
			key := c.FuncName(d) + "/Decode(&" + obj.Name() + ")"
			// (a) a test of a Tag against "!!null" among the enclosing conditions
			guarded := false
			for cur := parent[ast.Node(ce)]; cur != nil; cur = parent[cur] {
				if is, ok := cur.(*ast.IfStmt); ok && strings.Contains(types.ExprString(is.Cond), ".Tag") && strings.Contains(types.ExprString(is.Cond), `"!!null"`) {
					guarded = true
				}
			}
			// (b) a nil test of the variable after the call
			if !guarded {
				ast.Inspect(d.Body, func(y ast.Node) bool {
					be, ok := y.(*ast.BinaryExpr)
					if !ok || be.Pos() < ce.End() || (be.Op != token.EQL && be.Op != token.NEQ) {
						return true
					}
					if (identObj(info, be.X) == obj && info.Types[be.Y].IsNil()) || (identObj(info, be.Y) == obj && info.Types[be.X].IsNil()) {
						guarded = true
					}
					return true
				})
			}
			c.Check(guarded, rule, key, ce.Pos(), "null nodes are skipped, or the pointer is nil-tested afterwards",
				"`"+obj.Name()+"` is a pointer and is decoded through its address: a YAML null at this place sets it to nil and the following use dereferences nil (panic instead of a diagnostic)")
			return true
		})
	}
	if n == 0 {
		c.Undecided(rule, "decode sites", 0, "no Decode(&pointer) site found")
	}
}

// P11: the null type goes only where null is a type. UnmarshalTypeYAML answers a YAML null with (nil, nil) — the null
// case of a union. Every caller therefore either stores the result as the Type of a TypeCase (where nil means null),
// tests the result (or the node's tag) for null itself, or stores it in a position the tree walkers treat as optional
// (table). A nil Type anywhere else is handed to the visitors as a node and dereferenced.
var optionalTypePositions = map[string]string{
	"EnumDefinition.BaseType": "VisitChildren and the validators test BaseType for nil (no base type = int32)",
}

func ruleNullTypeOnlyInUnions(c *core.Ctx) {
	const rule = "P11"
	c.Rule(rule, "pkg/dsl/yaml.go: each result of UnmarshalTypeYAML is nil-tested, or guarded by a null-tag test of its node, or becomes TypeCase.Type, or goes to an audited optional position", 8)
	p := c.Pkg("pkg/dsl")
	target, _, _ := c.Func("pkg/dsl", "UnmarshalTypeYAML")
	if p == nil || target == nil {
		c.Undecided(rule, "anchor/pkg/dsl.UnmarshalTypeYAML", 0, "anchor not found")
		return
	}
	info := p.TypesInfo
	for _, d := range c.AllDecls() {
		if c.DeclPkg(d) != p || d.Body == nil || c.IsTestFile(d.Pos()) {
			continue
		}
		n := 0
		ast.Inspect(d.Body, func(x ast.Node) bool {
			as, ok := x.(*ast.AssignStmt)
			if !ok || len(as.Rhs) != 1 || len(as.Lhs) != 2 {
				return true
			}
			ce, ok := ast.Unparen(as.Rhs[0]).(*ast.CallExpr)
			if !ok {
				return true
			}
			if f := core.Callee(info, ce); f == nil || f.Origin() != target {
				return true
			}
			obj := identObj(info, as.Lhs[0])
			if obj == nil || len(ce.Args) != 1 {
				return true
			}
			n++
			key := c.FuncName(d) + "/UnmarshalTypeYAML#" + itoa(n)
			why := ""
			// (b) the result is compared with nil
			ast.Inspect(d.Body, func(y ast.Node) bool {
				if be, ok := y.(*ast.BinaryExpr); ok && (be.Op == token.EQL || be.Op == token.NEQ) {
					if (identObj(info, be.X) == obj && info.Types[be.Y].IsNil()) || (identObj(info, be.Y) == obj && info.Types[be.X].IsNil()) {
						why = "result is nil-tested"
					}
				}
				return true
			})
			// (b') the result is stored into a field and that field is nil-tested in the function
			if why == "" {
				stored := map[string]bool{}
				ast.Inspect(d.Body, func(y ast.Node) bool {
					if s2, ok := y.(*ast.AssignStmt); ok {
						for i, r := range s2.Rhs {
							if identObj(info, r) == obj && i < len(s2.Lhs) {
								stored[types.ExprString(s2.Lhs[i])] = true
							}
						}
					}
					return true
				})
				ast.Inspect(d.Body, func(y ast.Node) bool {
					if be, ok := y.(*ast.BinaryExpr); ok && (be.Op == token.EQL || be.Op == token.NEQ) {
						if (stored[types.ExprString(be.X)] && info.Types[be.Y].IsNil()) || (stored[types.ExprString(be.Y)] && info.Types[be.X].IsNil()) {
							why = "stored into a field that is nil-tested before the function returns it"
						}
					}
					return true
				})
			}
			// (c) the argument node's tag is tested against "!!null" before the call
			argObj := identObj(info, ce.Args[0])
			if why == "" && argObj != nil {
				ast.Inspect(d.Body, func(y ast.Node) bool {
					if be, ok := y.(*ast.BinaryExpr); ok && be.Pos() < ce.Pos() && (be.Op == token.EQL || be.Op == token.NEQ) {
						t := types.ExprString(be)
						if strings.Contains(t, `"!!null"`) && strings.Contains(t, argObj.Name()+".Tag") {
							why = "the node's tag is tested for null before the call"
						}
					}
					return true
				})
			}
			// (a)/(d) where the result goes
			if why == "" {
				ast.Inspect(d.Body, func(y ast.Node) bool {
					switch s := y.(type) {
					case *ast.KeyValueExpr:
						if identObj(info, s.Value) == obj {
							if id, ok := s.Key.(*ast.Ident); ok && id.Name == "Type" {
								// the enclosing literal
								why2 := ""
								ast.Inspect(d.Body, func(z ast.Node) bool {
									if cl, ok := z.(*ast.CompositeLit); ok && cl.Pos() <= s.Pos() && s.End() <= cl.End() {
										if nt := core.NamedOf(info.TypeOf(cl)); nt != nil && nt.Obj().Name() == "TypeCase" {
											why2 = "becomes TypeCase.Type (nil = the null case)"
										}
									}
									return true
								})
								if why2 != "" {
									why = why2
								}
							}
						}
					case *ast.AssignStmt:
						for i, r := range s.Rhs {
							if identObj(info, r) == obj && i < len(s.Lhs) {
								if se, ok := ast.Unparen(s.Lhs[i]).(*ast.SelectorExpr); ok {
									if k, ok := fieldOf(info, se); ok {
										if reason, ok := optionalTypePositions[k.typ+"."+k.field]; ok {
											why = "optional position " + k.typ + "." + k.field + ": " + reason
										}
									}
								}
							}
						}
					}
					return true
				})
			}
			c.Check(why != "", rule, key, ce.Pos(), why, "a YAML null here makes UnmarshalTypeYAML return a nil Type that is stored without a test ("+types.ExprString(ce.Args[0])+"): the tree walkers hand it to their callbacks as a node and the first GetNodeMeta() on it panics")
			return true
		})
	}
}

// U1: alias resolution before looking at the shape of a type. dsl.ToGeneralizedType wraps a *SimpleType as a scalar
// with no dimensionality, whatever the named type stands for: code that goes on to read .Dimensionality / .Cases of
// the result sees "scalar" for `a: Img` with `Img: !array ...`. Every call therefore takes GetUnderlyingType(...) (or a
// value that already is a *GeneralizedType), with the functions that resolve aliases themselves listed by name.
var generalizeExceptions = map[string]string{
	"internal/ndjsoncommon.GetJsonDataType": "resolves aliases itself: its `case *dsl.NamedType` recurses into the aliased type",
}

func ruleGeneralizeUnderlying(c *core.Ctx) {
	const rule = "U1"
	c.Rule(rule, "every dsl.ToGeneralizedType(x) outside pkg/dsl's own definition takes x = GetUnderlyingType(...) or a value that is already a *GeneralizedType: the shape of a type is read after aliases have been resolved", 15)
	tg, _, _ := c.Func("pkg/dsl", "ToGeneralizedType")
	gu, _, _ := c.Func("pkg/dsl", "GetUnderlyingType")
	if tg == nil || gu == nil {
		c.Undecided(rule, "anchor/ToGeneralizedType,GetUnderlyingType", 0, "anchor functions not found")
		return
	}
	for _, d := range c.AllDecls() {
		p := c.DeclPkg(d)
		if p == nil || d.Body == nil || c.IsTestFile(d.Pos()) || !strings.HasPrefix(p.PkgPath, core.Mod) {
			continue
		}
		info := p.TypesInfo
		n := 0
		for _, cs := range c.Calls(d) {
			if cs.Callee == nil || cs.Callee.Origin() != tg || len(cs.Call.Args) != 1 {
				continue
			}
			n++
			key := fmt.Sprintf("%s/ToGeneralizedType#%d", c.FuncName(d), n)
			if r, ok := generalizeExceptions[c.FuncName(d)]; ok {
				c.OK(rule, key, cs.Call.Pos(), "table exception: "+r)
				continue
			}
			arg := ast.Unparen(cs.Call.Args[0])
			if id, ok := arg.(*ast.Ident); ok {
				arg = ast.Unparen(singleDefRHS(info, d.Body, id))
			}
			good := false
			if ce, ok := arg.(*ast.CallExpr); ok {
				if f := core.Callee(info, ce); f != nil && f.Origin() == gu {
					good = true
				}
			}
			if nt := core.NamedOf(info.TypeOf(arg)); nt != nil && nt.Obj().Name() == "GeneralizedType" {
				good = true
			}
			c.Check(good, rule, key, cs.Call.Pos(), "the argument is an underlying type",
				"ToGeneralizedType is applied to `"+types.ExprString(cs.Call.Args[0])+"` without GetUnderlyingType: for a value whose type is a named (alias) type the result is a scalar with no dimensionality — a `.Dimensionality.(*dsl.Array)` assertion on it panics, a switch on it takes the wrong branch")
		}
	}
}

// X10: the typing of a binary expression treats its two operands alike. In the *BinaryExpression case of
// resolveComputedFields every test — if condition, switch tag, case expression — that reads something derived from one
// operand reads the same thing of the other operand in the same way: the test is unchanged when Left and Right (and the
// locals computed from them, paired by their definitions: lKind/rKind, lIsPrim/rIsPrim) are exchanged. A test on one
// side only makes the static type of `a op b` differ from that of `b op a`.
func ruleTypingSymmetric(c *core.Ctx) {
	const rule = "X10"
	c.Rule(rule, "dsl.resolveComputedFields, case *BinaryExpression: every condition is invariant under exchanging the left and the right operand (with the locals derived from them)", 2)
	_, d, p := c.Func("pkg/dsl", "resolveComputedFields")
	if d == nil {
		c.Undecided(rule, "anchor/pkg/dsl.resolveComputedFields", 0, "anchor not found")
		return
	}
	info := p.TypesInfo
	cc, _ := caseOfKind(info, d, "*BinaryExpression")
	if cc == nil {
		c.Undecided(rule, "anchor/case *BinaryExpression", d.Pos(), "the case was not found")
		return
	}
	// locals of the case paired by their definitions
	pair := map[string]string{}
	mentions := func(e ast.Expr, field string) bool {
		found := false
		ast.Inspect(e, func(n ast.Node) bool {
			if se, ok := n.(*ast.SelectorExpr); ok && se.Sel.Name == field {
				found = true
			}
			return true
		})
		return found
	}
	swapText := func(t string) string {
		t = strings.ReplaceAll(t, ".Left", ".\x00")
		t = strings.ReplaceAll(t, ".Right", ".Left")
		return strings.ReplaceAll(t, ".\x00", ".Right")
	}
	type def struct {
		names []string
		rhs   string
	}
	var lefts, rights []def
	for _, st := range cc.Body {
		ast.Inspect(st, func(n ast.Node) bool {
			as, ok := n.(*ast.AssignStmt)
			if !ok || as.Tok != token.DEFINE || len(as.Rhs) != 1 {
				return true
			}
			var names []string
			for _, l := range as.Lhs {
				if id, ok := l.(*ast.Ident); ok {
					names = append(names, id.Name)
				}
			}
			l, r := mentions(as.Rhs[0], "Left"), mentions(as.Rhs[0], "Right")
			switch {
			case l && !r:
				lefts = append(lefts, def{names, types.ExprString(as.Rhs[0])})
			case r && !l:
				rights = append(rights, def{names, types.ExprString(as.Rhs[0])})
			}
			return true
		})
	}
	for _, ld := range lefts {
		for _, rd := range rights {
			if swapText(ld.rhs) == rd.rhs && len(ld.names) == len(rd.names) {
				for i := range ld.names {
					if ld.names[i] != "_" && rd.names[i] != "_" {
						pair[ld.names[i]] = rd.names[i]
						pair[rd.names[i]] = ld.names[i]
					}
				}
			}
		}
	}
	oneSided := func(e ast.Expr) bool {
		hit := false
		ast.Inspect(e, func(n ast.Node) bool {
			switch x := n.(type) {
			case *ast.Ident:
				if _, ok := pair[x.Name]; ok {
					hit = true
				}
				for _, dd := range append(append([]def(nil), lefts...), rights...) {
					for _, nm := range dd.names {
						if nm == x.Name && nm != "_" {
							hit = true
						}
					}
				}
			case *ast.SelectorExpr:
				if x.Sel.Name == "Left" || x.Sel.Name == "Right" {
					hit = true
				}
			}
			return true
		})
		return hit
	}
	var canon func(e ast.Expr, swap bool) string
	canon = func(e ast.Expr, swap bool) string {
		switch x := ast.Unparen(e).(type) {
		case *ast.BinaryExpr:
			switch x.Op {
			case token.LAND, token.LOR:
				var terms []string
				var collect func(y ast.Expr)
				collect = func(y ast.Expr) {
					if b, ok := ast.Unparen(y).(*ast.BinaryExpr); ok && b.Op == x.Op {
						collect(b.X)
						collect(b.Y)
						return
					}
					terms = append(terms, canon(y, swap))
				}
				collect(x)
				sort.Strings(terms)
				return "(" + strings.Join(terms, " "+x.Op.String()+" ") + ")"
			case token.EQL, token.NEQ:
				a, b := canon(x.X, swap), canon(x.Y, swap)
				if b < a {
					a, b = b, a
				}
				return "(" + a + " " + x.Op.String() + " " + b + ")"
			}
			return "(" + canon(x.X, swap) + " " + x.Op.String() + " " + canon(x.Y, swap) + ")"
		case *ast.UnaryExpr:
			return x.Op.String() + canon(x.X, swap)
		case *ast.Ident:
			if swap {
				if o, ok := pair[x.Name]; ok {
					return o
				}
			}
			return x.Name
		case *ast.SelectorExpr:
			name := x.Sel.Name
			if swap {
				if name == "Left" {
					name = "Right"
				} else if name == "Right" {
					name = "Left"
				}
			}
			return canon(x.X, swap) + "." + name
		case *ast.CallExpr:
			var args []string
			for _, a := range x.Args {
				args = append(args, canon(a, swap))
			}
			return canon(x.Fun, swap) + "(" + strings.Join(args, ", ") + ")"
		}
		t := types.ExprString(e)
		if swap {
			t = swapText(t)
		}
		return t
	}
	n := 0
	check := func(e ast.Expr, what string) {
		if e == nil || !oneSided(e) {
			return
		}
		n++
		key := fmt.Sprintf("resolveComputedFields/BinaryExpression/%s#%d", what, n)
		a, b := canon(e, false), canon(e, true)
		c.Check(a == b, rule, key, e.Pos(), "the test reads both operands alike",
			"`"+types.ExprString(e)+"` looks at one operand only (exchanged: `"+b+"`): the resolved type of `a op b` can differ from that of `b op a`")
	}
	for _, st := range cc.Body {
		ast.Inspect(st, func(nn ast.Node) bool {
			switch x := nn.(type) {
			case *ast.FuncLit:
				return false
			case *ast.IfStmt:
				check(x.Cond, "if")
			case *ast.SwitchStmt:
				check(x.Tag, "switch")
				if x.Tag == nil {
					for _, cl := range x.Body.List {
						for _, e := range cl.(*ast.CaseClause).List {
							check(e, "case")
						}
					}
				}
			}
			return true
		})
	}
	// the two conversions inserted for the operands use the same target type
	var convArgs []string
	for _, st := range cc.Body {
		ast.Inspect(st, func(nn ast.Node) bool {
			if ce, ok := nn.(*ast.CallExpr); ok {
				if f := core.Callee(info, ce); f != nil && f.Name() == "insertConversion" && len(ce.Args) == 2 {
					side := ""
					if mentions(ce.Args[0], "Left") {
						side = "L"
					} else if mentions(ce.Args[0], "Right") {
						side = "R"
					}
					convArgs = append(convArgs, side+":"+types.ExprString(ce.Args[1]))
				}
			}
			return true
		})
	}
	okConv := len(convArgs) > 0 && len(convArgs)%2 == 0
	for i := 0; i+1 < len(convArgs); i += 2 {
		a, b := convArgs[i], convArgs[i+1]
		if a[:1] == b[:1] || a[2:] != b[2:] {
			okConv = false
		}
	}
	c.Check(okConv, rule, "resolveComputedFields/BinaryExpression/operands converted to one type", cc.Pos(), "left and right operand are converted to the same type, in pairs",
		fmt.Sprintf("the operands are not converted to one common type in pairs (%v): the arithmetic is done in different types depending on the side an operand is written on", convArgs))
}

// X11 (C05): a conversion between integer primitives that can lose values is range-checked. The
// `case *dsl.TypeChangeNumberToNumber:` clause of cpp/binary.writeTypeConversion is evaluated (finite domain: every
// ordered pair of the integer primitives, read direction) and the `if (...)` it prints in front of the static_cast is
// compared with arithmetic: an upper-bound test is needed exactly when max(old) > max(new), a lower-bound test
// exactly when min(old) < min(new).
func ruleIntegerNarrowingChecked(c *core.Ctx) {
	const rule = "X11"
	c.Rule(rule, "cpp/binary.writeTypeConversion, integer -> integer: the emitted range test has an upper bound iff the old type's maximum exceeds the new type's and a lower bound iff the old type is signed and the new type cannot hold its minimum (all ordered pairs of int8..int64, uint8..uint64, size); float -> integer conversions test both bounds and round", 60)
	_, d, p := c.Func("internal/cpp/binary", "writeTypeConversion")
	if d == nil {
		c.Undecided(rule, "anchor/internal/cpp/binary.writeTypeConversion", 0, "anchor not found")
		return
	}
	info := p.TypesInfo
	cc, obj := caseOfKind(info, d, "*dsl.TypeChangeNumberToNumber")
	if cc == nil {
		c.Undecided(rule, "anchor/case *dsl.TypeChangeNumberToNumber", d.Pos(), "the case was not found")
		return
	}
	// the direction flag: the bool parameter; the read direction is where the conversion is written out
	var writeObj types.Object
	for _, po := range paramObjs(info, d) {
		if po != nil && isBoolType(po.Type()) {
			writeObj = po
		}
	}
	type prim struct {
		name   string
		signed bool
		bits   int
		float  bool
	}
	prims := []prim{{"int8", true, 8, false}, {"int16", true, 16, false}, {"int32", true, 32, false}, {"int64", true, 64, false},
		{"uint8", false, 8, false}, {"uint16", false, 16, false}, {"uint32", false, 32, false}, {"uint64", false, 64, false}, {"size", false, 64, false},
		{"float32", true, 32, true}, {"float64", true, 64, true}}
	for _, o := range prims {
		for _, n := range prims {
			if o.name == n.name || (!o.float && n.float) {
				continue // int -> float: every value is representable up to rounding, nothing is required
			}
			key := "writeTypeConversion/" + o.name + " -> " + n.name
			maxBits := func(q prim) int {
				if q.signed {
					return q.bits - 1
				}
				return q.bits
			}
			needUpper := maxBits(o) > maxBits(n)
			needLower := o.signed && (!n.signed || o.bits > n.bits)
			needRound := false
			if o.float {
				// a floating-point source: into an integer both bounds are tested and the value is rounded; into a narrower float both bounds
				needUpper, needLower = !n.float || o.bits > n.bits, !n.float || o.bits > n.bits
				needRound = !n.float
			}
			var texts []string
			undecided := ""
			var explore func(choices []bool)
			explore = func(choices []bool) {
				pi := &pinterp{c: c, choices: choices, oldPrim: o.name, newPrim: n.name}
				env := &penv{vars: map[types.Object]pval{}}
				if obj != nil {
					env.vars[obj] = pval{k: pvNode, s: "change"}
				}
				if writeObj != nil {
					env.vars[writeObj] = pval{k: pvBool, b: false}
				}
				pi.exec(info, cc.Body, env)
				if pi.unknown != "" {
					undecided = pi.unknown
					return
				}
				if pi.asked > len(choices) {
					for _, b := range []bool{false, true} {
						explore(append(append([]bool(nil), choices...), b))
					}
					return
				}
				var sb strings.Builder
				for _, ev := range pi.events {
					if strings.HasPrefix(ev, "emit:") {
						sb.WriteString(strings.TrimPrefix(ev, "emit:"))
					}
				}
				texts = append(texts, sb.String())
			}
			explore(nil)
			if undecided != "" || len(texts) == 0 {
				c.Undecided(rule, key, cc.Pos(), "the clause could not be evaluated: "+undecided)
				continue
			}
			bad := ""
			for _, t := range texts {
				// the range test: everything in front of the cast
				head := t
				if i := strings.Index(t, "static_cast<"); i >= 0 {
					head = t[:i]
				}
				hasUpper := strings.Contains(head, "> std::numeric_limits<") || strings.Contains(head, ">= std::numeric_limits<")
				hasLower := strings.Contains(head, "< 0") || strings.Contains(head, "lowest()") || strings.Contains(head, "::min()")
				if !strings.Contains(t, "static_cast<") {
					bad = "no static_cast is emitted"
				}
				if needUpper && !hasUpper {
					bad = "values above the maximum of " + n.name + " are converted without a test: they wrap around silently instead of raising 'Numeric overflow'"
				}
				if needLower && !hasLower {
					bad = "negative values are converted to " + n.name + " without a test: they wrap around silently instead of raising 'Numeric overflow'"
				}
				if i := strings.Index(t, "static_cast<"); i >= 0 {
					rounded := strings.Contains(t[i:], "round(")
					if needRound && !rounded {
						bad = "a floating-point value is converted to " + n.name + " without std::round: 2.7 becomes 2 (truncation) instead of the documented nearest integer"
					}
				}
			}
			c.Check(bad == "", rule, key, cc.Pos(), fmt.Sprintf("upper test %v, lower test %v, as the value ranges require", needUpper, needLower), bad)
		}
	}
}

// GC1: no state survives from one validation / generation to the next. `yardl generate --watch` validates and
// generates many times in one process, and a package with `versions:` validates several models with the same names in
// one run: a package-level map, slice or pointer that a function fills at run time (a memo of parsed manifests, of
// schema strings, ...) answers the second question with the first one's result. Every package-level variable of the
// module that a function other than init() assigns, index-assigns or appends to is an audited table entry.
var auditedGlobals = map[string]string{
	"pkg/packaging.cacheDir": "assigned by initCacheDir, which only init() calls: the location of the download cache, the same for every run of the process",
}

func ruleNoRunTimeGlobals(c *core.Ctx) {
	const rule = "GC1"
	c.Rule(rule, "no package-level variable of the module is written by a function at run time (assignment, element assignment, append, delete), audited entries excepted: nothing is remembered from one validation or generation to the next", 1)
	n := 0
	seen := map[string]bool{}
	for _, d := range c.AllDecls() {
		p := c.DeclPkg(d)
		if p == nil || d.Body == nil || c.IsTestFile(d.Pos()) || !strings.HasPrefix(p.PkgPath, core.Mod) {
			continue
		}
		if d.Name.Name == "init" && d.Recv == nil {
			continue
		}
		info := p.TypesInfo
		global := func(e ast.Expr) *types.Var {
			for {
				switch x := ast.Unparen(e).(type) {
				case *ast.IndexExpr:
					e = x.X
					continue
				case *ast.StarExpr:
					e = x.X
					continue
				case *ast.SelectorExpr:
					if v, ok := info.Uses[x.Sel].(*types.Var); ok && !v.IsField() && v.Pkg() != nil && v.Parent() == v.Pkg().Scope() && core.InModuleVar(v) {
						return v
					}
					e = x.X
					continue
				case *ast.Ident:
					if v, ok := info.Uses[x].(*types.Var); ok && v.Pkg() != nil && v.Parent() == v.Pkg().Scope() && core.InModuleVar(v) {
						return v
					}
				}
				return nil
			}
		}
		report := func(v *types.Var, at token.Pos, how string) {
			rel := strings.TrimPrefix(v.Pkg().Path(), core.Mod+"/")
			name := rel + "." + v.Name()
			key := name + "/written in " + c.FuncName(d)
			if seen[key] {
				return
			}
			seen[key] = true
			n++
			if r, ok := auditedGlobals[name]; ok {
				c.OK(rule, key, at, "audited: "+r)
				return
			}
			c.Bad(rule, key, at, fmt.Sprintf("package-level variable %s is %s at run time: what one validation / generation stored is seen by the next one in the same process (watch mode, a package with `versions:` whose models share names)", name, how))
		}
		ast.Inspect(d.Body, func(nn ast.Node) bool {
			switch x := nn.(type) {
			case *ast.AssignStmt:
				for _, l := range x.Lhs {
					if v := global(l); v != nil {
						how := "assigned"
						if _, isIx := ast.Unparen(l).(*ast.IndexExpr); isIx {
							how = "given a new element"
						}
						report(v, x.Pos(), how)
					}
				}
			case *ast.IncDecStmt:
				if v := global(x.X); v != nil {
					report(v, x.Pos(), "incremented")
				}
			case *ast.CallExpr:
				if se, ok := ast.Unparen(x.Fun).(*ast.SelectorExpr); ok {
					// a stateful object of another module kept in a package-level variable and filled at run time
					// (`var k = koanf.New(".")` … `k.Load(...)`, `k.Set(...)`): what one regeneration loaded is still there
					// for the next (fix 5ed0454: sections removed from _package.yml survived in watch mode)
					switch se.Sel.Name {
					case "Load", "Set", "Put", "Add", "Merge", "MergeAt", "Reset", "Insert", "Append", "Push", "Register":
						if v := global(se.X); v != nil && ast.Unparen(se.X) != nil {
							if _, direct := ast.Unparen(se.X).(*ast.Ident); direct {
								if nt := core.NamedOf(v.Type()); nt != nil && nt.Obj().Pkg() != nil && !strings.HasPrefix(nt.Obj().Pkg().Path(), core.Mod) && nt.Obj().Pkg().Path() != "sync" {
									if callee := core.Callee(info, x); callee != nil && callee.Type().(*types.Signature).Recv() != nil {
										report(v, x.Pos(), "filled ("+nt.Obj().Pkg().Name()+"."+nt.Obj().Name()+"."+se.Sel.Name+")")
									}
								}
							}
						}
					}
					switch se.Sel.Name {
					case "Store", "LoadOrStore", "Delete", "Swap", "CompareAndSwap", "LoadAndDelete":
						if v := global(se.X); v != nil {
							if nt := core.NamedOf(v.Type()); nt != nil && nt.Obj().Pkg() != nil && nt.Obj().Pkg().Path() == "sync" {
								report(v, x.Pos(), "filled (sync."+nt.Obj().Name()+"."+se.Sel.Name+")")
							}
						}
					}
				}
				if id, ok := ast.Unparen(x.Fun).(*ast.Ident); ok && id.Name == "delete" && len(x.Args) == 2 {
					if _, isB := info.Uses[id].(*types.Builtin); isB {
						if v := global(x.Args[0]); v != nil {
							report(v, x.Pos(), "deleted from")
						}
					}
				}
			}
			return true
		})
	}
	if n == 0 {
		// the rule is about the absence of such writes: keep a positive anchor so that it cannot pass on an empty load
		c.OK(rule, "anchor/module functions scanned", 0, fmt.Sprintf("%d function declarations scanned", len(c.AllDecls())))
	}
}

// E7: a diagnostic sink only ever grows. A variable (or field, or pointee) of type validation.ErrorSink / WarningSink is
// never assigned after its definition, and its Errors / Warnings slice is only ever appended to: re-initialising it —
// per file, per pass, per version — throws away what was reported before, and a package with errors is accepted.
func ruleSinksOnlyGrow(c *core.Ctx) {
	const rule = "E7"
	c.Rule(rule, "no validation.ErrorSink / WarningSink is overwritten after its definition (whole value or its Errors/Warnings slice): diagnostics are only ever added", 3)
	isSink := func(t types.Type) bool {
		if t == nil {
			return false
		}
		if p, ok := t.Underlying().(*types.Pointer); ok {
			t = p.Elem()
		}
		nt := core.NamedOf(t)
		return nt != nil && nt.Obj().Pkg() != nil && strings.HasSuffix(nt.Obj().Pkg().Path(), "/internal/validation") && (nt.Obj().Name() == "ErrorSink" || nt.Obj().Name() == "WarningSink")
	}
	nSinks := 0
	for _, d := range c.AllDecls() {
		p := c.DeclPkg(d)
		if p == nil || d.Body == nil || c.IsTestFile(d.Pos()) || !strings.HasPrefix(p.PkgPath, core.Mod) {
			continue
		}
		info := p.TypesInfo
		// the package that defines the sinks may do what it likes inside their methods (Add appends)
		inValidation := strings.HasSuffix(p.PkgPath, "/internal/validation")
		mentions := false
		ast.Inspect(d.Body, func(n ast.Node) bool {
			if id, ok := n.(*ast.Ident); ok {
				if v, ok := info.ObjectOf(id).(*types.Var); ok && isSink(v.Type()) {
					mentions = true
				}
			}
			return !mentions
		})
		if !mentions {
			continue
		}
		nSinks++
		bad := ""
		var at token.Pos
		ast.Inspect(d.Body, func(n ast.Node) bool {
			as, ok := n.(*ast.AssignStmt)
			if !ok || as.Tok == token.DEFINE {
				return true
			}
			for i, l := range as.Lhs {
				target := ast.Unparen(l)
				if st, isStar := target.(*ast.StarExpr); isStar {
					target = ast.Unparen(st.X)
				}
				t := info.TypeOf(target)
				if isSink(t) {
					if _, isPtr := info.TypeOf(l).Underlying().(*types.Pointer); isPtr && target == ast.Unparen(l) {
						continue // re-pointing a *ErrorSink variable is not emptying a sink
					}
					bad, at = "`"+types.ExprString(l)+"` is assigned a new value", as.Pos()
				}
				if se, isSel := target.(*ast.SelectorExpr); isSel && (se.Sel.Name == "Errors" || se.Sel.Name == "Warnings") && isSink(info.TypeOf(se.X)) && !inValidation {
					// x.Errors = append(x.Errors, ...) keeps what was there
					keeps := false
					if i < len(as.Rhs) {
						if ce, isCall := ast.Unparen(as.Rhs[i]).(*ast.CallExpr); isCall {
							if id, isId := ast.Unparen(ce.Fun).(*ast.Ident); isId && id.Name == "append" && len(ce.Args) > 0 && types.ExprString(ce.Args[0]) == types.ExprString(se) {
								keeps = true
							}
						}
					}
					if !keeps {
						bad, at = "`"+types.ExprString(l)+"` is replaced", as.Pos()
					}
				}
			}
			return true
		})
		key := c.FuncName(d) + "/sink"
		if bad == "" {
			c.OK(rule, key, d.Pos(), "the sink is only added to")
		} else {
			c.Bad(rule, key, at, bad+": the diagnostics recorded so far are dropped — errors of earlier files / passes / versions vanish and the package is accepted")
		}
	}
	_ = nSinks
}

// X1c: the namespace cache of the import walk belongs to one package. cmd.parsePackageNamespaces memoises parsed
// namespaces BY NAMESPACE NAME; a package and its previous versions have the same namespace name, so a cache shared
// between them answers "previous version" with the current model (and nothing of the old version is parsed or
// validated). Every call from outside the recursion passes a map created in the calling function, and not in front of a
// loop that contains the call.
func ruleParseCachePerPackage(c *core.Ctx) {
	const rule = "X1c"
	c.Rule(rule, "cmd.parsePackageNamespaces: the memo map passed by every outside caller is created in that caller (make / literal), inside the same loop iteration as the call", 1)
	ppn, d, p := c.Func("internal/cmd", "parsePackageNamespaces")
	if d == nil {
		c.Undecided(rule, "anchor/internal/cmd.parsePackageNamespaces", 0, "anchor not found")
		return
	}
	info := p.TypesInfo
	// which parameter is the memo
	mi := -1
	for i, po := range paramObjs(info, d) {
		if po != nil {
			if _, isMap := po.Type().Underlying().(*types.Map); isMap {
				mi = i
			}
		}
	}
	if mi < 0 {
		c.Undecided(rule, "parsePackageNamespaces/memo parameter", d.Pos(), "no map parameter")
		return
	}
	// follow the memo outwards: a caller that merely forwards its own map parameter is looked through
	type site struct {
		fn   *ast.FuncDecl
		call *ast.CallExpr
		arg  ast.Expr
	}
	var sites []site
	var collect func(target *types.Func, argIndex int, depth int)
	collect = func(target *types.Func, argIndex int, depth int) {
		for _, od := range c.AllDecls() {
			if od.Body == nil || c.DeclPkg(od) != p {
				continue
			}
			me, _ := info.Defs[od.Name].(*types.Func)
			for _, cs := range c.Calls(od) {
				if cs.Callee == nil || cs.Callee.Origin() != target || me == target || argIndex >= len(cs.Call.Args) {
					continue
				}
				arg := cs.Call.Args[argIndex]
				forwarded := false
				if o := identObj(info, arg); o != nil && depth < 3 {
					for i, po := range paramObjs(info, od) {
						if po == o && me != nil {
							forwarded = true
							collect(me, i, depth+1)
						}
					}
				}
				if !forwarded {
					sites = append(sites, site{od, cs.Call, arg})
				}
			}
		}
	}
	collect(ppn, mi, 0)
	if len(sites) == 0 {
		c.Undecided(rule, "parsePackageNamespaces/callers", d.Pos(), "no outside caller found")
		return
	}
	for i, s := range sites {
		key := fmt.Sprintf("%s/memo argument#%d", c.FuncName(s.fn), i+1)
		e := ast.Unparen(s.arg)
		var defPos token.Pos
		if id, ok := e.(*ast.Ident); ok {
			r := singleDefRHS(info, s.fn.Body, id)
			if r != ast.Expr(id) {
				e = ast.Unparen(r)
				defPos = r.Pos()
			}
		}
		fresh := false
		switch x := e.(type) {
		case *ast.CompositeLit:
			fresh = true
		case *ast.CallExpr:
			if id, ok := ast.Unparen(x.Fun).(*ast.Ident); ok && id.Name == "make" {
				fresh = true
			}
		}
		if !fresh {
			c.Bad(rule, key, s.call.Pos(), "the parse cache `"+types.ExprString(s.arg)+"` is not created by the caller: packages validated in one run share it, and a previous version (same namespace name as the current package) is answered from the cache instead of being parsed and validated")
			continue
		}
		// created in front of a loop that contains the call?
		shared := false
		if defPos != 0 {
			ast.Inspect(s.fn.Body, func(n ast.Node) bool {
				switch l := n.(type) {
				case *ast.ForStmt, *ast.RangeStmt:
					if l.Pos() <= s.call.Pos() && s.call.End() <= l.End() && !(l.Pos() <= defPos && defPos <= l.End()) {
						shared = true
					}
				}
				return true
			})
		}
		// or used by more than one call
		if defPos != 0 {
			uses := 0
			if id, ok := ast.Unparen(s.arg).(*ast.Ident); ok {
				o := info.ObjectOf(id)
				ast.Inspect(s.fn.Body, func(n ast.Node) bool {
					if ce, ok := n.(*ast.CallExpr); ok {
						for _, a := range ce.Args {
							if identObj(info, a) == o {
								uses++
							}
						}
					}
					return true
				})
			}
			if uses > 1 {
				shared = true
			}
		}
		c.Check(!shared, rule, key, s.call.Pos(), "a fresh cache for this package", "one parse cache serves several packages (created once, used by calls in a loop / by several calls): a previous version is answered with the current package's namespace")
	}
}

// X12 (C09): arithmetic is defined between numbers only. The *BinaryExpression case of resolveComputedFields is evaluated
// over the kinds of its operands (integer, floating point, complex, another primitive such as string/bool/date, not a
// primitive) x whether the two types have a common type: whenever an operand is not a number the case must report an
// error and must not give the expression a type — also when both operands have the SAME non-numeric type, for which a
// common type exists.
func ruleArithmeticOnNumbersOnly(c *core.Ctx) {
	const rule = "X12"
	c.Rule(rule, "dsl.resolveComputedFields, case *BinaryExpression: for every pair of operand kinds with a non-numeric operand an error is reported and no resolved type is assigned, whether or not the operand types have a common type", 12)
	_, d, p := c.Func("pkg/dsl", "resolveComputedFields")
	if d == nil {
		c.Undecided(rule, "anchor/pkg/dsl.resolveComputedFields", 0, "anchor not found")
		return
	}
	info := p.TypesInfo
	cc, obj := caseOfKind(info, d, "*BinaryExpression")
	if cc == nil {
		c.Undecided(rule, "anchor/case *BinaryExpression", d.Pos(), "the case was not found")
		return
	}
	kinds := []struct{ label, name string }{
		{"integer", "PrimitiveKindInteger"}, {"float", "PrimitiveKindFloatingPoint"}, {"complex", "PrimitiveKindComplexFloatingPoint"},
		{"other primitive", "PrimitiveKindOther"}, {"not a primitive", ""},
	}
	numeric := map[string]bool{"PrimitiveKindInteger": true, "PrimitiveKindFloatingPoint": true, "PrimitiveKindComplexFloatingPoint": true}
	for _, l := range kinds {
		for _, r := range kinds {
			if numeric[l.name] && numeric[r.name] {
				continue
			}
			for _, commonErr := range []bool{false, true} {
				if !commonErr && l.name != r.name {
					continue // different kinds without a number among them: GetCommonType fails
				}
				key := fmt.Sprintf("BinaryExpression/%s op %s/common type %v", l.label, r.label, !commonErr)
				okAll, undecided, witness := true, "", ""
				var explore func(choices []bool)
				explore = func(choices []bool) {
					pi := &pinterp{c: c, choices: choices, typing: true, lKind: l.name, rKind: r.name, commonErr: commonErr, scen: pscen{"BinaryOpAdd", "", ""}}
					env := &penv{vars: map[types.Object]pval{}}
					if obj != nil {
						env.vars[obj] = pval{k: pvNode, s: "parent"}
					}
					pi.exec(info, cc.Body, env)
					if pi.unknown != "" {
						undecided = pi.unknown
						return
					}
					if pi.asked > len(choices) {
						for _, b := range []bool{false, true} {
							explore(append(append([]bool(nil), choices...), b))
						}
						return
					}
					hasErr, typed := false, false
					for _, ev := range pi.events {
						if ev == "error" {
							hasErr = true
						}
						if ev == "typed" {
							typed = true
						}
					}
					if !hasErr || typed {
						okAll = false
						witness = fmt.Sprintf("error reported: %v, type assigned: %v", hasErr, typed)
					}
				}
				explore(nil)
				if undecided != "" {
					c.Undecided(rule, key, cc.Pos(), "the case could not be evaluated for these operands: "+undecided)
					continue
				}
				c.Check(okAll, rule, key, cc.Pos(), "rejected with an error, no type assigned",
					fmt.Sprintf("an arithmetic operator between a %s and a %s operand is accepted (%s): `string * string`, `date - date`, `Point / Point` pass validation and the generators print the operator between values the target languages do not define it for", l.label, r.label, witness))
			}
		}
	}
}

// F1: a fold keeps its result. Inside a loop, a call of a module function of the form `r, err := F(acc, x)` — acc a local
// declared in front of the loop, r of acc's type — continues the fold only if r goes back into acc. Discarding r
// (`_, err := F(acc, x)`) turns "the common type of all cases" into "the type of the first case, checked against each".
func ruleFoldKeepsResult(c *core.Ctx) {
	const rule = "F1"
	c.Rule(rule, "in a loop, the result of a module function applied to an accumulator declared outside the loop (`r, err := F(acc, x)`, r of acc's type) is not discarded", 1)
	n := 0
	for _, d := range c.AllDecls() {
		p := c.DeclPkg(d)
		if p == nil || d.Body == nil || c.IsTestFile(d.Pos()) || !strings.HasPrefix(p.PkgPath, core.Mod) {
			continue
		}
		info := p.TypesInfo
		ast.Inspect(d.Body, func(nn ast.Node) bool {
			var body *ast.BlockStmt
			switch l := nn.(type) {
			case *ast.ForStmt:
				body = l.Body
			case *ast.RangeStmt:
				body = l.Body
			default:
				return true
			}
			ast.Inspect(body, func(m ast.Node) bool {
				as, ok := m.(*ast.AssignStmt)
				if !ok || len(as.Rhs) != 1 || len(as.Lhs) < 2 {
					return true
				}
				ce, ok := ast.Unparen(as.Rhs[0]).(*ast.CallExpr)
				if !ok {
					return true
				}
				f := core.Callee(info, ce)
				if f == nil || !core.InModule(f) {
					return true
				}
				sig, _ := f.Type().(*types.Signature)
				if sig == nil || sig.Results().Len() < 2 {
					return true
				}
				rt := sig.Results().At(0).Type()
				var acc types.Object
				for _, a := range ce.Args {
					if o := identObj(info, a); o != nil && o.Pos() < nn.Pos() && o.Parent() != nil && o.Pkg() != nil && o.Parent() != o.Pkg().Scope() && types.Identical(o.Type(), rt) {
						// declared in front of the loop, in this function
						if o.Pos() >= d.Body.Pos() {
							acc = o
						}
					}
				}
				if acc == nil {
					return true
				}
				// is acc assigned anywhere in the loop at all? (a fold, not a comparison against a fixed value)
				n++
				key := fmt.Sprintf("%s/%s(%s, …)", c.FuncName(d), f.Name(), acc.Name())
				id0, isId := as.Lhs[0].(*ast.Ident)
				discarded := isId && id0.Name == "_"
				c.Check(!discarded, rule, key, as.Pos(), "the result continues the fold",
					fmt.Sprintf("the first result of %s(%s, …) is discarded inside the loop: `%s` keeps the value it had after the first iteration and the later elements are only checked against it, never merged into it", f.Name(), acc.Name(), acc.Name()))
				return true
			})
			return true
		})
	}
	if n == 0 {
		c.Undecided(rule, "anchor/fold steps", 0, "no fold step of the form r, err := F(acc, x) found in a loop")
	}
}

// L2: lists that belong together stay together. Two slices that one loop appends to in lockstep (one element each per
// iteration) describe the same items by position; sorting, reversing or filtering one of them alone pairs every item
// with another item's data (version label i with the model of version j).
func ruleParallelSlicesStayAligned(c *core.Ctx) {
	const rule = "L2"
	c.Rule(rule, "two slices appended to in lockstep by one loop and handed to one call are never reordered separately (sort.*, slices.Sort*, reverse) before that call", 1)
	n := 0
	for _, d := range c.AllDecls() {
		p := c.DeclPkg(d)
		if p == nil || d.Body == nil || c.IsTestFile(d.Pos()) || !strings.HasPrefix(p.PkgPath, core.Mod) {
			continue
		}
		info := p.TypesInfo
		ast.Inspect(d.Body, func(nn ast.Node) bool {
			var body *ast.BlockStmt
			switch l := nn.(type) {
			case *ast.ForStmt:
				body = l.Body
			case *ast.RangeStmt:
				body = l.Body
			default:
				return true
			}
			// slices appended to at the top level of the body (or under the same conditions): x = append(x, one)
			var appended []types.Object
			for _, st := range body.List {
				as, ok := st.(*ast.AssignStmt)
				if !ok || len(as.Lhs) != 1 || len(as.Rhs) != 1 {
					continue
				}
				ce, ok := ast.Unparen(as.Rhs[0]).(*ast.CallExpr)
				if !ok || len(ce.Args) != 2 {
					continue
				}
				if id, isId := ast.Unparen(ce.Fun).(*ast.Ident); !isId || id.Name != "append" {
					continue
				}
				o := identObj(info, as.Lhs[0])
				if o != nil && identObj(info, ce.Args[0]) == o && o.Pos() < nn.Pos() {
					appended = append(appended, o)
				}
			}
			if len(appended) < 2 {
				return true
			}
			// handed to one call together
			for i := 0; i < len(appended); i++ {
				for j := i + 1; j < len(appended); j++ {
					a, b := appended[i], appended[j]
					var together *ast.CallExpr
					ast.Inspect(d.Body, func(m ast.Node) bool {
						ce, ok := m.(*ast.CallExpr)
						if !ok || ce.Pos() < nn.End() {
							return true
						}
						ha, hb := false, false
						for _, arg := range ce.Args {
							if identObj(info, arg) == a {
								ha = true
							}
							if identObj(info, arg) == b {
								hb = true
							}
						}
						if ha && hb && together == nil {
							together = ce
						}
						return true
					})
					if together == nil {
						continue
					}
					n++
					key := fmt.Sprintf("%s/%s+%s", c.FuncName(d), a.Name(), b.Name())
					bad := ""
					var at token.Pos = together.Pos()
					ast.Inspect(d.Body, func(m ast.Node) bool {
						ce, ok := m.(*ast.CallExpr)
						if !ok || ce.Pos() < nn.End() || ce.Pos() > together.Pos() || len(ce.Args) == 0 {
							return true
						}
						f := core.Callee(info, ce)
						if f == nil || f.Pkg() == nil {
							return true
						}
						reorders := (f.Pkg().Path() == "sort" && (strings.HasPrefix(f.Name(), "S") || f.Name() == "Stable")) ||
							(f.Pkg().Path() == "slices" && (strings.HasPrefix(f.Name(), "Sort") || f.Name() == "Reverse" || f.Name() == "Compact" || strings.HasPrefix(f.Name(), "Delete")))
						if !reorders {
							return true
						}
						o := identObj(info, ce.Args[0])
						if o == a || o == b {
							bad = fmt.Sprintf("%s.%s(%s) reorders one of the two lists", f.Pkg().Name(), f.Name(), o.Name())
							at = ce.Pos()
						}
						return true
					})
					c.Check(bad == "", rule, key, at, "the two lists reach the call in the order the loop built them",
						bad+" that the loop filled position by position and that are handed to "+types.ExprString(together.Fun)+" together: element i of one no longer belongs to element i of the other")
				}
			}
			return true
		})
	}
	if n == 0 {
		c.Undecided(rule, "anchor/parallel slices", 0, "no pair of slices filled in lockstep and passed to one call found")
	}
}

// N1c: diagnostics carry no wall-clock time. Every zerolog.ConsoleWriter the module configures excludes the timestamp
// part (PartsExclude contains "time" — zerolog's TimestampFieldName): otherwise every ERR/WRN line starts with the
// local time and the output of two runs on the same input differs.
func ruleConsoleWriterWithoutTime(c *core.Ctx) {
	const rule = "N1c"
	c.Rule(rule, "every zerolog.ConsoleWriter literal of the module lists the timestamp field (\"time\" / zerolog.TimestampFieldName) in PartsExclude", 1)
	n := 0
	for _, d := range c.AllDecls() {
		p := c.DeclPkg(d)
		if p == nil || d.Body == nil || c.IsTestFile(d.Pos()) || !strings.HasPrefix(p.PkgPath, core.Mod) {
			continue
		}
		info := p.TypesInfo
		ast.Inspect(d.Body, func(nn ast.Node) bool {
			cl, ok := nn.(*ast.CompositeLit)
			if !ok {
				return true
			}
			nt := core.NamedOf(info.TypeOf(cl))
			if nt == nil || nt.Obj().Name() != "ConsoleWriter" || nt.Obj().Pkg() == nil || !strings.HasSuffix(nt.Obj().Pkg().Path(), "rs/zerolog") {
				return true
			}
			n++
			key := c.FuncName(d) + "/ConsoleWriter"
			excluded := false
			noTime := false
			for _, e := range cl.Elts {
				kv, ok := e.(*ast.KeyValueExpr)
				if !ok {
					continue
				}
				kid, _ := kv.Key.(*ast.Ident)
				if kid == nil {
					continue
				}
				if kid.Name == "NoColor" || kid.Name == "Out" {
					continue
				}
				if kid.Name == "PartsExclude" {
					ast.Inspect(kv.Value, func(m ast.Node) bool {
						ex, ok := m.(ast.Expr)
						if !ok {
							return true
						}
						if tv, ok := info.Types[ex]; ok && tv.Value != nil && tv.Value.Kind() == constant.String && constant.StringVal(tv.Value) == "time" {
							excluded = true
						}
						if se, ok := ex.(*ast.SelectorExpr); ok && se.Sel.Name == "TimestampFieldName" {
							excluded = true
						}
						return true
					})
				}
				if kid.Name == "PartsOrder" {
					// an explicit order without the timestamp part also prints no time
					hasTime := false
					ast.Inspect(kv.Value, func(m ast.Node) bool {
						if ex, ok := m.(ast.Expr); ok {
							if tv, ok := info.Types[ex]; ok && tv.Value != nil && tv.Value.Kind() == constant.String && constant.StringVal(tv.Value) == "time" {
								hasTime = true
							}
							if se, ok := ex.(*ast.SelectorExpr); ok && se.Sel.Name == "TimestampFieldName" {
								hasTime = true
							}
						}
						return true
					})
					noTime = !hasTime
				}
			}
			c.Check(excluded || noTime, rule, key, cl.Pos(), "the timestamp part is excluded",
				"the console writer does not exclude the timestamp part: every diagnostic line is prefixed with the local wall-clock time, so two runs on the same package print different text")
			return true
		})
	}
	if n == 0 {
		c.Undecided(rule, "anchor/zerolog.ConsoleWriter", 0, "no ConsoleWriter literal found in the module")
	}
}

// B5 (C17): how much is left is read off the block counter. The emitted binary batch reader
// Read…Impl(std::vector<T>& values) ends with `return current_block_remaining_ != 0;`: ReadBlocksIntoVector leaves the
// counter at zero exactly when it has consumed the end-of-stream marker (rule SR4), and that — not how full the vector
// got — tells the caller whether another batch follows. A capacity-based answer is wrong whenever the last item lands
// on a full batch.
func ruleBatchReadReportsCounter(c *core.Ctx) {
	const rule = "B5"
	c.Rule(rule, "cpp/binary: the emitted batch reader of a stream step (…Impl(std::vector<T>& values)) returns a comparison of current_block_remaining_ with 0", 1)
	rows, d := flatRows(c, "internal/cpp/binary", "writeProtocolMethods")
	if d == nil {
		c.Undecided(rule, "anchor/cpp/binary.writeProtocolMethods", 0, "anchor not found")
		return
	}
	norm := func(t string) string {
		if i := strings.Index(t, "//"); i >= 0 {
			t = t[:i]
		}
		return strings.Join(strings.Fields(t), "")
	}
	n := 0
	// the emitted methods: from one function header to the next, helpers included
	var emits []gee.Row
	for _, r := range rows {
		if r.Kind == "emit" {
			emits = append(emits, r)
		}
	}
	var groups [][]gee.Row
	start := -1
	isHeader := func(t string) bool {
		t = strings.TrimSpace(t)
		return methodHeaderRe.MatchString(t) && strings.Contains(t, "::") && !strings.HasPrefix(t, "if") && !strings.HasPrefix(t, "for") && !strings.HasPrefix(t, "while") && !strings.HasPrefix(t, "switch")
	}
	for i, r := range emits {
		if isHeader(r.Tmpl) {
			if start >= 0 {
				groups = append(groups, emits[start:i])
			}
			start = i
		}
	}
	if start >= 0 {
		groups = append(groups, emits[start:])
	}
	for _, m := range groups {
		hdr := m[0]
		if !strings.Contains(hdr.Tmpl, "std::vector<%s>& values)") || !strings.Contains(hdr.Tmpl, "{") {
			continue
		}
		isImpl := false
		for _, a := range hdr.Args {
			if strings.Contains(a, "ProtocolReadImplMethodName(") {
				isImpl = true
			}
		}
		if !isImpl {
			continue
		}
		n++
		var rets []gee.Row
		for _, r := range m[1:] {
			if strings.HasPrefix(norm(r.Tmpl), "return") {
				// rows of helpers that cannot run in the batch (plural) context: their guards are false under it
				if sat, _ := guardSat(mapStrings(r.Guards, stripDsl), map[string]string{"isPlural": "true", "true": "true", "false": "false", "write": "false"}); !sat {
					continue
				}
				rets = append(rets, r)
			}
		}
		key := "writeProtocolMethods/batch reader/return"
		if n > 1 {
			key += "#" + itoa(n)
		}
		if len(rets) == 0 {
			c.Bad(rule, key, hdr.Pos, "the emitted batch reader has no return statement: callers cannot tell whether the stream has ended")
			continue
		}
		good := true
		var at = rets[0].Pos
		for _, r := range rets {
			t := norm(r.Tmpl)
			switch t {
			case "returncurrent_block_remaining_!=0;", "return0!=current_block_remaining_;", "returncurrent_block_remaining_>0;", "return0<current_block_remaining_;", "return!(current_block_remaining_==0);":
			default:
				good = false
				at = r.Pos
			}
		}
		c.Check(good, rule, key, at, "returns whether the block counter is non-zero",
			"the emitted batch reader does not answer `more items?` from current_block_remaining_ (`"+strings.TrimSpace(rets[len(rets)-1].Tmpl)+"`): when the last item of the stream fills the batch exactly the terminator has been consumed but the caller is told to read on — the next step's bytes are read as a block length")
	}
	if n == 0 {
		c.Undecided(rule, "anchor/batch reader", d.Pos(), "no emitted …Impl(std::vector<T>& values) method found")
	}
}

// GR1 (C02/C17): an emitted reader fully overwrites its destination. In every `from_json(ordered_json const& j, T& value)`
// the C++ NDJSON generator emits, an emission that ACCUMULATES into `value` (`value |= …`, push_back / emplace / insert
// on it) is preceded, in the same emitted function, by one that resets it (`value = …;`, `value.clear()`). The generated
// stream readers pass the same object for every item, so without the reset item n carries what item n-1 left behind —
// the generated-code counterpart of rule SR1 for the runtime headers.
func ruleEmittedReadersOverwrite(c *core.Ctx) {
	const rule = "GR1"
	c.Rule(rule, "cpp/ndjson: in every emitted from_json(j, value) an accumulating emission into `value` is preceded by an emission that resets `value`", 1)
	accRe := regexp.MustCompile(`(^|[^A-Za-z0-9_.])value(\.[A-Za-z_]+)?\s*(\|=|\+=|&=|\.push_back\(|\.emplace\(|\.emplace_back\(|\.insert\(|\.insert_or_assign\(|\.append\()`)
	resetRe := regexp.MustCompile(`(^|[^A-Za-z0-9_.])value\s*(=[^=]|\.clear\(\)|\.resize\(|\.assign\()`)
	n := 0
	for d, rows := range pkgRows(c, "internal/cpp/ndjson") {
		var emits []gee.Row
		for _, r := range rows {
			if r.Kind == "emit" {
				emits = append(emits, r)
			}
		}
		// C++ block depth in front of every emission (relative: the function header may be printed by a helper)
		depth := make([]int, len(emits)+1)
		for i, r := range emits {
			depth[i+1] = depth[i] + strings.Count(r.Tmpl, "{") - strings.Count(r.Tmpl, "}")
		}
		// only readers: an accumulation after the last emitted `to_json(` header and not before a `from_json(` one is a writer's
		inReader := make([]bool, len(emits))
		reader := false
		sawHeader := false
		for i, r := range emits {
			t := strings.TrimSpace(r.Tmpl)
			if strings.Contains(t, "from_json(") && strings.HasSuffix(t, "{") {
				reader, sawHeader = true, true
			} else if strings.Contains(t, "to_json(") && strings.HasSuffix(t, "{") {
				reader, sawHeader = false, true
			}
			inReader[i] = reader
		}
		for k, r := range emits {
			if !accRe.MatchString(r.Tmpl) || (sawHeader && !inReader[k]) {
				continue
			}
			if !sawHeader && !strings.Contains(strings.ToLower(d.Name.Name), "converter") {
				continue
			}
			n++
			// a reset whose C++ block is still open at the accumulation: the depth never falls below the reset's in between
			good := false
			for i := k - 1; i >= 0; i-- {
				if depth[i+1] < depth[i] && depth[i+1] < 0 {
					// keep scanning: relative depths may be negative when the header is printed elsewhere
				}
				if !resetRe.MatchString(emits[i].Tmpl) {
					continue
				}
				open := true
				for j := i + 1; j <= k; j++ {
					if depth[j] < depth[i] {
						open = false
					}
				}
				if open {
					good = true
					break
				}
			}
			key := fmt.Sprintf("%s/from_json/%s", c.FuncName(d), strings.TrimSpace(strings.Split(r.Tmpl, "\n")[0]))
			c.Check(good, rule, key, r.Pos, "`value` is reset, in a block that is still open, before it is accumulated into",
				"the emitted from_json accumulates into `value` (`"+strings.TrimSpace(r.Tmpl)+"`) without resetting it first: the generated stream reader reuses one object for all items, so every item keeps the bits / elements of the items read before it")
		}
	}
	if n == 0 {
		c.Undecided(rule, "anchor/accumulating from_json", 0, "no emitted from_json that accumulates into its destination found")
	}
}

// Z1: no test that cannot hold. The shape predicates of dsl.TypeCases (IsSingle, IsOptional, IsUnion, HasNullOption) are
// boolean functions of the number of cases and of whether the first case is null; their bodies are evaluated over that
// domain (0, 1, 2, 3+ cases x first-null) to find the pairs that exclude each other. A predicate called on X where an
// excluding predicate of the same X is known to hold (enclosing `if X.Q()`, an earlier `if !X.Q() { leave }`) is always
// false: the branch behind it is dead and what it was meant to handle goes down the other one.
func ruleNoContradictoryShapeTests(c *core.Ctx) {
	const rule = "Z1"
	c.Rule(rule, "no TypeCases shape predicate is tested where a predicate of the same value that excludes it is known to hold", 1)
	dslp := c.Pkg("pkg/dsl")
	if dslp == nil {
		c.Undecided(rule, "anchor/pkg/dsl", 0, "package not loaded")
		return
	}
	// truth tables of the predicates
	type point struct {
		n         int
		firstNull bool
	}
	var domain []point
	for _, n := range []int{0, 1, 2, 3} {
		for _, fn := range []bool{false, true} {
			domain = append(domain, point{n, fn})
		}
	}
	tables := map[string][]bool{}
	for _, d := range c.AllDecls() {
		if c.DeclPkg(d) != dslp || d.Recv == nil || d.Body == nil || len(d.Body.List) != 1 {
			continue
		}
		rt := dslp.TypesInfo.TypeOf(d.Recv.List[0].Type)
		if nt := core.NamedOf(rt); nt == nil || nt.Obj().Name() != "TypeCases" {
			continue
		}
		ret, ok := d.Body.List[0].(*ast.ReturnStmt)
		if !ok || len(ret.Results) != 1 {
			continue
		}
		var ev func(e ast.Expr, pt point) (bool, bool)
		var evInt func(e ast.Expr, pt point) (int, bool)
		evInt = func(e ast.Expr, pt point) (int, bool) {
			if v, ok := constInt(dslp.TypesInfo, e); ok {
				return v, true
			}
			if _, isLen := lenArg(dslp.TypesInfo, e); isLen {
				return pt.n, true
			}
			return 0, false
		}
		ev = func(e ast.Expr, pt point) (bool, bool) {
			switch x := ast.Unparen(e).(type) {
			case *ast.UnaryExpr:
				if x.Op == token.NOT {
					v, ok := ev(x.X, pt)
					return !v, ok
				}
			case *ast.BinaryExpr:
				switch x.Op {
				case token.LAND, token.LOR:
					a, oka := ev(x.X, pt)
					if oka && ((x.Op == token.LAND && !a) || (x.Op == token.LOR && a)) {
						return a, true // short circuit: the right operand (an index into the cases) is not evaluated
					}
					b, okb := ev(x.Y, pt)
					if !oka || !okb {
						return false, false
					}
					if x.Op == token.LAND {
						return a && b, true
					}
					return a || b, true
				case token.EQL, token.NEQ, token.LSS, token.LEQ, token.GTR, token.GEQ:
					l, okl := evInt(x.X, pt)
					r, okr := evInt(x.Y, pt)
					if !okl || !okr {
						return false, false
					}
					switch x.Op {
					case token.EQL:
						return l == r, true
					case token.NEQ:
						return l != r, true
					case token.LSS:
						return l < r, true
					case token.LEQ:
						return l <= r, true
					case token.GTR:
						return l > r, true
					case token.GEQ:
						return l >= r, true
					}
				}
			case *ast.CallExpr:
				// (*tcs)[0].IsNullType() / tcs[0].Type == nil
				if se, ok := ast.Unparen(x.Fun).(*ast.SelectorExpr); ok && se.Sel.Name == "IsNullType" {
					if ix, ok := ast.Unparen(se.X).(*ast.IndexExpr); ok {
						if v, ok := constInt(dslp.TypesInfo, ix.Index); ok && v == 0 {
							if pt.n == 0 {
								return false, false
							}
							return pt.firstNull, true
						}
					}
				}
			}
			return false, false
		}
		var tbl []bool
		good := true
		for _, pt := range domain {
			v, ok := ev(ret.Results[0], pt)
			if !ok {
				good = false
				break
			}
			tbl = append(tbl, v)
		}
		if good {
			tables[d.Name.Name] = tbl
		}
	}
	if len(tables) < 3 {
		c.Undecided(rule, "anchor/TypeCases predicates", 0, fmt.Sprintf("only %d shape predicates of dsl.TypeCases could be evaluated", len(tables)))
		return
	}
	excludes := func(p, q string) bool {
		a, b := tables[p], tables[q]
		if a == nil || b == nil || p == q {
			return false
		}
		for i := range a {
			if a[i] && b[i] {
				return false
			}
		}
		return true
	}
	predCall := func(info *types.Info, e ast.Expr) (string, string, bool) {
		ce, ok := ast.Unparen(e).(*ast.CallExpr)
		if !ok || len(ce.Args) != 0 {
			return "", "", false
		}
		se, ok := ast.Unparen(ce.Fun).(*ast.SelectorExpr)
		if !ok || tables[se.Sel.Name] == nil {
			return "", "", false
		}
		f := core.Callee(info, ce)
		if f == nil || f.Pkg() != dslp.Types {
			return "", "", false
		}
		return types.ExprString(se.X), se.Sel.Name, true
	}
	n := 0
	for _, d := range c.AllDecls() {
		p := c.DeclPkg(d)
		if p == nil || d.Body == nil || c.IsTestFile(d.Pos()) || !strings.HasPrefix(p.PkgPath, core.Mod) {
			continue
		}
		info := p.TypesInfo
		// known-true predicate calls by lexical context
		var walk func(n ast.Node, known map[string][]string)
		checkExpr := func(e ast.Expr, known map[string][]string) {
			ast.Inspect(e, func(m ast.Node) bool {
				ex, ok := m.(ast.Expr)
				if !ok {
					return true
				}
				if recv, pred, ok := predCall(info, ex); ok {
					n++
					for _, q := range known[recv] {
						if excludes(pred, q) {
							c.Bad(rule, fmt.Sprintf("%s/%s.%s() under %s()", c.FuncName(d), recv, pred, q), ex.Pos(),
								fmt.Sprintf("`%s.%s()` is tested where `%s.%s()` is known to hold; the two never hold together (evaluated from their definitions), so this test is always false and its branch is dead", recv, pred, recv, q))
						}
					}
				}
				return true
			})
		}
		add := func(known map[string][]string, cond ast.Expr) map[string][]string {
			out := map[string][]string{}
			for k, v := range known {
				out[k] = append([]string(nil), v...)
			}
			for _, part := range conjuncts(cond) {
				if recv, pred, ok := predCall(info, part); ok {
					out[recv] = append(out[recv], pred)
				}
			}
			return out
		}
		walk = func(nn ast.Node, known map[string][]string) {
			switch x := nn.(type) {
			case *ast.BlockStmt:
				cur := known
				for _, st := range x.List {
					walk(st, cur)
					// `if !X.Q() { leave }`: X.Q() holds afterwards
					if is, ok := st.(*ast.IfStmt); ok && is.Else == nil && len(is.Body.List) > 0 && stmtLeaves(is.Body.List[len(is.Body.List)-1]) {
						if u, ok := ast.Unparen(is.Cond).(*ast.UnaryExpr); ok && u.Op == token.NOT {
							cur = add(cur, u.X)
						}
					}
				}
			case *ast.IfStmt:
				if x.Init != nil {
					walk(x.Init, known)
				}
				checkExpr(x.Cond, known)
				walk(x.Body, add(known, x.Cond))
				if x.Else != nil {
					walk(x.Else, known)
				}
			case *ast.ForStmt:
				if x.Cond != nil {
					checkExpr(x.Cond, known)
				}
				walk(x.Body, known)
			case *ast.RangeStmt:
				checkExpr(x.X, known)
				walk(x.Body, known)
			case *ast.SwitchStmt:
				if x.Tag != nil {
					checkExpr(x.Tag, known)
				}
				for _, cl := range x.Body.List {
					cc := cl.(*ast.CaseClause)
					k2 := known
					for _, e := range cc.List {
						checkExpr(e, known)
						if x.Tag == nil && len(cc.List) == 1 {
							k2 = add(known, e)
						}
					}
					walk(&ast.BlockStmt{List: cc.Body}, k2)
				}
			case *ast.TypeSwitchStmt:
				for _, cl := range x.Body.List {
					walk(&ast.BlockStmt{List: cl.(*ast.CaseClause).Body}, known)
				}
			case *ast.ExprStmt:
				checkExprWithLits(x.X, known, checkExpr, walk)
			case *ast.AssignStmt:
				for _, r := range x.Rhs {
					checkExprWithLits(r, known, checkExpr, walk)
				}
			case *ast.ReturnStmt:
				for _, r := range x.Results {
					checkExprWithLits(r, known, checkExpr, walk)
				}
			case *ast.DeclStmt, *ast.IncDecStmt, *ast.BranchStmt, *ast.DeferStmt, *ast.GoStmt:
			case *ast.LabeledStmt:
				walk(x.Stmt, known)
			}
		}
		walk(d.Body, map[string][]string{})
	}
	if n < 10 {
		c.Undecided(rule, "anchor/predicate calls", 0, fmt.Sprintf("only %d calls of TypeCases shape predicates seen", n))
		return
	}
	c.OK(rule, "anchor/predicate calls", 0, fmt.Sprintf("%d calls of %d evaluated shape predicates checked against their context", n, len(tables)))
	c.Tables["Z1_predicate_tables"] = tables
}

// checkExprWithLits checks an expression and walks into the bodies of function literals inside it with the same context
// (closures handed to visitors run under the conditions they are written under only lexically; that is what is asked).
func checkExprWithLits(e ast.Expr, known map[string][]string, checkExpr func(ast.Expr, map[string][]string), walk func(ast.Node, map[string][]string)) {
	hasLit := false
	ast.Inspect(e, func(m ast.Node) bool {
		if fl, ok := m.(*ast.FuncLit); ok {
			hasLit = true
			walk(fl.Body, known)
			return false
		}
		return true
	})
	if !hasLit {
		checkExpr(e, known)
		return
	}
	// the parts outside the literals
	ast.Inspect(e, func(m ast.Node) bool {
		if _, ok := m.(*ast.FuncLit); ok {
			return false
		}
		if ce, ok := m.(*ast.CallExpr); ok {
			for _, a := range ce.Args {
				if _, isLit := ast.Unparen(a).(*ast.FuncLit); !isLit {
					checkExpr(a, known)
				}
			}
		}
		return true
	})
}

// UI1 (C03/C14): union case numbers do not count the null case. The wire index / variant index of a union case is its
// position among the NON-null cases (the runtimes add the null offset themselves). A loop over the cases that skips
// the null case (`if tc.Type == nil { continue }`) therefore numbers the cases with a counter of its own; the range
// position, which counts the skipped null case, is one too high for `[null, A, B]`.
func ruleUnionIndexSkipsNull(c *core.Ctx) {
	const rule = "UI1"
	c.Rule(rule, "in every loop over dsl.TypeCases that skips the null case with `continue`, the range position is not used (case numbers come from a counter of the non-null cases)", 3)
	n := 0
	for _, d := range c.AllDecls() {
		p := c.DeclPkg(d)
		if p == nil || d.Body == nil || c.IsTestFile(d.Pos()) || !strings.HasPrefix(p.PkgPath, core.Mod) {
			continue
		}
		info := p.TypesInfo
		ast.Inspect(d.Body, func(nn ast.Node) bool {
			rs, ok := nn.(*ast.RangeStmt)
			if !ok || rs.Value == nil {
				return true
			}
			nt := core.NamedOf(info.TypeOf(rs.X))
			if nt == nil || nt.Obj().Name() != "TypeCases" {
				return true
			}
			val := identObj(info, rs.Value)
			if val == nil {
				return true
			}
			// a top-level `if <val>.Type == nil { continue }` (or IsNullType())
			var skip *ast.IfStmt
			for _, st := range rs.Body.List {
				is, ok := st.(*ast.IfStmt)
				if !ok || is.Else != nil || len(is.Body.List) != 1 {
					continue
				}
				br, ok := is.Body.List[0].(*ast.BranchStmt)
				if !ok || br.Tok != token.CONTINUE {
					continue
				}
				nullTest := false
				switch x := ast.Unparen(is.Cond).(type) {
				case *ast.BinaryExpr:
					if x.Op == token.EQL {
						for _, side := range [][2]ast.Expr{{x.X, x.Y}, {x.Y, x.X}} {
							if se, ok := ast.Unparen(side[0]).(*ast.SelectorExpr); ok && se.Sel.Name == "Type" && identObj(info, se.X) == val {
								if tv, ok := info.Types[side[1]]; ok && tv.IsNil() {
									nullTest = true
								}
							}
						}
					}
				case *ast.CallExpr:
					if se, ok := ast.Unparen(x.Fun).(*ast.SelectorExpr); ok && se.Sel.Name == "IsNullType" && identObj(info, se.X) == val {
						nullTest = true
					}
				}
				if nullTest {
					skip = is
				}
			}
			if skip == nil {
				return true
			}
			n++
			key := fmt.Sprintf("%s/range %s", c.FuncName(d), types.ExprString(rs.X))
			var use *ast.Ident
			if kobj := identObj(info, rs.Key); kobj != nil {
				ast.Inspect(rs.Body, func(m ast.Node) bool {
					if id, ok := m.(*ast.Ident); ok && info.Uses[id] == kobj && use == nil {
						use = id
					}
					return true
				})
			}
			if use == nil {
				c.OK(rule, key, rs.Pos(), "the range position is not used; the cases are numbered by a separate counter (or not at all)")
			} else {
				c.Bad(rule, key, use.Pos(), "the loop skips the null case but uses the range position `"+use.Name+"`: for `[null, A, B]` the position of A is 1 where its case number is 0 — every value of a nullable union is written with the next case's number (or an index past the end)")
			}
			return true
		})
	}
	if n == 0 {
		c.Undecided(rule, "anchor/loops over TypeCases skipping null", 0, "none found")
	}
}

// AR1 (C08): an array has dimensions or none at all, never an empty list of them. `dimensions: 0` / `dimensions: []`
// parse into a non-nil empty ArrayDimensions; IsFixed() is vacuously true for it, so the generators print a fixed array
// with no extents (`yardl::FixedNDArray<float, >`, `FixedNDArraySerializer(..., (,))`): code that does not compile.
// Some validation pass therefore reports an error exactly in the state "Dimensions != nil and empty".
func ruleEmptyDimensionListRejected(c *core.Ctx) {
	const rule = "AR1"
	c.Rule(rule, "pkg/dsl validation: a pass reports an error for an *Array whose Dimensions is non-nil and empty (evaluated: the guards of some validationError call hold under that state and depend on nothing else)", 1)
	p := c.Pkg("pkg/dsl")
	if p == nil {
		c.Undecided(rule, "anchor/pkg/dsl", 0, "package not loaded")
		return
	}
	tn, _ := p.Types.Scope().Lookup("ValidationPass").(*types.TypeName)
	if tn == nil {
		c.Undecided(rule, "anchor/ValidationPass", 0, "type not found")
		return
	}
	asg := map[string]string{
		"Node": "Array", "Array.Dimensions != nil": "true", "Array.Dimensions == nil": "false",
		"len(Array.Dimensions) > 0": "false", "len(Array.Dimensions) == 0": "true", "len(Array.Dimensions) != 0": "false",
		"len(Array.Dimensions) >= 1": "false", "len(Array.Dimensions) < 1": "true",
		"Array.HasKnownNumberOfDimensions()": "true",
	}
	var hit *gee.Row
	hitFn := ""
	nArrayRows := 0
	for _, d := range c.AllDecls() {
		if c.DeclPkg(d) != p || d.Body == nil {
			continue
		}
		f, _ := p.TypesInfo.Defs[d.Name].(*types.Func)
		if f == nil || d.Recv != nil || !types.Identical(f.Type(), tn.Type().Underlying()) {
			continue
		}
		x := &gee.Extractor{Info: p.TypesInfo, Fset: c.Fset, Decl: func(g *types.Func) *ast.FuncDecl {
			if g == nil || g.Pkg() != p.Types {
				return nil
			}
			return c.Decl(g)
		}}
		rows := x.Extract(d.Name.Name, d)
		for i := range rows {
			r := &rows[i]
			if r.Kind != "call" || (r.Tmpl != "validationError" && !strings.HasSuffix(r.Tmpl, ".Add")) {
				continue
			}
			mentions := false
			for _, g := range r.Guards {
				if strings.Contains(g, "Array") {
					mentions = true
				}
			}
			if !mentions {
				continue
			}
			nArrayRows++
			gs := mapStrings(r.Guards, func(g string) string {
				g = stripDsl(g)
				return strings.ReplaceAll(g, "type(Node)∈{Array}", "type(Node)∈{Array}")
			})
			a2 := map[string]string{}
			for k, v := range asg {
				a2[k] = v
			}
			a2["type(Node)"] = "Array"
			if sat, unknown := guardSat(gs, a2); sat && len(unknown) == 0 {
				hit, hitFn = r, d.Name.Name
			}
		}
	}
	// second engine: every place of a validation pass that handles a *Array — a type-switch case, the body of an
	// `if a, ok := node.(*Array); ok` — evaluated for the abstract array "Dimensions present and empty", helpers followed
	for _, d := range c.AllDecls() {
		if c.DeclPkg(d) != p || d.Body == nil || hit != nil {
			continue
		}
		f, _ := p.TypesInfo.Defs[d.Name].(*types.Func)
		if f == nil || d.Recv != nil || !types.Identical(f.Type(), tn.Type().Underlying()) {
			continue
		}
		ast.Inspect(d.Body, func(nn ast.Node) bool {
			if hit != nil {
				return false
			}
			var body []ast.Stmt
			var obj types.Object
			switch x := nn.(type) {
			case *ast.TypeSwitchStmt:
				for _, cl := range x.Body.List {
					cc := cl.(*ast.CaseClause)
					if len(cc.List) == 1 && types.ExprString(cc.List[0]) == "*Array" {
						body, obj = cc.Body, p.TypesInfo.Implicits[cc]
					}
				}
			case *ast.IfStmt:
				if as, ok := x.Init.(*ast.AssignStmt); ok && len(as.Lhs) == 2 && len(as.Rhs) == 1 {
					if ta, ok := ast.Unparen(as.Rhs[0]).(*ast.TypeAssertExpr); ok && ta.Type != nil && types.ExprString(ta.Type) == "*Array" && identObj(p.TypesInfo, x.Cond) == identObj(p.TypesInfo, as.Lhs[1]) {
						body, obj = x.Body.List, identObj(p.TypesInfo, as.Lhs[0])
					}
				}
			}
			if body == nil {
				return true
			}
			nArrayRows++
			if decided, reported := emptyDimensionsRejected(c, p.TypesInfo, body, obj); decided && reported {
				hit = &gee.Row{Pos: body[0].Pos(), Args: []string{"(finite-domain evaluation of the *Array handler)"}}
				hitFn = d.Name.Name
			}
			return true
		})
	}
	if nArrayRows == 0 {
		c.Undecided(rule, "anchor/array validation", 0, "no error report about *Array found in the validation passes")
		return
	}
	if hit != nil {
		c.OK(rule, "Array/empty dimension list", hit.Pos, "reported by "+hitFn+": "+strings.Join(hit.Args, " "))
	} else {
		c.Bad(rule, "Array/empty dimension list", 0, "no validation pass reports an error for an array whose `dimensions` is present but empty (`dimensions: 0`, `dimensions: []`): it is accepted as a fixed array with no extents and the C++ and Python generators print code that does not compile")
	}
}

// Q3b (C13): `T[]` is an array with an UNKNOWN number of dimensions, exactly like `!array {items: T}` without a
// `dimensions` key: Array.Dimensions stays nil. In dsl.applyTypeTail (the shorthand constructor) every value stored into
// Array.Dimensions — by assignment or in a composite literal — is stored under a test that the parsed dimension list
// is not empty.
func ruleShorthandArrayWithoutDimensions(c *core.Ctx) {
	const rule = "Q3b"
	c.Rule(rule, "dsl.applyTypeTail: Array.Dimensions is set only under `len(<parsed dimensions>) > 0` (an empty `[]` leaves it nil, as the expanded form without `dimensions` does)", 1)
	_, d, p := c.Func("pkg/dsl", "applyTypeTail")
	if d == nil {
		c.Undecided(rule, "anchor/pkg/dsl.applyTypeTail", 0, "anchor not found")
		return
	}
	info := p.TypesInfo
	parent := map[ast.Node]ast.Node{}
	var stack []ast.Node
	ast.Inspect(d.Body, func(n ast.Node) bool {
		if n == nil {
			stack = stack[:len(stack)-1]
			return true
		}
		if len(stack) > 0 {
			parent[n] = stack[len(stack)-1]
		}
		stack = append(stack, n)
		return true
	})
	nonEmptyGuard := func(n ast.Node) bool {
		child := n
		for cur := parent[n]; cur != nil; child, cur = cur, parent[cur] {
			is, ok := cur.(*ast.IfStmt)
			if !ok || child != ast.Node(is.Body) {
				continue
			}
			for _, part := range conjuncts(is.Cond) {
				cond := ast.Unparen(part)
				if id, isId := cond.(*ast.Ident); isId {
					cond = ast.Unparen(singleDefRHS(info, d.Body, id))
				}
				be, ok := cond.(*ast.BinaryExpr)
				if !ok {
					continue
				}
				l, r, op := be.X, be.Y, be.Op
				if _, isLen := lenArg(info, r); isLen {
					l, r, op = r, l, flipOp(op)
				}
				if _, isLen := lenArg(info, l); !isLen {
					if id, isId := ast.Unparen(l).(*ast.Ident); isId {
						if _, isLen2 := lenArg(info, singleDefRHS(info, d.Body, id)); !isLen2 {
							continue
						}
					} else {
						continue
					}
				}
				if v, ok := constInt(info, r); ok && ((op == token.GTR && v == 0) || (op == token.NEQ && v == 0) || (op == token.GEQ && v == 1)) {
					return true
				}
			}
		}
		return false
	}
	isArrayDims := func(sel *ast.SelectorExpr) bool {
		if sel.Sel.Name != "Dimensions" {
			return false
		}
		nt := core.NamedOf(info.TypeOf(sel.X))
		return nt != nil && nt.Obj().Name() == "Array"
	}
	n := 0
	ast.Inspect(d.Body, func(nn ast.Node) bool {
		switch x := nn.(type) {
		case *ast.AssignStmt:
			for i, l := range x.Lhs {
				if se, ok := ast.Unparen(l).(*ast.SelectorExpr); ok && isArrayDims(se) && i < len(x.Rhs) {
					if tv, ok := info.Types[x.Rhs[i]]; ok && tv.IsNil() {
						continue
					}
					n++
					c.Check(nonEmptyGuard(x), rule, fmt.Sprintf("applyTypeTail/Dimensions store#%d", n), x.Pos(), "stored only when the parsed list is not empty",
						"applyTypeTail stores a dimension list into Array.Dimensions without testing that it is non-empty: `T[]` becomes an array with an empty list of dimensions (rejected / generated as a fixed array with no extents) while `!array {items: T}` is an array of unknown rank")
				}
			}
		case *ast.CompositeLit:
			if nt := core.NamedOf(info.TypeOf(x)); nt == nil || nt.Obj().Name() != "Array" {
				return true
			}
			for _, e := range x.Elts {
				kv, ok := e.(*ast.KeyValueExpr)
				if !ok {
					continue
				}
				if id, ok := kv.Key.(*ast.Ident); ok && id.Name == "Dimensions" {
					if tv, ok := info.Types[kv.Value]; ok && tv.IsNil() {
						continue
					}
					n++
					c.Check(nonEmptyGuard(x), rule, fmt.Sprintf("applyTypeTail/Dimensions store#%d", n), x.Pos(), "stored only when the parsed list is not empty",
						"applyTypeTail builds an Array with Dimensions set without testing that the parsed list is non-empty: `T[]` becomes an array with an empty list of dimensions while `!array {items: T}` is an array of unknown rank")
				}
			}
		}
		return true
	})
	if n == 0 {
		c.Undecided(rule, "anchor/Dimensions store", d.Pos(), "applyTypeTail never sets Array.Dimensions")
	}
}

// CN1 (C08): the context namespace is threaded through unchanged. In the generators "contextNamespace" is the namespace
// whose output file is being written; a type of another namespace is printed qualified relative to it. The string
// parameters that carry it are found by flow, starting from the parameters of that name: a parameter of a function or
// local closure that receives a context namespace at some call site is a context slot too (whatever it is called).
// A function or closure that holds a context namespace passes it — its own — to every context slot it calls: passing
// another namespace's name (the namespace the type comes from, a shadowing variable) prints / registers names relative
// to the wrong file.
func ruleContextNamespaceThreaded(c *core.Ctx) {
	const rule = "CN1"
	const seed = "contextNamespace"
	c.Rule(rule, "internal/*: a function or closure that holds the context namespace (a string parameter named contextNamespace, or one that receives such a value at a call site) passes it, unchanged, to every callee parameter that carries the context namespace", 35)
	type fn struct {
		d      *ast.FuncDecl
		info   *types.Info
		typ    *ast.FuncType
		body   *ast.BlockStmt
		parent *fn
		self   types.Object // the *types.Func, or the variable a closure is bound to
	}
	var fns []*fn
	byObj := map[types.Object]*fn{}
	for _, d := range c.AllDecls() {
		p := c.DeclPkg(d)
		if p == nil || d.Body == nil || c.IsTestFile(d.Pos()) || !strings.HasPrefix(p.PkgPath, core.Mod+"/internal/") {
			continue
		}
		info := p.TypesInfo
		top := &fn{d: d, info: info, typ: d.Type, body: d.Body, self: info.Defs[d.Name]}
		fns = append(fns, top)
		byObj[top.self] = top
		var collect func(n ast.Node, parent *fn)
		collect = func(n ast.Node, parent *fn) {
			ast.Inspect(n, func(nn ast.Node) bool {
				var lit *ast.FuncLit
				var bound types.Object
				switch x := nn.(type) {
				case *ast.AssignStmt:
					if len(x.Lhs) == 1 && len(x.Rhs) == 1 {
						if l, ok := x.Rhs[0].(*ast.FuncLit); ok {
							lit, bound = l, identObj(info, x.Lhs[0])
						}
					}
				case *ast.ValueSpec:
					if len(x.Names) == 1 && len(x.Values) == 1 {
						if l, ok := x.Values[0].(*ast.FuncLit); ok {
							lit, bound = l, info.Defs[x.Names[0]]
						}
					}
				case *ast.FuncLit:
					lit = x
				}
				if lit == nil {
					return true
				}
				f := &fn{d: d, info: info, typ: lit.Type, body: lit.Body, parent: parent, self: bound}
				fns = append(fns, f)
				if bound != nil {
					byObj[bound] = f
				}
				collect(lit.Body, f)
				return false
			})
		}
		collect(d.Body, top)
	}
	isString := func(t types.Type) bool {
		b, ok := t.Underlying().(*types.Basic)
		return ok && b.Kind() == types.String
	}
	params := func(f *fn) []types.Object {
		var out []types.Object
		if f.typ.Params != nil {
			for _, fl := range f.typ.Params.List {
				if len(fl.Names) == 0 {
					out = append(out, nil)
				}
				for _, n := range fl.Names {
					out = append(out, f.info.Defs[n])
				}
			}
		}
		return out
	}
	ctx := map[types.Object]bool{} // parameter objects that carry the context namespace
	for _, f := range fns {
		for _, o := range params(f) {
			if o != nil && o.Name() == seed && isString(o.Type()) {
				ctx[o] = true
			}
		}
	}
	// the context value a function holds: its own context parameter, else the enclosing function's
	held := func(f *fn) types.Object {
		for g := f; g != nil; g = g.parent {
			for _, o := range params(g) {
				if o != nil && ctx[o] {
					return o
				}
			}
		}
		return nil
	}
	calleeOf := func(f *fn, call *ast.CallExpr) *fn {
		if o := typeutil.Callee(f.info, call); o != nil {
			return byObj[o]
		}
		return byObj[identObj(f.info, call.Fun)]
	}
	ownCalls := func(f *fn, visit func(*ast.CallExpr)) {
		ast.Inspect(f.body, func(nn ast.Node) bool {
			if _, ok := nn.(*ast.FuncLit); ok {
				return false
			}
			if call, ok := nn.(*ast.CallExpr); ok {
				visit(call)
			}
			return true
		})
	}
	// the argument's object, explaining locals (`cn := contextNamespace`) resolved
	argObj := func(f *fn, a ast.Expr) types.Object {
		for i := 0; i < 3; i++ {
			id, ok := ast.Unparen(a).(*ast.Ident)
			if !ok {
				return nil
			}
			r := singleDefRHS(f.info, f.d.Body, id)
			if r == ast.Expr(id) {
				return f.info.ObjectOf(id)
			}
			a = r
		}
		return nil
	}
	for changed := true; changed; {
		changed = false
		for _, f := range fns {
			h := held(f)
			if h == nil {
				continue
			}
			ownCalls(f, func(call *ast.CallExpr) {
				g := calleeOf(f, call)
				if g == nil || call.Ellipsis.IsValid() {
					return
				}
				ps := params(g)
				for i, a := range call.Args {
					// inference stops at package boundaries: the exported string helpers of formatting/common take any string
					if i < len(ps) && ps[i] != nil && !ctx[ps[i]] && isString(ps[i].Type()) && argObj(f, a) == h && c.DeclPkg(g.d) == c.DeclPkg(f.d) {
						ctx[ps[i]] = true
						changed = true
					}
				}
			})
		}
	}
	for _, f := range fns {
		h := held(f)
		if h == nil {
			continue
		}
		seen := map[string]int{}
		ownCalls(f, func(call *ast.CallExpr) {
			g := calleeOf(f, call)
			if g == nil || call.Ellipsis.IsValid() {
				return
			}
			ps := params(g)
			for i, a := range call.Args {
				if i >= len(ps) || ps[i] == nil || !ctx[ps[i]] {
					continue
				}
				callee := types.ExprString(call.Fun)
				seen[callee]++
				key := fmt.Sprintf("%s/%s#%d", c.FuncName(f.d), callee, seen[callee])
				if argObj(f, a) == h {
					c.OK(rule, key, call.Pos(), "passes the context namespace it holds to parameter `"+ps[i].Name()+"`")
				} else {
					c.Bad(rule, key, a.Pos(), fmt.Sprintf("%s receives `%s` in its context-namespace parameter `%s` although the calling function holds the context namespace `%s`: names are printed / registered relative to another namespace than the one being written", callee, types.ExprString(a), ps[i].Name(), h.Name()))
				}
			}
		})
	}
}

// LC1 (C08): an emitted C++ lambda that prints model expressions captures. Computed fields become member functions
// of the generated struct; a sub-expression printed inside a lambda (the case expression of a `!switch`) may name
// another field or computed field of the record, i.e. `this->x`. A lambda introduced with an empty capture list `[]`
// cannot do that ("'this' was not captured"): the generated header does not compile. The body of every lambda the
// C++ generators print — from the emission that opens it to the emission that brings the brace depth of the emitted
// text back — therefore contains no visit of a model expression (a call with a dsl visitor as receiver or argument)
// unless the capture list is not empty.
func ruleEmittedLambdasCapture(c *core.Ctx) {
	const rule = "LC1"
	c.Rule(rule, "cpp generators: inside the emitted body of a C++ lambda with an empty capture list no model expression is printed (no call with a dsl visitor as receiver or argument between the opening emission and the one that closes its braces)", 5)
	lambdaRe := regexp.MustCompile(`\[\s*([^\]\[]*?)\s*\]\s*\(`)
	type event struct {
		tmpl  string // emission
		visit bool
		pos   token.Pos
		what  string
	}
	for _, d := range c.AllDecls() {
		p := c.DeclPkg(d)
		if p == nil || d.Body == nil || c.IsTestFile(d.Pos()) || !strings.HasPrefix(p.PkgPath, core.Mod+"/internal/cpp/") {
			continue
		}
		info := p.TypesInfo
		isVisitor := func(t types.Type) bool {
			if t == nil {
				return false
			}
			if pt, ok := t.(*types.Pointer); ok {
				t = pt.Elem()
			}
			nt := core.NamedOf(t)
			return nt != nil && nt.Obj().Pkg() != nil && strings.HasSuffix(nt.Obj().Pkg().Path(), "pkg/dsl") && strings.HasPrefix(nt.Obj().Name(), "Visitor")
		}
		tmplOf := func(call *ast.CallExpr) (string, bool) { return emissionTemplate(info, call) }
		var evs []event
		ast.Inspect(d.Body, func(nn ast.Node) bool {
			call, ok := nn.(*ast.CallExpr)
			if !ok {
				return true
			}
			if t, ok := tmplOf(call); ok {
				evs = append(evs, event{tmpl: t, pos: call.Pos()})
				return true
			}
			v := false
			if sel, ok := call.Fun.(*ast.SelectorExpr); ok && isVisitor(info.TypeOf(sel.X)) {
				v = true
			}
			for _, a := range call.Args {
				if _, isLit := ast.Unparen(a).(*ast.FuncLit); !isLit && isVisitor(info.TypeOf(a)) {
					v = true
				}
			}
			if v {
				evs = append(evs, event{visit: true, pos: call.Pos(), what: types.ExprString(call.Fun)})
			}
			return true
		})
		// ast.Inspect visits in source order, which is emission order for straight-line emitters; branches that
		// return are balanced (a lambda is opened and closed in the same branch)
		n := 0
		for i, e := range evs {
			if e.visit || e.tmpl == "" {
				continue
			}
			for _, m := range lambdaRe.FindAllStringSubmatchIndex(e.tmpl, -1) {
				capture := e.tmpl[m[2]:m[3]]
				rest := e.tmpl[m[1]:]
				if !strings.Contains(rest, "{") {
					continue // not a lambda introduction (an attribute, an index expression)
				}
				n++
				key := fmt.Sprintf("%s/lambda#%d", c.FuncName(d), n)
				depth := strings.Count(rest, "{") - strings.Count(rest, "}")
				var inside *event
				for j := i + 1; j < len(evs) && depth > 0 && inside == nil; j++ {
					if evs[j].visit {
						inside = &evs[j]
						continue
					}
					depth += strings.Count(evs[j].tmpl, "{") - strings.Count(evs[j].tmpl, "}")
				}
				switch {
				case capture != "":
					c.OK(rule, key, e.pos, "capture list ["+capture+"]")
				case inside == nil:
					c.OK(rule, key, e.pos, "empty capture list, and no model expression is printed inside the body")
				default:
					c.Bad(rule, key, e.pos, fmt.Sprintf("the lambda opened by %q has an empty capture list, but %s prints a model expression inside its body (%s): an expression that names a field of the record needs `this` — the generated header does not compile", strings.TrimSpace(e.tmpl), inside.what, c.PosStr(inside.pos)))
				}
			}
		}
	}
}

// emissionTemplate: is the call one of the text emitters of the generators (fmt.Fprint*, IndentedWriter.WriteString*)?
// Returns the constant template ("" when the text is not constant).
func emissionTemplate(info *types.Info, call *ast.CallExpr) (string, bool) {
	f, _ := typeutil.Callee(info, call).(*types.Func)
	if f == nil {
		return "", false
	}
	idx := -1
	switch {
	case f.Pkg() != nil && f.Pkg().Path() == "fmt" && (f.Name() == "Fprintf" || f.Name() == "Fprint" || f.Name() == "Fprintln"):
		idx = 1
	case (f.Name() == "WriteString" || f.Name() == "WriteStringln") && strings.Contains(f.FullName(), "formatting.IndentedWriter"):
		idx = 0
	}
	if idx < 0 || idx >= len(call.Args) {
		return "", false
	}
	if tv, ok := info.Types[call.Args[idx]]; ok && tv.Value != nil && tv.Value.Kind() == constant.String {
		return constant.StringVal(tv.Value), true
	}
	return "", true
}

// SW1 (C05): no emitted `case` falls through. The C++ generators print `switch` statements over the protocol version,
// the union index, the format: each emitted case label is followed, on every path the generator can take to the next
// label, by an emitted `break;`, `return` or `throw` at the nesting depth of the case. A path that prints statements
// for a case and then the next label (an `else` branch without the `break;`, a callback that may be absent) makes the
// generated reader run the next case too — for `case Version::v1:` in front of `default:` the old-version branch is
// followed by the current-version read of the same step.
func ruleEmittedCasesDoNotFallThrough(c *core.Ctx) {
	const rule = "SW1"
	c.Rule(rule, "cpp/binary, cpp/ndjson, cpp/protocols: between an emitted case label and the next emitted label, every path of the generator that emits statements for the case emits `break;` / `return` / `throw` at the depth of the case", 12)
	labelRe := regexp.MustCompile(`^\s*(case\b.*|default\s*):\s*(\{)?\s*(.*)$`)
	leaveRe := regexp.MustCompile(`(^|[;{}\s])(break\s*;|return\b|throw\b|continue\s*;)`)
	type state struct {
		open  bool // a case is open: a label was emitted and no leave statement yet
		dirty bool // statements were emitted for it
		depth int  // emitted brace depth
		dl    int  // depth right after the label
		label token.Pos
		text  string
	}
	for _, d := range c.AllDecls() {
		p := c.DeclPkg(d)
		if p == nil || d.Body == nil || c.IsTestFile(d.Pos()) || !(strings.HasSuffix(p.PkgPath, "/internal/cpp/binary") || strings.HasSuffix(p.PkgPath, "/internal/cpp/ndjson") || strings.HasSuffix(p.PkgPath, "/internal/cpp/protocols")) {
			// the serialization back ends and the protocol classes; HDF5 (a deliberate `case -1:` fall-through), mocks and the test translator are not part of any claim
			continue
		}
		info := p.TypesInfo
		isWriter := func(e ast.Expr) bool {
			t := info.TypeOf(e)
			if t == nil {
				return false
			}
			if pt, ok := t.(*types.Pointer); ok {
				t = pt.Elem()
			}
			nt := core.NamedOf(t)
			return nt != nil && nt.Obj().Name() == "IndentedWriter"
		}
		n := 0
		reported := map[token.Pos]bool{}
		labels := map[token.Pos]string{}
		join := func(a, b state) state {
			if !a.open {
				a, b = b, a
			}
			// a open (or both closed): the open one wins; dirty if either open one is dirty
			if a.open && b.open {
				a.dirty = a.dirty || b.dirty
			}
			return a
		}
		var emit func(st state, tmpl string, pos token.Pos) state
		emit = func(st state, tmpl string, pos token.Pos) state {
			for _, line := range strings.Split(tmpl, "\n") {
				if strings.TrimSpace(line) == "" {
					continue
				}
				if m := labelRe.FindStringSubmatch(line); m != nil && !strings.Contains(m[1], "?") {
					if st.open && st.dirty && !reported[st.label] {
						reported[st.label] = true
					}
					if _, ok := labels[pos]; !ok {
						labels[pos] = strings.TrimSpace(line)
					}
					st.depth += strings.Count(line, "{") - strings.Count(line, "}")
					st.open, st.dirty, st.dl, st.label, st.text = true, false, st.depth, pos, strings.TrimSpace(line)
					if rest := m[3]; strings.TrimSpace(rest) != "" {
						st.dirty = true
						if leaveRe.MatchString(rest) && strings.Count(rest, "{") == strings.Count(rest, "}") {
							st.open = false
						}
					}
					continue
				}
				before := st.depth
				st.depth += strings.Count(line, "{") - strings.Count(line, "}")
				if !st.open {
					continue
				}
				if st.depth < st.dl-1 || (st.depth < st.dl && strings.TrimSpace(line) != "}") {
					st.open = false // the switch itself was closed
					continue
				}
				if strings.TrimSpace(line) != "}" {
					st.dirty = true
				}
				if leaveRe.MatchString(line) && before <= st.dl && st.depth <= st.dl {
					st.open = false
				}
			}
			return st
		}
		var walkStmts func(list []ast.Stmt, st state) state
		var walkExpr func(e ast.Node, st state) state
		walkExpr = func(e ast.Node, st state) state {
			if e == nil {
				return st
			}
			ast.Inspect(e, func(nn ast.Node) bool {
				switch x := nn.(type) {
				case *ast.FuncLit:
					return false // a literal that is only stored; literals passed to a call run below
				case *ast.CallExpr:
					if t, ok := emissionTemplate(info, x); ok {
						if t == "" {
							if st.open {
								st.dirty = true
							}
						} else {
							st = emit(st, t, x.Pos())
						}
						return false
					}
					ran := false
					for _, a := range x.Args {
						if fl, ok := ast.Unparen(a).(*ast.FuncLit); ok {
							st = walkStmts(fl.Body.List, st)
							ran = true
						} else {
							st = walkExpr(a, st)
						}
					}
					if !ran {
						// an opaque call that receives the writer prints something
						for _, a := range x.Args {
							if isWriter(a) && st.open {
								st.dirty = true
							}
						}
					}
					return false
				}
				return true
			})
			return st
		}
		walkStmts = func(list []ast.Stmt, st state) state {
			var deferred [][]ast.Stmt
			for _, s := range list {
				switch x := s.(type) {
				case *ast.DeferStmt:
					if fl, ok := x.Call.Fun.(*ast.FuncLit); ok {
						deferred = append(deferred, fl.Body.List)
					} else {
						deferred = append(deferred, []ast.Stmt{&ast.ExprStmt{X: x.Call}}) // defer w.WriteStringln("break;")
					}
				case *ast.ReturnStmt:
					for _, r := range x.Results {
						st = walkExpr(r, st)
					}
					for i := len(deferred) - 1; i >= 0; i-- {
						st = walkStmts(deferred[i], st)
					}
					return st
				case *ast.IfStmt:
					if x.Init != nil {
						st = walkStmts([]ast.Stmt{x.Init}, st)
					}
					st = walkExpr(x.Cond, st)
					a := walkStmts(x.Body.List, st)
					b := st
					if x.Else != nil {
						b = walkStmts([]ast.Stmt{x.Else}, st)
					}
					if goReturns(x.Body.List) {
						st = b
					} else if eb, ok := x.Else.(*ast.BlockStmt); ok && goReturns(eb.List) {
						st = a
					} else {
						st = join(a, b)
					}
				case *ast.BlockStmt:
					st = walkStmts(x.List, st)
				case *ast.ForStmt:
					once := walkStmts(x.Body.List, st)
					twice := walkStmts(x.Body.List, join(st, once))
					st = join(st, join(once, twice))
				case *ast.RangeStmt:
					once := walkStmts(x.Body.List, st)
					twice := walkStmts(x.Body.List, join(st, once))
					st = join(st, join(once, twice))
				case *ast.SwitchStmt:
					out := state{}
					first := true
					hasDefault := false
					for _, cl := range x.Body.List {
						cc := cl.(*ast.CaseClause)
						if cc.List == nil {
							hasDefault = true
						}
						r := walkStmts(cc.Body, st)
						if goReturns(cc.Body) {
							continue
						}
						if first {
							out, first = r, false
						} else {
							out = join(out, r)
						}
					}
					if !hasDefault || first {
						if first {
							out = st
						} else {
							out = join(out, st)
						}
					}
					st = out
				case *ast.TypeSwitchStmt:
					out := st
					for _, cl := range x.Body.List {
						cc := cl.(*ast.CaseClause)
						r := walkStmts(cc.Body, st)
						if !goReturns(cc.Body) {
							out = join(out, r)
						}
					}
					st = out
				default:
					st = walkExpr(s, st)
				}
			}
			for i := len(deferred) - 1; i >= 0; i-- {
				st = walkStmts(deferred[i], st)
			}
			return st
		}
		walkStmts(d.Body.List, state{})
		var ps []token.Pos
		for pos := range labels {
			ps = append(ps, pos)
		}
		sort.Slice(ps, func(i, j int) bool { return ps[i] < ps[j] })
		for _, pos := range ps {
			n++
			key := fmt.Sprintf("%s/label#%d", c.FuncName(d), n)
			c.Check(!reported[pos], rule, key, pos, "every path to the next label leaves the case: "+labels[pos],
				fmt.Sprintf("after the label %q the generator can print statements and then the next case label without `break;`/`return`/`throw` in between: the generated code falls through into the next case", labels[pos]))
		}
	}
}

// goReturns: the statement list ends by leaving the Go function (return, panic).
func goReturns(list []ast.Stmt) bool {
	if len(list) == 0 {
		return false
	}
	switch x := list[len(list)-1].(type) {
	case *ast.ReturnStmt:
		return true
	case *ast.ExprStmt:
		if ce, ok := x.X.(*ast.CallExpr); ok {
			if id, ok := ce.Fun.(*ast.Ident); ok && id.Name == "panic" {
				return true
			}
		}
	case *ast.BlockStmt:
		return goReturns(x.List)
	case *ast.IfStmt:
		if eb, ok := x.Else.(*ast.BlockStmt); ok {
			return goReturns(x.Body.List) && goReturns(eb.List)
		}
	}
	return false
}

// ST1 (C09): names enter a symbol table qualified, or into a scoped copy. dsl.SymbolTable maps qualified names
// ("Namespace.Name") to definitions and is shared by every namespace, definition and pass. The only unqualified names
// that are ever looked up are generic type parameters, and they live in a copy made for the definition that declares
// them (`scoped := table.Clone(); scoped[T.Name] = T`). An unqualified key written into a table that was received —
// through a context, a field, a parameter — stays visible after the definition: `T` then resolves in every later
// definition of the namespace and an undefined name is accepted.
func ruleSymbolTableWritesScoped(c *core.Ctx) {
	const rule = "ST1"
	c.Rule(rule, "every store into a dsl.SymbolTable either goes into a table created in the same function (Clone(), make, literal) or uses a qualified key (GetQualifiedName(), \"%s.%s\" of namespace and name)", 4)
	for _, d := range c.AllDecls() {
		p := c.DeclPkg(d)
		if p == nil || d.Body == nil || c.IsTestFile(d.Pos()) || !strings.HasPrefix(p.PkgPath, core.Mod) {
			continue
		}
		info := p.TypesInfo
		isSymTab := func(e ast.Expr) bool {
			t := info.TypeOf(e)
			if t == nil {
				return false
			}
			if pt, ok := t.(*types.Pointer); ok {
				t = pt.Elem()
			}
			nt := core.NamedOf(t)
			return nt != nil && nt.Obj().Name() == "SymbolTable" && nt.Obj().Pkg() != nil && strings.HasSuffix(nt.Obj().Pkg().Path(), "pkg/dsl")
		}
		// all definitions of a local (x := E, x = E, var x = E)
		defsOf := func(obj types.Object) []ast.Expr {
			var out []ast.Expr
			ast.Inspect(d.Body, func(nn ast.Node) bool {
				switch x := nn.(type) {
				case *ast.AssignStmt:
					if len(x.Lhs) == len(x.Rhs) {
						for i, l := range x.Lhs {
							if id, ok := l.(*ast.Ident); ok && info.ObjectOf(id) == obj {
								out = append(out, x.Rhs[i])
							}
						}
					}
				case *ast.ValueSpec:
					for i, nme := range x.Names {
						if info.Defs[nme] == obj && i < len(x.Values) {
							out = append(out, x.Values[i])
						}
					}
				}
				return true
			})
			return out
		}
		fresh := func(e ast.Expr) bool {
			switch x := ast.Unparen(e).(type) {
			case *ast.CompositeLit:
				return true
			case *ast.CallExpr:
				if id, ok := x.Fun.(*ast.Ident); ok && id.Name == "make" {
					return true
				}
				if sel, ok := x.Fun.(*ast.SelectorExpr); ok && sel.Sel.Name == "Clone" {
					return true
				}
			}
			return false
		}
		var qualified func(e ast.Expr, depth int) bool
		qualified = func(e ast.Expr, depth int) bool {
			switch x := ast.Unparen(e).(type) {
			case *ast.CallExpr:
				if sel, ok := x.Fun.(*ast.SelectorExpr); ok && sel.Sel.Name == "GetQualifiedName" {
					return true
				}
				if f, _ := typeutil.Callee(info, x).(*types.Func); f != nil && f.Pkg() != nil && f.Pkg().Path() == "fmt" && f.Name() == "Sprintf" && len(x.Args) >= 3 {
					if tv, ok := info.Types[x.Args[0]]; ok && tv.Value != nil && tv.Value.Kind() == constant.String {
						return strings.Contains(constant.StringVal(tv.Value), "%s.%s")
					}
				}
			case *ast.BinaryExpr:
				// ns + "." + name
				if x.Op == token.ADD {
					found := false
					ast.Inspect(x, func(m ast.Node) bool {
						if bl, ok := m.(*ast.BasicLit); ok && bl.Value == `"."` {
							found = true
						}
						return true
					})
					return found
				}
			case *ast.Ident:
				if depth > 2 {
					return false
				}
				obj := info.ObjectOf(x)
				if v, ok := obj.(*types.Var); ok && !v.IsField() {
					defs := defsOf(obj)
					if len(defs) == 0 {
						return false
					}
					for _, r := range defs {
						if !qualified(r, depth+1) {
							return false
						}
					}
					return true
				}
			}
			return false
		}
		n := 0
		ast.Inspect(d.Body, func(nn ast.Node) bool {
			as, ok := nn.(*ast.AssignStmt)
			if !ok {
				return true
			}
			for _, l := range as.Lhs {
				ix, ok := ast.Unparen(l).(*ast.IndexExpr)
				if !ok || !isSymTab(ix.X) {
					continue
				}
				n++
				key := fmt.Sprintf("%s/store#%d", c.FuncName(d), n)
				m := ast.Unparen(ix.X)
				if st, ok := m.(*ast.StarExpr); ok {
					m = ast.Unparen(st.X)
				}
				isFresh := false
				if id, ok := m.(*ast.Ident); ok {
					if v, ok := info.ObjectOf(id).(*types.Var); ok && !v.IsField() {
						defs := defsOf(v)
						isFresh = len(defs) > 0
						for _, r := range defs {
							if !fresh(r) {
								isFresh = false
							}
						}
					}
				}
				switch {
				case isFresh:
					c.OK(rule, key, as.Pos(), "the table is a copy made in this function")
				case qualified(ix.Index, 0):
					c.OK(rule, key, as.Pos(), "qualified key "+types.ExprString(ix.Index))
				default:
					c.Bad(rule, key, as.Pos(), fmt.Sprintf("`%s` is stored into the symbol table `%s`, which this function did not create, under a key that is not a qualified name: the entry stays visible to every definition resolved afterwards (a generic parameter of one definition resolves inside another)", types.ExprString(ix.Index), types.ExprString(ix.X)))
				}
			}
			return true
		})
	}
}

// ZF1 (C04/C15): no test of a field that cannot have been set. After `v := T{A: x}` every field of v that the literal
// does not list holds its zero value until something stores into it; a condition that reads such a field in between
// (`len(v.B) == 0`, `v.B == nil`, `v.B != ""`) is decided by the literal, not by the data — the branch behind it is
// taken always or never. In a marshaller that chooses between a short and a full form this makes every value take the
// short form, and what the full form carries never reaches the schema.
func ruleNoTestOfUnsetField(c *core.Ctx) {
	const rule = "ZF1"
	c.Rule(rule, "no `if` condition reads a field of a local struct between the composite literal that created the struct without that field and the first statement that can store into it", 50)
	for _, d := range c.AllDecls() {
		p := c.DeclPkg(d)
		if p == nil || d.Body == nil || c.IsTestFile(d.Pos()) || !strings.HasPrefix(p.PkgPath, core.Mod) {
			continue
		}
		info := p.TypesInfo
		n := 0
		var scanBlock func(list []ast.Stmt)
		scanBlock = func(list []ast.Stmt) {
			for i, s := range list {
				var obj types.Object
				var lit *ast.CompositeLit
				switch x := s.(type) {
				case *ast.AssignStmt:
					if x.Tok == token.DEFINE && len(x.Lhs) == 1 && len(x.Rhs) == 1 {
						e := ast.Unparen(x.Rhs[0])
						if u, ok := e.(*ast.UnaryExpr); ok && u.Op == token.AND {
							e = ast.Unparen(u.X)
						}
						if cl, ok := e.(*ast.CompositeLit); ok {
							lit, obj = cl, identObj(info, x.Lhs[0])
						}
					}
				case *ast.DeclStmt:
					if gd, ok := x.Decl.(*ast.GenDecl); ok && len(gd.Specs) == 1 {
						if vs, ok := gd.Specs[0].(*ast.ValueSpec); ok && len(vs.Names) == 1 && len(vs.Values) == 1 {
							if cl, ok := ast.Unparen(vs.Values[0]).(*ast.CompositeLit); ok {
								lit, obj = cl, info.Defs[vs.Names[0]]
							}
						}
					}
				}
				if lit == nil || obj == nil {
					continue
				}
				lt := info.TypeOf(lit)
				if lt == nil {
					continue
				}
				st, ok := lt.Underlying().(*types.Struct)
				if !ok {
					continue
				}
				set := map[string]bool{}
				keyed := true
				for _, e := range lit.Elts {
					kv, ok := e.(*ast.KeyValueExpr)
					if !ok {
						keyed = false
						break
					}
					if id, ok := kv.Key.(*ast.Ident); ok {
						set[id.Name] = true
					}
				}
				if !keyed {
					continue
				}
				n++
				key := fmt.Sprintf("%s/%s#%d", c.FuncName(d), obj.Name(), n)
				bad := false
				// reads of obj.F in a condition, F unset and a direct field of the struct
				unsetRead := func(cond ast.Expr) (string, token.Pos) {
					var name string
					var at token.Pos
					ast.Inspect(cond, func(m ast.Node) bool {
						sel, ok := m.(*ast.SelectorExpr)
						if !ok || name != "" {
							return true
						}
						if identObj(info, sel.X) != obj || set[sel.Sel.Name] {
							return true
						}
						for k := 0; k < st.NumFields(); k++ {
							if st.Field(k).Name() == sel.Sel.Name && !st.Field(k).Embedded() {
								name, at = sel.Sel.Name, sel.Pos()
							}
						}
						return true
					})
					return name, at
				}
				mentions := func(nn ast.Node) bool {
					found := false
					ast.Inspect(nn, func(m ast.Node) bool {
						if id, ok := m.(*ast.Ident); ok && info.ObjectOf(id) == obj {
							found = true
						}
						return !found
					})
					return found
				}
				for _, nx := range list[i+1:] {
					if ifs, ok := nx.(*ast.IfStmt); ok && ifs.Init == nil {
						if f, at := unsetRead(ifs.Cond); f != "" {
							bad = true
							c.Bad(rule, key, at, fmt.Sprintf("the condition reads `%s.%s`, but `%s` was created just above by a literal that does not set %s and nothing has stored into it since: the test is decided by the literal (always the zero value), not by the data", obj.Name(), f, obj.Name(), f))
							break
						}
						if !mentions(ifs.Body) && (ifs.Else == nil || !mentions(ifs.Else)) {
							continue // only reads of set fields in the condition
						}
						break
					}
					if mentions(nx) {
						break
					}
				}
				if !bad {
					c.OK(rule, key, lit.Pos(), "no field left unset by the literal is tested before the struct is used")
				}
			}
			// nested blocks
			for _, s := range list {
				ast.Inspect(s, func(m ast.Node) bool {
					switch b := m.(type) {
					case *ast.BlockStmt:
						scanBlock(b.List)
						return false
					case *ast.CaseClause:
						scanBlock(b.Body)
						return false
					case *ast.CommClause:
						scanBlock(b.Body)
						return false
					}
					return true
				})
			}
		}
		scanBlock(d.Body.List)
	}
}

// DF1 (C06): a default goes to the variable that was found empty. `if x == nil { y = D }` with nothing else in the body is
// the idiom "x has no value, use the default": x and y are the same variable. When they differ — the old side is tested
// and the new side is overwritten — a value that was present is replaced by the default (and the absent one stays
// absent): comparing two enums without a `base:` then reports a base type change between identical definitions.
func ruleDefaultGoesToTestedVariable(c *core.Ctx) {
	const rule = "DF1"
	c.Rule(rule, "`if x == nil { y = D }` (one assignment to a variable of x's type, no else): y is x", 3)
	for _, d := range c.AllDecls() {
		p := c.DeclPkg(d)
		if p == nil || d.Body == nil || c.IsTestFile(d.Pos()) || !strings.HasPrefix(p.PkgPath, core.Mod) {
			continue
		}
		info := p.TypesInfo
		n := 0
		ast.Inspect(d.Body, func(nn ast.Node) bool {
			ifs, ok := nn.(*ast.IfStmt)
			if !ok || ifs.Else != nil || ifs.Init != nil || len(ifs.Body.List) != 1 {
				return true
			}
			be, ok := ast.Unparen(ifs.Cond).(*ast.BinaryExpr)
			if !ok || be.Op != token.EQL {
				return true
			}
			var tested ast.Expr
			switch {
			case isNilIdent(be.Y):
				tested = be.X
			case isNilIdent(be.X):
				tested = be.Y
			default:
				return true
			}
			as, ok := ifs.Body.List[0].(*ast.AssignStmt)
			if !ok || as.Tok != token.ASSIGN || len(as.Lhs) != 1 || len(as.Rhs) != 1 {
				return true
			}
			lt, tt := info.TypeOf(as.Lhs[0]), info.TypeOf(tested)
			if lt == nil || tt == nil || !types.Identical(lt, tt) {
				return true
			}
			// the right-hand side is a fresh value (a default), not a copy of another variable of the pair
			switch ast.Unparen(as.Rhs[0]).(type) {
			case *ast.Ident, *ast.SelectorExpr:
				return true
			}
			n++
			key := fmt.Sprintf("%s/default#%d", c.FuncName(d), n)
			same := types.ExprString(ast.Unparen(as.Lhs[0])) == types.ExprString(ast.Unparen(tested))
			c.Check(same, rule, key, ifs.Pos(), "`"+types.ExprString(tested)+"` is tested and defaulted",
				fmt.Sprintf("`%s` is found nil but the default is stored into `%s`: a value that was present is overwritten and the absent one stays nil", types.ExprString(tested), types.ExprString(as.Lhs[0])))
			return true
		})
	}
}

func isNilIdent(e ast.Expr) bool {
	id, ok := ast.Unparen(e).(*ast.Ident)
	return ok && id.Name == "nil"
}

// VS1 (C04): a definition is identified by itself or by its qualified name wherever references are followed. The name of
// a type definition is unique inside its namespace only; `SimpleType.ResolvedDefinition` leads into imported namespaces.
// A function that follows ResolvedDefinition and keeps a set or table keyed by the bare `.Name` of definitions merges
// `App.Header` with `Lib.Header`: the second one is taken for already seen — left out of the protocol schema, so that a
// change of the imported definition no longer changes the schema.
func ruleDefinitionsKeyedByIdentity(c *core.Ctx) {
	const rule = "VS1"
	c.Rule(rule, "a function that follows SimpleType.ResolvedDefinition keys no map by the unqualified Name of a type definition (the definition itself or GetQualifiedName() instead)", 8)
	dslPkg := c.Pkg("pkg/dsl")
	if dslPkg == nil {
		c.Undecided(rule, "anchor/pkg/dsl", 0, "package not loaded")
		return
	}
	tdIface, _ := dslPkg.Types.Scope().Lookup("TypeDefinition").(*types.TypeName)
	if tdIface == nil {
		c.Undecided(rule, "anchor/TypeDefinition", 0, "interface not found")
		return
	}
	iface, _ := tdIface.Type().Underlying().(*types.Interface)
	for _, d := range c.AllDecls() {
		p := c.DeclPkg(d)
		if p == nil || d.Body == nil || c.IsTestFile(d.Pos()) || !strings.HasPrefix(p.PkgPath, core.Mod) {
			continue
		}
		info := p.TypesInfo
		follows := token.NoPos
		ast.Inspect(d.Body, func(nn ast.Node) bool {
			if sel, ok := nn.(*ast.SelectorExpr); ok && sel.Sel.Name == "ResolvedDefinition" && follows == token.NoPos {
				if nt := core.NamedOf(derefType(info.TypeOf(sel.X))); nt != nil && nt.Obj().Name() == "SimpleType" {
					follows = sel.Pos()
				}
			}
			return true
		})
		if follows == token.NoPos {
			continue
		}
		isDefinition := func(e ast.Expr) bool {
			t := info.TypeOf(e)
			if t == nil {
				return false
			}
			if nt := core.NamedOf(derefType(t)); nt != nil && nt.Obj().Name() == "DefinitionMeta" {
				return true
			}
			if _, isIface := t.Underlying().(*types.Interface); isIface {
				return iface != nil && types.Identical(t.Underlying(), iface)
			}
			return iface != nil && (types.Implements(t, iface) || types.Implements(types.NewPointer(t), iface)) && !isPrimitiveDefinitionType(t)
		}
		var bareName func(e ast.Expr, depth int) bool
		bareName = func(e ast.Expr, depth int) bool {
			switch x := ast.Unparen(e).(type) {
			case *ast.BinaryExpr:
				// a key concatenated from parts: unqualified if a part is
				if x.Op == token.ADD {
					return bareName(x.X, depth) || bareName(x.Y, depth)
				}
			case *ast.CallExpr:
				// TypeToShortSyntax(t, false): the spelling of a type WITHOUT namespaces
				if f := core.Callee(info, x); f != nil && f.Name() == "TypeToShortSyntax" && len(x.Args) == 2 {
					if tv, ok := info.Types[x.Args[1]]; ok && tv.Value != nil && tv.Value.Kind() == constant.Bool && !constant.BoolVal(tv.Value) {
						return true
					}
				}
				// a helper of the package that builds the key from the bare name of a definition it is given
				// (`instantiationName(meta)` = meta.Name + "<" + args + ">"), without the namespace
				f := core.Callee(info, x)
				if f == nil || f.Pkg() != p.Types {
					return false
				}
				givenDef := false
				for _, a := range x.Args {
					if isDefinition(a) {
						givenDef = true
					}
				}
				fd := c.Decl(f)
				if !givenDef || fd == nil || fd.Body == nil {
					return false
				}
				readsName, qualifies := false, false
				ast.Inspect(fd.Body, func(m ast.Node) bool {
					if sel, ok := m.(*ast.SelectorExpr); ok {
						switch sel.Sel.Name {
						case "Name":
							if isDefinition(sel.X) {
								readsName = true
							}
						case "Namespace", "GetQualifiedName":
							qualifies = true
						}
					}
					return true
				})
				return readsName && !qualifies
			case *ast.SelectorExpr:
				return x.Sel.Name == "Name" && isDefinition(x.X)
			case *ast.Ident:
				if depth < 2 {
					if r := singleDefRHS(info, d.Body, x); r != ast.Expr(x) {
						return bareName(r, depth+1)
					}
				}
			}
			return false
		}
		n := 0
		ast.Inspect(d.Body, func(nn ast.Node) bool {
			ix, ok := nn.(*ast.IndexExpr)
			if !ok {
				return true
			}
			if _, isMap := derefType(info.TypeOf(ix.X)).Underlying().(*types.Map); !isMap {
				return true
			}
			n++
			key := fmt.Sprintf("%s/map#%d", c.FuncName(d), n)
			c.Check(!bareName(ix.Index, 0), rule, key, ix.Pos(), "not keyed by a bare definition name",
				fmt.Sprintf("`%s` is keyed by the unqualified name `%s` in a function that follows ResolvedDefinition (%s) into other namespaces: two definitions with the same name in different namespaces are taken for one", types.ExprString(ix.X), types.ExprString(ix.Index), c.PosStr(follows)))
			return true
		})
		if n == 0 {
			c.OK(rule, c.FuncName(d)+"/no map", d.Pos(), "follows ResolvedDefinition and keeps no map")
		}
	}
}

func derefType(t types.Type) types.Type {
	if t == nil {
		return types.Typ[types.Invalid]
	}
	if pt, ok := t.(*types.Pointer); ok {
		return pt.Elem()
	}
	return t
}

// primitives and generic type parameters are definitions by interface only: their names are not scoped by a namespace
func isPrimitiveDefinitionType(t types.Type) bool {
	nt := core.NamedOf(derefType(t))
	return nt != nil && (nt.Obj().Name() == "PrimitiveDefinition" || nt.Obj().Name() == "GenericTypeParameter")
}

// T8 / T9 (C20): nothing is lost before the watch exists, and a scheduled regeneration regenerates.
// T8: the package directory is put under watch (`watcher.Add(".")`) without waiting for the first generation: in the
// function that adds it, no earlier statement synchronously runs a generation (a call that reaches generateImpl; a `go`
// statement does not wait). A save made while the first, slow generation runs would otherwise produce no event at all.
// T9: the function the debounce timer runs (time.AfterFunc(_, f)) calls the generation on every path: no `return` in
// front of it, not inside a condition. A regeneration that can decide to skip (mtime comparisons, "nothing changed")
// leaves output that does not correspond to the files on disk.
func ruleWatchStartsBeforeGeneratingAndAlwaysGenerates(c *core.Ctx) {
	const rule8, rule9 = "T8", "T9"
	c.Rule(rule8, "internal/cmd: in the function that adds \".\" to the fsnotify watcher no earlier statement synchronously reaches generateImpl", 1)
	c.Rule(rule9, "internal/cmd: the function handed to time.AfterFunc reaches generateImpl through a top-level statement that no `return` precedes", 1)
	gi, _, _ := c.Func("internal/cmd", "generateImpl")
	if gi == nil {
		c.Undecided(rule8, "anchor/internal/cmd.generateImpl", 0, "anchor function not found")
		c.Undecided(rule9, "anchor/internal/cmd.generateImpl", 0, "anchor function not found")
		return
	}
	n8, n9 := 0, 0
	for _, d := range c.AllDecls() {
		p := c.DeclPkg(d)
		if p == nil || p.PkgPath != core.Mod+"/internal/cmd" || d.Body == nil || c.IsTestFile(d.Pos()) {
			continue
		}
		info := p.TypesInfo
		lits := map[types.Object]*ast.FuncLit{}
		ast.Inspect(d.Body, func(n ast.Node) bool {
			if as, ok := n.(*ast.AssignStmt); ok && len(as.Lhs) == 1 && len(as.Rhs) == 1 {
				if fl, ok := as.Rhs[0].(*ast.FuncLit); ok {
					if o := identObj(info, as.Lhs[0]); o != nil {
						lits[o] = fl
					}
				}
			}
			return true
		})
		var callReaches func(ce *ast.CallExpr, depth int) bool
		// does running this node synchronously reach generateImpl? (`go` statements and literals that are only
		// stored do not run here)
		var runs func(n ast.Node, depth int) bool
		runs = func(n ast.Node, depth int) bool {
			hit := false
			ast.Inspect(n, func(x ast.Node) bool {
				if hit {
					return false
				}
				switch y := x.(type) {
				case *ast.GoStmt:
					return false
				case *ast.FuncLit:
					return false
				case *ast.CallExpr:
					if callReaches(y, depth) {
						hit = true
						return false
					}
					// literals passed as arguments may run inside the callee
					for _, a := range y.Args {
						if fl, ok := ast.Unparen(a).(*ast.FuncLit); ok && depth < 4 && runs(fl.Body, depth+1) {
							if f := core.Callee(info, y); f == nil || core.FullName(f) != "time.AfterFunc" {
								hit = true
							}
						}
					}
				}
				return !hit
			})
			return hit
		}
		callReaches = func(ce *ast.CallExpr, depth int) bool {
			if depth > 4 {
				return false
			}
			switch a := ast.Unparen(ce.Fun).(type) {
			case *ast.FuncLit:
				return runs(a.Body, depth+1)
			case *ast.Ident:
				if fl := lits[identObj(info, a)]; fl != nil {
					return runs(fl.Body, depth+1)
				}
			}
			f := core.Callee(info, ce)
			if f == nil || !core.InModule(f) {
				return false
			}
			return f.Origin() == gi || c.PathToStatic(f.Origin(), func(g *types.Func) bool { return g == gi }, nil) != nil
		}
		// every function body of this declaration: the declaration itself and its literals
		type fbody struct {
			name string
			body *ast.BlockStmt
		}
		bodies := []fbody{{c.FuncName(d), d.Body}}
		ast.Inspect(d.Body, func(n ast.Node) bool {
			if fl, ok := n.(*ast.FuncLit); ok {
				bodies = append(bodies, fbody{c.FuncName(d) + "/func literal", fl.Body})
			}
			return true
		})
		for _, fb := range bodies {
			for i, s := range fb.body.List {
				// T8: this top-level statement adds "." to a watcher
				adds := token.NoPos
				ast.Inspect(s, func(x ast.Node) bool {
					if _, ok := x.(*ast.FuncLit); ok {
						return false
					}
					if ce, ok := x.(*ast.CallExpr); ok && len(ce.Args) == 1 {
						if f := core.Callee(info, ce); f != nil && strings.HasSuffix(core.FullName(f), "fsnotify.Watcher).Add") {
							if tv, ok := info.Types[ce.Args[0]]; ok && tv.Value != nil && tv.Value.Kind() == constant.String && constant.StringVal(tv.Value) == "." {
								adds = ce.Pos()
							}
						}
					}
					return true
				})
				if adds == token.NoPos {
					continue
				}
				n8++
				var before ast.Stmt
				// a statement whose generation is followed by leaving the function (the one-shot branch
				// `if !watch { generate; return }`) is not in front of the Add on any path
				var runsAndContinues func(e ast.Stmt) bool
				runsAndContinues = func(e ast.Stmt) bool {
					switch x := e.(type) {
					case *ast.IfStmt:
						if x.Init != nil && runs(x.Init, 0) || runs(x.Cond, 0) {
							return true
						}
						if !goReturns(x.Body.List) {
							for _, b := range x.Body.List {
								if runsAndContinues(b) {
									return true
								}
							}
						}
						switch el := x.Else.(type) {
						case *ast.BlockStmt:
							if !goReturns(el.List) {
								for _, b := range el.List {
									if runsAndContinues(b) {
										return true
									}
								}
							}
						case *ast.IfStmt:
							return runsAndContinues(el)
						}
						return false
					case *ast.BlockStmt:
						if goReturns(x.List) {
							return false
						}
						for _, b := range x.List {
							if runsAndContinues(b) {
								return true
							}
						}
						return false
					}
					return runs(e, 0)
				}
				for _, e := range fb.body.List[:i] {
					if runsAndContinues(e) {
						before = e
						break
					}
				}
				if before == nil {
					c.OK(rule8, fb.name+"/watch the package directory", adds, "no generation runs in front of it")
				} else {
					c.Bad(rule8, fb.name+"/watch the package directory", adds, fmt.Sprintf("the statement at %s runs a generation to completion before the package directory is watched: files saved while that generation runs produce no event and the output stays stale until the next save", c.PosStr(before.Pos())))
				}
			}
		}
		// T9: functions handed to time.AfterFunc
		ast.Inspect(d.Body, func(n ast.Node) bool {
			ce, ok := n.(*ast.CallExpr)
			if !ok || len(ce.Args) != 2 {
				return true
			}
			if f := core.Callee(info, ce); f == nil || core.FullName(f) != "time.AfterFunc" {
				return true
			}
			var body *ast.BlockStmt
			switch a := ast.Unparen(ce.Args[1]).(type) {
			case *ast.FuncLit:
				body = a.Body
			case *ast.Ident:
				if fl := lits[identObj(info, a)]; fl != nil {
					body = fl.Body
				} else if fn, ok := info.Uses[a].(*types.Func); ok {
					if fd := c.Decl(fn); fd != nil {
						body = fd.Body
					}
				}
			case *ast.SelectorExpr:
				// a method value (`regenerator.regenerate`)
				if fn, ok := info.Uses[a.Sel].(*types.Func); ok {
					if fd := c.Decl(fn); fd != nil {
						body = fd.Body
					}
				}
			}
			if body == nil {
				return true
			}
			n9++
			key := c.FuncName(d) + "/debounced function"
			hasReturn := func(s ast.Stmt) bool {
				found := false
				ast.Inspect(s, func(x ast.Node) bool {
					if _, ok := x.(*ast.FuncLit); ok {
						return false
					}
					if _, ok := x.(*ast.ReturnStmt); ok {
						found = true
					}
					return !found
				})
				return found
			}
			status := "none"
			for _, s := range body.List {
				direct := false
				switch x := s.(type) {
				case *ast.ExprStmt:
					if c2, ok := x.X.(*ast.CallExpr); ok && callReaches(c2, 0) {
						direct = true
					}
				case *ast.AssignStmt:
					for _, r := range x.Rhs {
						if c2, ok := ast.Unparen(r).(*ast.CallExpr); ok && callReaches(c2, 0) {
							direct = true
						}
					}
				case *ast.DeclStmt:
					if runs(s, 0) {
						direct = true
					}
				}
				if direct {
					status = "ok"
					break
				}
				if hasReturn(s) {
					status = "return"
					c.Bad(rule9, key, s.Pos(), "the function the debounce timer runs can return before it generates: an event burst that was scheduled is dropped and the output no longer corresponds to the files on disk")
					break
				}
				if runs(s, 0) {
					status = "conditional"
					c.Bad(rule9, key, s.Pos(), "the function the debounce timer runs generates only inside a condition")
					break
				}
			}
			switch status {
			case "ok":
				c.OK(rule9, key, body.Pos(), "the generation is the first thing that can leave the function")
			case "none":
				c.Bad(rule9, key, body.Pos(), "the function the debounce timer runs never reaches generateImpl")
			}
			return true
		})
	}
	if n8 == 0 {
		c.Undecided(rule8, "anchor/watcher.Add(\".\")", 0, "no call adds the package directory to the watcher")
	}
	if n9 == 0 {
		c.Undecided(rule9, "anchor/time.AfterFunc", 0, "no debounce timer found")
	}
}

// S3 (C07): leaving the `with` block closes through the state machine. The generated Python writer and reader are
// context managers; `__exit__` is how most callers close them. The method it calls is one whose emitted body compares
// the protocol state (the completeness check of close()): calling the raw resource release (`_close`) instead skips
// "closed before all steps were written" and the terminator of a trailing stream.
func ruleExitClosesThroughStateCheck(c *core.Ctx) {
	const rule = "S3"
	c.Rule(rule, "python/protocols: the emitted `__exit__` of the abstract writer and reader calls (as `self.<m>()`) a method whose emitted body compares the protocol state", 2)
	defRe := regexp.MustCompile(`^\s*def\s+([\w%]+)\s*\(`)
	callRe := regexp.MustCompile(`self\.(\w+)\(\)`)
	all := pkgRows(c, "internal/python/protocols")
	called := map[string]bool{}
	for fd := range all {
		for _, cs := range c.Calls(fd) {
			if cs.Callee != nil && c.DeclPkg(fd) != nil && cs.Callee.Pkg() == c.DeclPkg(fd).Types && cs.Callee.Name() != fd.Name.Name {
				called[cs.Callee.Name()] = true
			}
		}
	}
	n := 0
	var decls []*ast.FuncDecl
	for fd := range all {
		decls = append(decls, fd)
	}
	sort.Slice(decls, func(i, j int) bool { return decls[i].Pos() < decls[j].Pos() })
	for _, fd := range decls {
		if fd.Recv != nil || called[fd.Name.Name] {
			continue
		}
		rows, _ := flatRows(c, "internal/python/protocols", fd.Name.Name)
		// emitted methods: name -> rows of the body, in emission order
		type method struct {
			name string
			rows []gee.Row
			pos  token.Pos
		}
		var ms []*method
		var cur *method
		for _, r := range rows {
			if r.Kind != "emit" {
				continue
			}
			if m := defRe.FindStringSubmatch(r.Tmpl); m != nil {
				name := m[1]
				if strings.Contains(name, "%") || name == "s" {
					name = "<step>"
				}
				cur = &method{name: name, pos: r.Pos}
				ms = append(ms, cur)
				continue
			}
			if strings.HasPrefix(strings.TrimSpace(r.Tmpl), "class ") {
				cur = nil
				continue
			}
			if cur != nil {
				cur.rows = append(cur.rows, r)
			}
		}
		// per class (an `__exit__` belongs to the methods emitted by the same generator function)
		checks := map[string]bool{}
		for _, m := range ms {
			for _, r := range m.rows {
				if stateCmpRe.MatchString(r.Tmpl) {
					checks[m.name] = true
				}
			}
		}
		for _, m := range ms {
			if m.name != "__exit__" {
				continue
			}
			n++
			key := fmt.Sprintf("%s/__exit__#%d", fd.Name.Name, n)
			var calls []string
			ok := false
			for _, r := range m.rows {
				for _, cm := range callRe.FindAllStringSubmatch(r.Tmpl, -1) {
					calls = append(calls, cm[1])
					if checks[cm[1]] {
						ok = true
					}
				}
			}
			c.Check(ok, rule, key, m.pos, "calls a method that checks the protocol state: "+strings.Join(calls, ", "),
				fmt.Sprintf("the emitted __exit__ calls %v, none of which compares the protocol state in its emitted body: leaving a `with` block neither reports missing steps nor ends a trailing stream", calls))
		}
	}
	if n == 0 {
		c.Undecided(rule, "anchor/__exit__", 0, "no emitted __exit__ found in python/protocols")
	}
}

// DB1 (C14): one default base type. An enum or flags definition without `base:` is an int32 — in the validation of its
// values, in the schema, on the wire of every back end. Wherever the absence of EnumDefinition.BaseType is handled
// (`if e.BaseType == nil {...}` / the else of `!= nil`), a primitive of the dsl that is named there is the int32 one:
// a back end that falls back to another primitive writes the values with another encoding (plain varint instead of
// zig-zag) than the other two languages read.
func ruleEnumDefaultBaseIsInt32(c *core.Ctx) {
	const rule = "DB1"
	c.Rule(rule, "in every branch that handles `EnumDefinition.BaseType == nil` (also through an explaining local), a dsl primitive named there (…Type variable or PrimitiveDefinition constant) is int32", 6)
	for _, d := range c.AllDecls() {
		p := c.DeclPkg(d)
		if p == nil || d.Body == nil || c.IsTestFile(d.Pos()) || !strings.HasPrefix(p.PkgPath, core.Mod) {
			continue
		}
		info := p.TypesInfo
		isBaseType := func(e ast.Expr, depth int) bool { return false }
		var isBT func(e ast.Expr, depth int) bool
		isBT = func(e ast.Expr, depth int) bool {
			switch x := ast.Unparen(e).(type) {
			case *ast.SelectorExpr:
				if x.Sel.Name != "BaseType" {
					return false
				}
				nt := core.NamedOf(derefType(info.TypeOf(x.X)))
				return nt != nil && nt.Obj().Name() == "EnumDefinition"
			case *ast.Ident:
				if depth < 2 {
					if r := singleDefRHS(info, d.Body, x); r != ast.Expr(x) {
						return isBT(r, depth+1)
					}
					// `newBaseType := e.BaseType` followed by the default: the first definition counts
					obj := info.ObjectOf(x)
					var first ast.Expr
					ast.Inspect(d.Body, func(m ast.Node) bool {
						if as, ok := m.(*ast.AssignStmt); ok && first == nil && as.Tok == token.DEFINE && len(as.Lhs) == len(as.Rhs) {
							for i, l := range as.Lhs {
								if id, ok := l.(*ast.Ident); ok && info.ObjectOf(id) == obj {
									first = as.Rhs[i]
								}
							}
						}
						return first == nil
					})
					if first != nil {
						return isBT(first, depth+1)
					}
				}
			}
			return false
		}
		isBaseType = isBT
		n := 0
		ast.Inspect(d.Body, func(nn ast.Node) bool {
			ifs, ok := nn.(*ast.IfStmt)
			if !ok {
				return true
			}
			be, ok := ast.Unparen(ifs.Cond).(*ast.BinaryExpr)
			if !ok || (be.Op != token.EQL && be.Op != token.NEQ) {
				return true
			}
			var tested ast.Expr
			switch {
			case isNilIdent(be.Y):
				tested = be.X
			case isNilIdent(be.X):
				tested = be.Y
			default:
				return true
			}
			if !isBaseType(tested, 0) {
				return true
			}
			var branch ast.Node = ifs.Body
			if be.Op == token.NEQ {
				if ifs.Else == nil {
					return true
				}
				branch = ifs.Else
			}
			// primitives named in the nil branch
			var wrong []string
			named := 0
			ast.Inspect(branch, func(m ast.Node) bool {
				var id *ast.Ident
				switch x := m.(type) {
				case *ast.SelectorExpr:
					id = x.Sel
				case *ast.Ident:
					id = x
				default:
					return true
				}
				obj := info.Uses[id]
				if obj == nil || obj.Pkg() == nil || !strings.HasSuffix(obj.Pkg().Path(), "pkg/dsl") || obj.Parent() != obj.Pkg().Scope() {
					return true
				}
				switch obj.(type) {
				case *types.Var, *types.Const:
				default:
					return true
				}
				isPrim := false
				if nt := core.NamedOf(derefType(obj.Type())); nt != nil {
					switch nt.Obj().Name() {
					case "PrimitiveDefinition":
						isPrim = true
					case "SimpleType":
						isPrim = strings.HasSuffix(obj.Name(), "Type")
					}
				}
				if _, isIface := obj.Type().Underlying().(*types.Interface); isIface && strings.HasSuffix(obj.Name(), "Type") {
					isPrim = true
				}
				if !isPrim {
					return true
				}
				named++
				if !strings.Contains(strings.ToLower(obj.Name()), "int32") || strings.Contains(strings.ToLower(obj.Name()), "uint32") {
					wrong = append(wrong, obj.Name())
				}
				return true
			})
			if named == 0 {
				return true
			}
			n++
			key := fmt.Sprintf("%s/default base#%d", c.FuncName(d), n)
			c.Check(len(wrong) == 0, rule, key, ifs.Pos(), "the default base type named here is int32",
				fmt.Sprintf("where `%s` is nil the code falls back to %v: an enum / flags without `base:` is an int32 everywhere else (validation, schema, the other back ends)", types.ExprString(tested), wrong))
			return true
		})
	}
}

// KF1 (C11/C10): YAML is decoded strictly everywhere. A key that no field of the target struct declares is an error —
// in the model files and in `_package.yml` alike — because a misspelt key (`generateNDJSON`) would otherwise be dropped
// silently and the run would succeed with something else than what was asked for. Strictness does not propagate into
// custom unmarshallers: a `Decode` of a sub-node inside UnmarshalYAML starts a new, lenient decoder. So: every
// (*yaml.Node).DecodeWithOptions passes KnownFields: true, (*yaml.Node).Decode is not used for a destination that
// contains a struct, and every yaml.Decoder has KnownFields(true) called on it in the function that creates it.
func ruleYamlDecodedStrictly(c *core.Ctx) {
	const rule = "KF1"
	c.Rule(rule, "pkg/dsl, pkg/packaging, internal/cmd: every YAML decode into a destination that contains a struct rejects unknown keys (DecodeWithOptions{KnownFields: true}; Decoder.KnownFields(true) before Decode; no plain Node.Decode)", 12)
	hasStruct := func(t types.Type) bool {
		seen := map[types.Type]bool{}
		var rec func(t types.Type) bool
		rec = func(t types.Type) bool {
			if t == nil || seen[t] {
				return false
			}
			seen[t] = true
			switch u := t.Underlying().(type) {
			case *types.Struct:
				return true
			case *types.Pointer:
				return rec(u.Elem())
			case *types.Slice:
				return rec(u.Elem())
			case *types.Array:
				return rec(u.Elem())
			case *types.Map:
				return rec(u.Elem())
			}
			return false
		}
		return rec(t)
	}
	for _, d := range c.AllDecls() {
		p := c.DeclPkg(d)
		if p == nil || d.Body == nil || c.IsTestFile(d.Pos()) || !strings.HasPrefix(p.PkgPath, core.Mod) {
			continue
		}
		info := p.TypesInfo
		n := 0
		strictDecoders := map[types.Object]bool{}
		ast.Inspect(d.Body, func(nn ast.Node) bool {
			ce, ok := nn.(*ast.CallExpr)
			if !ok {
				return true
			}
			f := core.Callee(info, ce)
			if f == nil || f.Pkg() == nil || !strings.Contains(f.Pkg().Path(), "yaml") {
				return true
			}
			sel, _ := ast.Unparen(ce.Fun).(*ast.SelectorExpr)
			if sel == nil {
				return true
			}
			recv := ""
			if nt := core.NamedOf(derefType(info.TypeOf(sel.X))); nt != nil {
				recv = nt.Obj().Name()
			}
			switch {
			case recv == "Decoder" && f.Name() == "KnownFields":
				if len(ce.Args) == 1 {
					if tv, ok := info.Types[ce.Args[0]]; ok && tv.Value != nil && constant.BoolVal(tv.Value) {
						strictDecoders[identObj(info, sel.X)] = true
					}
				}
			case recv == "Decoder" && f.Name() == "Decode":
				n++
				key := fmt.Sprintf("%s/Decoder.Decode#%d", c.FuncName(d), n)
				c.Check(strictDecoders[identObj(info, sel.X)], rule, key, ce.Pos(), "KnownFields(true) was called on the decoder", "the decoder was not made strict (KnownFields(true)) before Decode: unknown keys are dropped silently")
			case recv == "Node" && f.Name() == "DecodeWithOptions" && len(ce.Args) == 2:
				n++
				key := fmt.Sprintf("%s/Node.DecodeWithOptions#%d", c.FuncName(d), n)
				strict := false
				opt := ast.Unparen(ce.Args[1])
				if id, ok := opt.(*ast.Ident); ok {
					opt = ast.Unparen(singleDefRHS(info, d.Body, id)) // strict := yaml.DecodeOptions{KnownFields: true}
				}
				if cl, ok := opt.(*ast.CompositeLit); ok {
					for _, e := range cl.Elts {
						if kv, ok := e.(*ast.KeyValueExpr); ok && types.ExprString(kv.Key) == "KnownFields" {
							if tv, ok := info.Types[kv.Value]; ok && tv.Value != nil && constant.BoolVal(tv.Value) {
								strict = true
							}
						}
					}
				}
				c.Check(strict, rule, key, ce.Pos(), "KnownFields: true", "DecodeWithOptions without KnownFields: true: unknown keys of this node are dropped silently")
			case recv == "Node" && f.Name() == "Decode" && len(ce.Args) == 1:
				if !hasStruct(info.TypeOf(ce.Args[0])) {
					return true
				}
				n++
				key := fmt.Sprintf("%s/Node.Decode#%d", c.FuncName(d), n)
				c.Bad(rule, key, ce.Pos(), "a plain Node.Decode into `"+types.ExprString(ce.Args[0])+"` starts a lenient decoder (strictness of the outer decoder does not carry into a custom unmarshaller): unknown or misspelt keys of this section are accepted and ignored")
			}
			return true
		})
	}
}

// W4 (C12): what a writer keeps it also records. A file writer that remembers the files it wrote in a field and later
// removes every file of the output directory that is not in that list (stale-file removal) must record a file on every
// path on which it reports success — also when it finds the file on disk already up to date. Otherwise the second,
// unchanged run deletes the files the first run wrote and the third run writes them again: the output oscillates.
// The recorder/remover pair is found structurally: a method that calls os.Remove and ranges over a slice field F of its
// receiver is the remover; the other methods of the type that append to F are the recorders.
func ruleKeptFilesAreRecorded(c *core.Ctx) {
	const rule = "W4"
	c.Rule(rule, "a method that appends to the slice field a stale-file remover of the same type consults records the file on every path that returns a nil error", 1)
	type fieldKey struct {
		recv  *types.Named
		field string
	}
	removers := map[fieldKey]token.Pos{}
	recvOf := func(d *ast.FuncDecl, info *types.Info) (*types.Named, types.Object) {
		if d.Recv == nil || len(d.Recv.List) != 1 || len(d.Recv.List[0].Names) != 1 {
			return nil, nil
		}
		obj := info.Defs[d.Recv.List[0].Names[0]]
		if obj == nil {
			return nil, nil
		}
		return core.NamedOf(derefType(obj.Type())), obj
	}
	for _, d := range c.AllDecls() {
		p := c.DeclPkg(d)
		if p == nil || d.Body == nil || c.IsTestFile(d.Pos()) || !strings.HasPrefix(p.PkgPath, core.Mod) {
			continue
		}
		info := p.TypesInfo
		nt, robj := recvOf(d, info)
		if nt == nil {
			continue
		}
		removes := false
		var reachesRemove func(body ast.Node, depth int)
		reachesRemove = func(body ast.Node, depth int) {
			ast.Inspect(body, func(n ast.Node) bool {
				if ce, ok := n.(*ast.CallExpr); ok && !removes {
					if f := core.Callee(info, ce); f != nil {
						if core.FullName(f) == "os.Remove" || core.FullName(f) == "os.RemoveAll" {
							removes = true
						} else if depth < 2 && f.Pkg() == p.Types {
							if fd := c.Decl(f); fd != nil && fd.Body != nil {
								reachesRemove(fd.Body, depth+1) // removal through a helper of the package
							}
						}
					}
				}
				return !removes
			})
		}
		reachesRemove(d.Body, 0)
		if !removes {
			continue
		}
		ast.Inspect(d.Body, func(n ast.Node) bool {
			if rs, ok := n.(*ast.RangeStmt); ok {
				if sel, ok := ast.Unparen(rs.X).(*ast.SelectorExpr); ok && identObj(info, sel.X) == robj {
					if _, isSlice := info.TypeOf(sel).Underlying().(*types.Slice); isSlice {
						removers[fieldKey{nt, sel.Sel.Name}] = d.Pos()
					}
				}
			}
			return true
		})
	}
	n := 0
	for _, d := range c.AllDecls() {
		p := c.DeclPkg(d)
		if p == nil || d.Body == nil || c.IsTestFile(d.Pos()) || !strings.HasPrefix(p.PkgPath, core.Mod) {
			continue
		}
		info := p.TypesInfo
		nt, robj := recvOf(d, info)
		if nt == nil {
			continue
		}
		// appends to a consulted field
		var records []ast.Node
		field := ""
		ast.Inspect(d.Body, func(x ast.Node) bool {
			as, ok := x.(*ast.AssignStmt)
			if !ok || len(as.Lhs) != 1 || len(as.Rhs) != 1 {
				return true
			}
			sel, ok := ast.Unparen(as.Lhs[0]).(*ast.SelectorExpr)
			if !ok || identObj(info, sel.X) != robj {
				return true
			}
			if _, ok := removers[fieldKey{nt, sel.Sel.Name}]; !ok {
				return true
			}
			if ce, ok := ast.Unparen(as.Rhs[0]).(*ast.CallExpr); ok {
				if id, ok := ce.Fun.(*ast.Ident); ok && id.Name == "append" {
					records = append(records, as)
					field = sel.Sel.Name
				}
			}
			return true
		})
		if len(records) == 0 {
			continue
		}
		sig, _ := info.Defs[d.Name].Type().(*types.Signature)
		if sig == nil || sig.Results().Len() == 0 || sig.Results().At(sig.Results().Len()-1).Type().String() != "error" {
			continue
		}
		fc := core.NewCFG(d.Body, info)
		cut := map[*cfg.Block]bool{}
		recIdx := map[*cfg.Block]int{}
		for _, r := range records {
			if b := fc.BlockOf(r); b != nil {
				cut[b] = true
				recIdx[b] = fc.NodeIndex(b, r)
			}
		}
		reach := fc.ReachableBlocks(fc.Entry(), nil, cut)
		ast.Inspect(d.Body, func(x ast.Node) bool {
			if _, ok := x.(*ast.FuncLit); ok {
				return false
			}
			ret, ok := x.(*ast.ReturnStmt)
			if !ok || len(ret.Results) == 0 {
				return true
			}
			last := ret.Results[len(ret.Results)-1]
			if !isNilIdent(last) {
				// `return err` with err possibly nil: fine when the record sits behind `if err == nil {…}` (the paths
				// around it carry an error) — anything else returned is an error value by construction
				ev := identObj(info, last)
				if ev == nil {
					return true
				}
				guarded := false
				ast.Inspect(d.Body, func(y ast.Node) bool {
					ifs, ok := y.(*ast.IfStmt)
					if !ok {
						return true
					}
					be, ok := ast.Unparen(ifs.Cond).(*ast.BinaryExpr)
					if !ok || be.Op != token.EQL || !(isNilIdent(be.Y) && identObj(info, be.X) == ev || isNilIdent(be.X) && identObj(info, be.Y) == ev) {
						return true
					}
					for _, r := range records {
						if r.Pos() >= ifs.Body.Pos() && r.End() <= ifs.Body.End() {
							guarded = true
						}
					}
					return true
				})
				// was the variable assigned from a call at all (an error that can be nil)?
				if !guarded {
					return true
				}
				n++
				c.OK(rule, fmt.Sprintf("%s/return %s#%d", c.FuncName(d), ev.Name(), n), ret.Pos(), "the file is recorded exactly when `"+ev.Name()+"` is nil")
				return true
			}
			n++
			key := fmt.Sprintf("%s/success return#%d", c.FuncName(d), n)
			b := fc.BlockOf(ret)
			ok2 := true
			switch {
			case b == nil:
				ok2 = false
			case cut[b]:
				ok2 = fc.NodeIndex(b, ret) > recIdx[b] || !reach[b]
				if !ok2 {
					// the return stands in the recording block in front of the record: reachable without it
					ok2 = false
				}
			default:
				ok2 = !reach[b]
			}
			c.Check(ok2, rule, key, ret.Pos(), "the file is recorded in "+field+" on every path to this return",
				fmt.Sprintf("this `return nil` can be reached without appending to `%s`, the list the stale-file removal of %s consults: a file the writer decided to keep is deleted by the clean-up of the same run", field, nt.Obj().Name()))
			return true
		})
	}
	if len(removers) == 0 {
		c.Undecided(rule, "anchor/stale-file remover", 0, "no method that removes files not listed in a field of its receiver was found")
	}
}

// MK1 (C18): a memo is read with the key it is written with. A function that looks a value up in a map and leaves with
// it when found (`if v, ok := m[k]; ok { return v }`) and stores into the same map further down is a cache: the two
// keys are the same expression. A store under another key never hits — every import edge parses the package again and
// a package reachable by two paths appears twice among the namespaces.
func ruleMemoKeysAgree(c *core.Ctx) {
	const rule = "MK1"
	c.Rule(rule, "in a function that returns early on a comma-ok hit of a map and stores into the same map, some store uses the key expression of the lookup", 3)
	for _, d := range c.AllDecls() {
		p := c.DeclPkg(d)
		if p == nil || d.Body == nil || c.IsTestFile(d.Pos()) || !strings.HasPrefix(p.PkgPath, core.Mod) {
			continue
		}
		info := p.TypesInfo
		canon := func(e ast.Expr) string {
			e = ast.Unparen(e)
			for i := 0; i < 2; i++ {
				id, ok := e.(*ast.Ident)
				if !ok {
					break
				}
				r := singleDefRHS(info, d.Body, id)
				if r == ast.Expr(id) {
					break
				}
				e = ast.Unparen(r)
			}
			return types.ExprString(e)
		}
		type lookup struct {
			m   types.Object
			key ast.Expr
			pos token.Pos
		}
		var lookups []lookup
		stores := map[types.Object][]ast.Expr{}
		ast.Inspect(d.Body, func(nn ast.Node) bool {
			switch x := nn.(type) {
			case *ast.IfStmt:
				as, ok := x.Init.(*ast.AssignStmt)
				if !ok || len(as.Lhs) != 2 || len(as.Rhs) != 1 {
					return true
				}
				ix, ok := ast.Unparen(as.Rhs[0]).(*ast.IndexExpr)
				if !ok {
					return true
				}
				if _, isMap := derefType(info.TypeOf(ix.X)).Underlying().(*types.Map); !isMap {
					return true
				}
				okObj := identObj(info, as.Lhs[1])
				if okObj == nil || identObj(info, x.Cond) != okObj {
					return true
				}
				// the hit branch leaves the function
				leaves := false
				ast.Inspect(x.Body, func(m ast.Node) bool {
					if _, ok := m.(*ast.FuncLit); ok {
						return false
					}
					if _, ok := m.(*ast.ReturnStmt); ok {
						leaves = true
					}
					return true
				})
				if mo := identObj(info, ix.X); mo != nil && leaves {
					lookups = append(lookups, lookup{mo, ix.Index, x.Pos()})
				}
			case *ast.AssignStmt:
				for _, l := range x.Lhs {
					if ix, ok := ast.Unparen(l).(*ast.IndexExpr); ok {
						if mo := identObj(info, ix.X); mo != nil {
							if _, isMap := derefType(info.TypeOf(ix.X)).Underlying().(*types.Map); isMap {
								stores[mo] = append(stores[mo], ix.Index)
							}
						}
					}
				}
			}
			return true
		})
		n := 0
		for _, lk := range lookups {
			ss := stores[lk.m]
			if len(ss) == 0 {
				continue
			}
			n++
			want := canon(lk.key)
			agree := false
			var got []string
			for _, s := range ss {
				g := canon(s)
				got = append(got, g)
				if g == want {
					agree = true
				}
			}
			key := fmt.Sprintf("%s/%s#%d", c.FuncName(d), lk.m.Name(), n)
			c.Check(agree, rule, key, lk.pos, "looked up and stored under `"+want+"`",
				fmt.Sprintf("`%s` is looked up under `%s` but only ever stored under %v: the early return never hits and the work is repeated for every path that leads here", lk.m.Name(), want, got))
		}
	}
}

// Q7 (C13): a model directory is read with its sub-directories. ParseYamlInDir collects the files of a package with a
// traversal that descends (filepath.Walk / WalkDir / fs.WalkDir, or a function that lists a directory and calls itself):
// a flat listing silently drops `model/types/records.yml`, and the same definitions split over sub-directories are
// "not recognized" or — for a protocol that exists only there — missing from every output without a diagnostic.
func ruleModelDirectoryReadRecursively(c *core.Ctx) {
	const rule = "Q7"
	c.Rule(rule, "dsl.ParseYamlInDir obtains the file list from a recursive directory traversal", 1)
	p := c.Pkg("pkg/dsl")
	_, d, _ := c.Func("pkg/dsl", "ParseYamlInDir")
	if p == nil || d == nil {
		c.Undecided(rule, "anchor/pkg/dsl.ParseYamlInDir", 0, "anchor not found")
		return
	}
	walkers := map[string]bool{"path/filepath.Walk": true, "path/filepath.WalkDir": true, "io/fs.WalkDir": true}
	listers := map[string]bool{"os.ReadDir": true, "io/ioutil.ReadDir": true, "(*os.File).Readdir": true, "(*os.File).ReadDir": true, "(*os.File).Readdirnames": true, "path/filepath.Glob": true, "io/fs.ReadDir": true}
	visited := map[*ast.FuncDecl]bool{}
	var recursiveWalk, flat token.Pos
	var scan func(fd *ast.FuncDecl, depth int)
	scan = func(fd *ast.FuncDecl, depth int) {
		if fd == nil || fd.Body == nil || visited[fd] || depth > 3 {
			return
		}
		visited[fd] = true
		info := c.DeclPkg(fd).TypesInfo
		self := info.Defs[fd.Name]
		lists, callsSelf := token.NoPos, false
		ast.Inspect(fd.Body, func(n ast.Node) bool {
			ce, ok := n.(*ast.CallExpr)
			if !ok {
				return true
			}
			f := core.Callee(info, ce)
			if f == nil {
				return true
			}
			name := core.FullName(f)
			switch {
			case walkers[name]:
				recursiveWalk = ce.Pos()
			case listers[name]:
				lists = ce.Pos()
			case f == self:
				callsSelf = true
			case core.InModule(f):
				scan(c.Decl(f), depth+1)
			}
			return true
		})
		if lists != token.NoPos {
			if callsSelf {
				recursiveWalk = lists
			} else {
				flat = lists
			}
		}
	}
	scan(d, 0)
	switch {
	case recursiveWalk != token.NoPos:
		c.OK(rule, "ParseYamlInDir/file list", recursiveWalk, "recursive traversal")
	case flat != token.NoPos:
		c.Bad(rule, "ParseYamlInDir/file list", flat, "the directory is listed without descending into sub-directories: model files below the top level are skipped without any diagnostic")
	default:
		c.Undecided(rule, "ParseYamlInDir/file list", d.Pos(), "no directory traversal found in ParseYamlInDir or the functions it calls")
	}
}

// B6 (C05): a temporary that is read into as a batch has the caller's capacity. ReadBlocksIntoVector reads at most
// `destination.capacity()` items (the capacity of `values` is the batch size the caller asked for). Where the generated
// batch reader of a changed step reads the old type into a temporary vector first, the temporary is declared empty
// (`T tmp = {};`): without `tmp.reserve(values.capacity())` in front of the read the batch size is zero — the reader
// returns "more data" with no items, forever.
// The rule finds the helper that emits ReadBlocksIntoVector and the parameter that names the destination; at every call
// (also through local closures, judged where the closure is called) whose destination is a name computed from the model
// (a temporary — not the function's own `value`/`values`) and whose path conditions do not exclude a plural read, an
// emission `<that name>.reserve(<...>.capacity())` precedes it, conditioned on nothing but plural / not-write.
func ruleTemporaryBatchHasCapacity(c *core.Ctx) {
	const rule = "B6"
	c.Rule(rule, "cpp/binary: every plural read (ReadBlocksIntoVector through the step helper) into a temporary named after the model is preceded by an emitted `<temporary>.reserve(<values>.capacity());`", 1)
	p := c.Pkg("internal/cpp/binary")
	if p == nil {
		c.Undecided(rule, "anchor/internal/cpp/binary", 0, "package not loaded")
		return
	}
	info := p.TypesInfo
	// the helper and its destination / plural / write parameters
	type helper struct {
		f                  *types.Func
		dest, plural, wrte int
		pluralObj, wrteObj types.Object // when the flags are not parameters: the struct fields (or variables) they are read from
	}
	// the object a flag expression names: a variable, or the field of `x.flag`
	flagObj := func(e ast.Expr) types.Object {
		if sel, ok := ast.Unparen(e).(*ast.SelectorExpr); ok {
			if v, ok := info.Uses[sel.Sel].(*types.Var); ok && v.IsField() {
				return v
			}
			return nil
		}
		return identObj(info, e)
	}
	var helpers []helper
	for _, d := range c.AllDecls() {
		if c.DeclPkg(d) != p || d.Body == nil || d.Recv != nil {
			continue
		}
		params := []types.Object{}
		for _, fl := range d.Type.Params.List {
			for _, nm := range fl.Names {
				params = append(params, info.Defs[nm])
			}
		}
		destIdx := -1
		ast.Inspect(d.Body, func(n ast.Node) bool {
			ce, ok := n.(*ast.CallExpr)
			if !ok {
				return true
			}
			t, ok := emissionTemplate(info, ce)
			if !ok || !strings.Contains(t, "ReadBlocksIntoVector") {
				return true
			}
			last := identObj(info, ce.Args[len(ce.Args)-1])
			for i, po := range params {
				if po == last && last != nil {
					destIdx = i
				}
			}
			return true
		})
		if destIdx < 0 {
			continue
		}
		h := helper{f: info.Defs[d.Name].(*types.Func), dest: destIdx, plural: -1, wrte: -1}
		for i, po := range params {
			switch po.Name() {
			case "isPlural":
				h.plural = i
			case "write":
				h.wrte = i
			}
		}
		helpers = append(helpers, h)
	}
	if len(helpers) == 0 {
		c.Undecided(rule, "anchor/ReadBlocksIntoVector", 0, "no function of cpp/binary emits ReadBlocksIntoVector into a destination parameter")
		return
	}
	// wrappers: a function or method that hands one of its own parameters to a helper as the destination is a helper too
	for changed := true; changed; {
		changed = false
		for _, d := range c.AllDecls() {
			if c.DeclPkg(d) != p || d.Body == nil {
				continue
			}
			self, _ := info.Defs[d.Name].(*types.Func)
			known := false
			for _, h := range helpers {
				if h.f == self {
					known = true
				}
			}
			if known || self == nil {
				continue
			}
			var params []types.Object
			for _, fl := range d.Type.Params.List {
				for _, nm := range fl.Names {
					params = append(params, info.Defs[nm])
				}
			}
			indexOf := func(e ast.Expr) int {
				o := identObj(info, e)
				for i, po := range params {
					if po == o && o != nil {
						return i
					}
				}
				return -1
			}
			ast.Inspect(d.Body, func(n ast.Node) bool {
				ce, ok := n.(*ast.CallExpr)
				if !ok || known {
					return true
				}
				f := core.Callee(info, ce)
				for _, h := range helpers {
					if f == nil || h.f != f || h.dest >= len(ce.Args) {
						continue
					}
					if di := indexOf(ce.Args[h.dest]); di >= 0 {
						w := helper{f: self, dest: di, plural: -1, wrte: -1, pluralObj: h.pluralObj, wrteObj: h.wrteObj}
						if h.plural >= 0 && h.plural < len(ce.Args) {
							if w.plural = indexOf(ce.Args[h.plural]); w.plural < 0 {
								w.pluralObj = flagObj(ce.Args[h.plural])
							}
						}
						if h.wrte >= 0 && h.wrte < len(ce.Args) {
							if w.wrte = indexOf(ce.Args[h.wrte]); w.wrte < 0 {
								w.wrteObj = flagObj(ce.Args[h.wrte])
							}
						}
						helpers = append(helpers, w)
						known, changed = true, true
						return false
					}
				}
				return true
			})
		}
	}
	type cond struct {
		obj types.Object
		val bool
		e   ast.Expr // the condition itself, for conditions that are not a plain identifier
	}
	condOf := func(e ast.Expr, val bool) []cond {
		e = ast.Unparen(e)
		if u, ok := e.(*ast.UnaryExpr); ok && u.Op == token.NOT {
			e, val = ast.Unparen(u.X), !val
		}
		if o := flagObj(e); o != nil {
			return []cond{{o, val, nil}}
		}
		return []cond{{nil, val, e}} // some other condition
	}
	parentCache := map[*ast.FuncDecl]map[ast.Node]ast.Node{}
	parentsOf := func(d *ast.FuncDecl) map[ast.Node]ast.Node {
		if m, ok := parentCache[d]; ok {
			return m
		}
		m := map[ast.Node]ast.Node{}
		var stack []ast.Node
		ast.Inspect(d.Body, func(x ast.Node) bool {
			if x == nil {
				stack = stack[:len(stack)-1]
				return true
			}
			if len(stack) > 0 {
				m[x] = stack[len(stack)-1]
			}
			stack = append(stack, x)
			return true
		})
		parentCache[d] = m
		return m
	}
	// conditions that hold at a node: enclosing ifs, and ifs earlier in an enclosing block whose branch leaves
	condsIn := func(d *ast.FuncDecl, x ast.Node) []cond {
		parents := parentsOf(d)
		var out []cond
		for cur := x; cur != nil; cur = parents[cur] {
			par := parents[cur]
			switch pp := par.(type) {
			case *ast.IfStmt:
				if cur == ast.Node(pp.Body) {
					out = append(out, condOf(pp.Cond, true)...)
				} else if cur == pp.Else {
					out = append(out, condOf(pp.Cond, false)...)
				}
			case *ast.BlockStmt:
				for _, s := range pp.List {
					if s == cur {
						break
					}
					if ifs, ok := s.(*ast.IfStmt); ok && ifs.Else == nil && goReturns(ifs.Body.List) {
						out = append(out, condOf(ifs.Cond, false)...)
					}
				}
			case *ast.CaseClause:
				out = append(out, cond{nil, true, nil})
			}
		}
		return out
	}
	// the conditions under which a function runs: those at its call site when the package calls it from one place
	callerConds := func(d *ast.FuncDecl) []cond {
		self := info.Defs[d.Name]
		var site ast.Node
		var in *ast.FuncDecl
		count := 0
		for _, o := range c.AllDecls() {
			if c.DeclPkg(o) != p || o.Body == nil {
				continue
			}
			ast.Inspect(o.Body, func(x ast.Node) bool {
				if ce, ok := x.(*ast.CallExpr); ok {
					if f := core.Callee(info, ce); f != nil && types.Object(f) == self {
						count++
						site, in = ce, o
					}
				}
				return true
			})
		}
		if count != 1 {
			return nil
		}
		return condsIn(in, site)
	}
	n := 0
	for _, d := range c.AllDecls() {
		if c.DeclPkg(d) != p || d.Body == nil {
			continue
		}
		d := d
		parents := parentsOf(d)
		condsAt := func(x ast.Node) []cond { return condsIn(d, x) }
		// all definitions of a local
		defsOf := func(obj types.Object) []ast.Expr {
			var out []ast.Expr
			ast.Inspect(d.Body, func(x ast.Node) bool {
				if as, ok := x.(*ast.AssignStmt); ok && len(as.Lhs) == len(as.Rhs) {
					for i, l := range as.Lhs {
						if id, ok := l.(*ast.Ident); ok && info.ObjectOf(id) == obj {
							out = append(out, as.Rhs[i])
						}
					}
				}
				return true
			})
			return out
		}
		isTemp := func(e ast.Expr) types.Object {
			obj := identObj(info, e)
			v, ok := obj.(*types.Var)
			if !ok || v.IsField() {
				return nil
			}
			defs := defsOf(v)
			if len(defs) == 0 {
				return nil // a parameter
			}
			for _, r := range defs {
				if _, isCall := ast.Unparen(r).(*ast.CallExpr); !isCall {
					return nil
				}
			}
			return v
		}
		// local closures and their call sites
		lits := map[types.Object]*ast.FuncLit{}
		ast.Inspect(d.Body, func(x ast.Node) bool {
			if as, ok := x.(*ast.AssignStmt); ok && len(as.Lhs) == 1 && len(as.Rhs) == 1 {
				if fl, ok := as.Rhs[0].(*ast.FuncLit); ok {
					if o := identObj(info, as.Lhs[0]); o != nil {
						lits[o] = fl
					}
				}
			}
			return true
		})
		var effective func(x ast.Node, depth int) []ast.Node
		effective = func(x ast.Node, depth int) []ast.Node {
			// is x inside a literal bound to a local closure? then it runs where the closure is used
			for cur := parents[x]; cur != nil; cur = parents[cur] {
				fl, ok := cur.(*ast.FuncLit)
				if !ok {
					continue
				}
				for o, l := range lits {
					if l != fl || depth > 3 {
						continue
					}
					var sites []ast.Node
					ast.Inspect(d.Body, func(y ast.Node) bool {
						if id, ok := y.(*ast.Ident); ok && info.Uses[id] == o {
							sites = append(sites, effective(id, depth+1)...)
						}
						return true
					})
					return sites
				}
				return []ast.Node{x} // a literal passed directly (w.Indented(func(){...})): runs in place
			}
			return []ast.Node{x}
		}
		type reserve struct {
			tmp types.Object
			pos token.Pos
			cs  []cond
		}
		var reserves []reserve
		ast.Inspect(d.Body, func(x ast.Node) bool {
			ce, ok := x.(*ast.CallExpr)
			if !ok {
				return true
			}
			if t, ok := emissionTemplate(info, ce); ok && strings.Contains(t, ".reserve(") && strings.Contains(t, ".capacity()") {
				for _, a := range ce.Args {
					if o := isTemp(a); o != nil {
						reserves = append(reserves, reserve{o, ce.Pos(), condsAt(ce)})
						break
					}
				}
			}
			return true
		})
		ast.Inspect(d.Body, func(x ast.Node) bool {
			ce, ok := x.(*ast.CallExpr)
			if !ok {
				return true
			}
			f := core.Callee(info, ce)
			var h *helper
			for i := range helpers {
				if f != nil && helpers[i].f == f {
					h = &helpers[i]
				}
			}
			if h == nil || h.dest >= len(ce.Args) {
				return true
			}
			tmp := isTemp(ce.Args[h.dest])
			if tmp == nil {
				return true
			}
			pluralObj, writeObj := h.pluralObj, h.wrteObj
			if h.plural >= 0 && h.plural < len(ce.Args) {
				pluralObj = flagObj(ce.Args[h.plural])
			}
			if h.wrte >= 0 && h.wrte < len(ce.Args) {
				writeObj = flagObj(ce.Args[h.wrte])
			}
			for _, site := range effective(ce, 0) {
				cs := append(append(condsAt(site), condsAt(ce)...), callerConds(d)...)
				excluded := false
				for _, k := range cs {
					if k.obj != nil && (k.obj == writeObj && k.val || k.obj == pluralObj && !k.val) {
						excluded = true
					}
				}
				if excluded {
					continue
				}
				n++
				key := fmt.Sprintf("%s/read into %s#%d", c.FuncName(d), tmp.Name(), n)
				ok := false
				for _, r := range reserves {
					if r.tmp != tmp || r.pos >= site.Pos() {
						continue
					}
					// the reserve is emitted whenever the plural read is: each of its conditions is plural / not-write
					// or a condition the read site is under as well
					only := true
					for _, k := range r.cs {
						if k.obj != nil && (k.obj == pluralObj && k.val || k.obj == writeObj && !k.val) {
							continue
						}
						shared := false
						for _, q := range cs {
							if q.val == k.val && (k.obj != nil && q.obj == k.obj || k.obj == nil && k.e != nil && q.e == k.e) {
								shared = true
							}
						}
						if !shared {
							only = false
						}
					}
					if only {
						ok = true
					}
				}
				c.Check(ok, rule, key, site.Pos(), "`"+tmp.Name()+".reserve(….capacity())` is emitted in front of the plural read",
					"a batch of the old type can be read into the temporary `"+tmp.Name()+"`, which is declared empty, without `reserve(values.capacity())` emitted for it first: ReadBlocksIntoVector takes the capacity as the batch size and reads nothing")
			}
			return true
		})
	}
	if n == 0 {
		c.Undecided(rule, "anchor/plural read into a temporary", 0, "no plural read into a temporary found in cpp/binary")
	}
}

// X13 (C09): the range an enum value is checked against is the range of its base type. Wherever pkg/dsl compares a
// big integer with a lower and an upper bound chosen by a primitive (`v.Cmp(min) < 0 || v.Cmp(max) > 0`), the statements
// that choose the bounds — a switch, a lookup table — are evaluated for each of the nine integer primitives and the
// values of the chosen bounds (read off the initialisers of the named *big.Int variables) are compared with arithmetic:
// [-2^(w-1), 2^(w-1)-1] for intW, [0, 2^w-1] for uintW, size = uint64. A row that lets `-1` pass for uint32 accepts a
// model whose generated C++ (`enum class E : uint32_t { kFailed = -1 }`) does not compile.
func ruleIntegerBoundsMatchBaseType(c *core.Ctx) {
	const rule = "X13"
	c.Rule(rule, "pkg/dsl: the lower/upper bound a value is range-checked against, as chosen per integer primitive, equals the arithmetic range of that primitive (9 primitives)", 9)
	p := c.Pkg("pkg/dsl")
	if p == nil {
		c.Undecided(rule, "anchor/pkg/dsl", 0, "package not loaded")
		return
	}
	info := p.TypesInfo
	type prim struct {
		constName string
		bits      int
		signed    bool
	}
	prims := []prim{{"Int8", 8, true}, {"Uint8", 8, false}, {"Int16", 16, true}, {"Uint16", 16, false}, {"Int32", 32, true}, {"Uint32", 32, false}, {"Int64", 64, true}, {"Uint64", 64, false}, {"Size", 64, false}}
	// value of a package-level *big.Int: big.NewInt(K) / new(big.Int).SetUint64(K) / SetInt64(K)
	var bigValue func(name string, depth int) (*big.Int, bool)
	bigValue = func(name string, depth int) (*big.Int, bool) {
		o, _ := p.Types.Scope().Lookup(name).(*types.Var)
		if o == nil || depth > 3 {
			return nil, false
		}
		for _, f := range p.Syntax {
			for _, dd := range f.Decls {
				gd, ok := dd.(*ast.GenDecl)
				if !ok || gd.Tok != token.VAR {
					continue
				}
				for _, sp := range gd.Specs {
					vs := sp.(*ast.ValueSpec)
					for i, nm := range vs.Names {
						if info.Defs[nm] != types.Object(o) || i >= len(vs.Values) {
							continue
						}
						init := ast.Unparen(vs.Values[i])
						if id, ok := init.(*ast.Ident); ok {
							return bigValue(id.Name, depth+1) // MaxSize = MaxUint64
						}
						// exactly one call in the initialiser gives the value: big.NewInt(K), x.SetUint64(K), x.SetInt64(K)
						var vals []*big.Int
						ast.Inspect(init, func(m ast.Node) bool {
							ce, ok := m.(*ast.CallExpr)
							if !ok || len(ce.Args) != 1 {
								return true
							}
							fn := types.ExprString(ce.Fun)
							if fn != "big.NewInt" && !strings.HasSuffix(fn, ".SetUint64") && !strings.HasSuffix(fn, ".SetInt64") {
								return true
							}
							if tv, ok := info.Types[ce.Args[0]]; ok && tv.Value != nil {
								if v, ok := new(big.Int).SetString(tv.Value.ExactString(), 10); ok {
									vals = append(vals, v)
								}
							}
							return true
						})
						if len(vals) == 1 {
							return vals[0], true
						}
						return nil, false
					}
				}
			}
		}
		return nil, false
	}
	sites := 0
	for _, d := range c.AllDecls() {
		if c.DeclPkg(d) != p || d.Body == nil || c.IsTestFile(d.Pos()) {
			continue
		}
		// range checks: X.Cmp(lo) < 0 || X.Cmp(hi) > 0 with lo, hi locals
		var bodies []*ast.BlockStmt
		bodies = append(bodies, d.Body)
		ast.Inspect(d.Body, func(n ast.Node) bool {
			if fl, ok := n.(*ast.FuncLit); ok {
				bodies = append(bodies, fl.Body)
			}
			return true
		})
		for _, body := range bodies {
			var lo, hi types.Object
			var at token.Pos
			var scan func(n ast.Node)
			scan = func(n ast.Node) {
				ast.Inspect(n, func(m ast.Node) bool {
					if fl, ok := m.(*ast.FuncLit); ok && fl.Body != body {
						return false
					}
					be, ok := m.(*ast.BinaryExpr)
					if !ok || (be.Op != token.LOR && be.Op != token.LAND) {
						return true
					}
					cmpArg := func(e ast.Expr, op token.Token) types.Object {
						b, ok := ast.Unparen(e).(*ast.BinaryExpr)
						if !ok || b.Op != op {
							return nil
						}
						if lit, ok := ast.Unparen(b.Y).(*ast.BasicLit); !ok || lit.Value != "0" {
							return nil
						}
						ce, ok := ast.Unparen(b.X).(*ast.CallExpr)
						if !ok || len(ce.Args) != 1 {
							return nil
						}
						if sel, ok := ce.Fun.(*ast.SelectorExpr); !ok || sel.Sel.Name != "Cmp" {
							return nil
						}
						if v, ok := identObj(info, ce.Args[0]).(*types.Var); ok && v.Parent() != v.Pkg().Scope() {
							return v
						}
						return nil
					}
					// out of range: v.Cmp(lo) < 0 || v.Cmp(hi) > 0; in range: v.Cmp(lo) >= 0 && v.Cmp(hi) <= 0 (either order)
					lowOp, highOp := token.LSS, token.GTR
					if be.Op == token.LAND {
						lowOp, highOp = token.GEQ, token.LEQ
					}
					for _, pair := range [][2]ast.Expr{{be.X, be.Y}, {be.Y, be.X}} {
						if l, h := cmpArg(pair[0], lowOp), cmpArg(pair[1], highOp); l != nil && h != nil {
							lo, hi, at = l, h, be.Pos()
						}
					}
					return true
				})
			}
			scan(body)
			if lo == nil {
				continue
			}
			// slice: top-level statements of the body that define lo/hi or what they depend on; the primitive is injected
			needed := map[types.Object]bool{lo: true, hi: true}
			var inject types.Object
			var slice []ast.Stmt
			assigns := func(s ast.Stmt) map[types.Object]bool {
				out := map[types.Object]bool{}
				ast.Inspect(s, func(m ast.Node) bool {
					switch x := m.(type) {
					case *ast.FuncLit:
						return false
					case *ast.AssignStmt:
						for _, l := range x.Lhs {
							if o := identObj(info, l); o != nil {
								out[o] = true
							}
						}
					case *ast.ValueSpec:
						for _, nm := range x.Names {
							out[info.Defs[nm]] = true
						}
					}
					return true
				})
				return out
			}
			for i := len(body.List) - 1; i >= 0; i-- {
				s := body.List[i]
				if s.Pos() > at {
					continue
				}
				as := assigns(s)
				hit := false
				for o := range as {
					if needed[o] && o != inject {
						hit = true
					}
				}
				if !hit {
					continue
				}
				// does it define the injected primitive only?
				slice = append([]ast.Stmt{s}, slice...)
				ast.Inspect(s, func(m ast.Node) bool {
					if id, ok := m.(*ast.Ident); ok {
						if v, ok := info.Uses[id].(*types.Var); ok && v.Pkg() == p.Types && v.Parent() != p.Types.Scope() && !v.IsField() {
							if nt := core.NamedOf(v.Type()); nt != nil && nt.Obj().Name() == "PrimitiveDefinition" {
								if inject == nil {
									inject = v
								}
							} else {
								needed[v] = true
							}
						}
					}
					return true
				})
			}
			if inject == nil || len(slice) == 0 {
				continue
			}
			// drop statements that (only) define the injected variable
			var run []ast.Stmt
			for _, s := range slice {
				as := assigns(s)
				if as[inject] && !as[lo] && !as[hi] {
					onlyInject := true
					for o := range as {
						if o != inject && needed[o] {
							onlyInject = false
						}
					}
					if onlyInject {
						continue
					}
				}
				run = append(run, s)
			}
			sites++
			for _, pr := range prims {
				key := fmt.Sprintf("%s/%s", c.FuncName(d), pr.constName)
				co, _ := p.Types.Scope().Lookup(pr.constName).(*types.Const)
				if co == nil {
					c.Undecided(rule, key, at, "primitive constant not found")
					continue
				}
				pi := &pinterp{c: c}
				env := &penv{vars: map[types.Object]pval{inject: {k: pvString, s: constant.StringVal(co.Val())}}}
				pi.exec(info, run, env)
				lv, lok := env.get(lo)
				hv, hok := env.get(hi)
				if pi.unknown != "" || !lok || !hok || lv.k != pvAbs || hv.k != pvAbs || !strings.HasPrefix(lv.s, "bigint:") || !strings.HasPrefix(hv.s, "bigint:") {
					c.Undecided(rule, key, at, "the bounds chosen for "+pr.constName+" could not be evaluated ("+pi.unknown+")")
					continue
				}
				lname, hname := strings.TrimPrefix(lv.s, "bigint:"), strings.TrimPrefix(hv.s, "bigint:")
				lb, ok1 := bigValue(lname, 0)
				hb, ok2 := bigValue(hname, 0)
				if !ok1 || !ok2 {
					c.Undecided(rule, key, at, "the value of "+lname+" / "+hname+" could not be read off its initialiser")
					continue
				}
				wantLo, wantHi := new(big.Int), new(big.Int)
				if pr.signed {
					wantLo.Neg(new(big.Int).Lsh(big.NewInt(1), uint(pr.bits-1)))
					wantHi.Sub(new(big.Int).Lsh(big.NewInt(1), uint(pr.bits-1)), big.NewInt(1))
				} else {
					wantHi.Sub(new(big.Int).Lsh(big.NewInt(1), uint(pr.bits)), big.NewInt(1))
				}
				c.Check(lb.Cmp(wantLo) == 0 && hb.Cmp(wantHi) == 0, rule, key, at, fmt.Sprintf("[%s, %s] = [%s, %s]", lname, hname, lb, hb),
					fmt.Sprintf("for %s the value is checked against [%s, %s] = [%s, %s], the type holds [%s, %s]: values outside the base type are accepted (or values inside it rejected)", pr.constName, lname, hname, lb, hb, wantLo, wantHi))
			}
		}
	}
	if sites == 0 {
		c.Undecided(rule, "anchor/range check", 0, "no `v.Cmp(lo) < 0 || v.Cmp(hi) > 0` range check chosen by a primitive was found in pkg/dsl")
	}
}

// PC1 (C06): optional scalars are compared by value. The model keeps optional scalars as pointers (`Length *uint64`,
// `Name *string`); `a.Length != b.Length` compares the two addresses, which differ for every pair of separately parsed
// models — equal lengths read as changed (an array is incompatible with itself), and two absent values as equal only by
// accident. A comparison of two pointers to basic types with == / != has nil on one side.
func rulePointersToScalarsComparedByValue(c *core.Ctx) {
	const rule = "PC1"
	c.Rule(rule, "no == / != between two non-nil operands of a pointer-to-basic type (*uint64, *string, *bool …): such values are compared through a dereference", 40)
	for _, d := range c.AllDecls() {
		p := c.DeclPkg(d)
		if p == nil || d.Body == nil || c.IsTestFile(d.Pos()) || !strings.HasPrefix(p.PkgPath, core.Mod) {
			continue
		}
		info := p.TypesInfo
		n := 0
		isPtrToBasic := func(e ast.Expr) bool {
			t := info.TypeOf(e)
			if t == nil {
				return false
			}
			pt, ok := t.Underlying().(*types.Pointer)
			if !ok {
				return false
			}
			_, basic := pt.Elem().Underlying().(*types.Basic)
			return basic
		}
		ast.Inspect(d.Body, func(nn ast.Node) bool {
			be, ok := nn.(*ast.BinaryExpr)
			if !ok || (be.Op != token.EQL && be.Op != token.NEQ) {
				return true
			}
			if !isPtrToBasic(be.X) && !isPtrToBasic(be.Y) {
				return true
			}
			n++
			key := fmt.Sprintf("%s/compare#%d", c.FuncName(d), n)
			if isNilIdent(be.X) || isNilIdent(be.Y) {
				c.OK(rule, key, be.Pos(), "nil test")
				return true
			}
			// `if a == nil || b == nil { return a == b }`: with one side nil the addresses answer the question
			oneNil := false
			ax, ay := types.ExprString(ast.Unparen(be.X)), types.ExprString(ast.Unparen(be.Y))
			ast.Inspect(d.Body, func(m ast.Node) bool {
				ifs, ok := m.(*ast.IfStmt)
				if !ok || !(ifs.Body.Pos() <= be.Pos() && be.End() <= ifs.Body.End()) {
					return true
				}
				ast.Inspect(ifs.Cond, func(q ast.Node) bool {
					if t, ok := q.(*ast.BinaryExpr); ok && t.Op == token.EQL {
						for _, pair := range [][2]ast.Expr{{t.X, t.Y}, {t.Y, t.X}} {
							if isNilIdent(pair[1]) {
								if tx := types.ExprString(ast.Unparen(pair[0])); tx == ax || tx == ay {
									oneNil = true
								}
							}
						}
					}
					return true
				})
				return true
			})
			if oneNil {
				c.OK(rule, key, be.Pos(), "one operand is nil on this path: both absent is the only way to be equal")
				return true
			}
			c.Bad(rule, key, be.Pos(), fmt.Sprintf("`%s %s %s` compares two pointers, not the values they point to: equal values stored in different models compare as different", types.ExprString(be.X), be.Op, types.ExprString(be.Y)))
			return true
		})
	}
}

// SH1 (C19): a copy made for the callee reaches the callee. `x := *outer; x.F = v` inside a block, where the enclosing
// function already has a variable x that is used after the block, declares a second x: when the inner one is only ever
// written (assigned, or assigned through — `x.F = …`) and never read, the statements were meant for the outer variable
// and have no effect. (The compiler accepts it: a field assignment counts as a use.)
func ruleShadowedVariableIsRead(c *core.Ctx) {
	const rule = "SH1"
	c.Rule(rule, "a variable declared with := that shadows a variable of an enclosing block of the same function is read somewhere in its scope (not only assigned or assigned through)", 60)
	for _, d := range c.AllDecls() {
		p := c.DeclPkg(d)
		if p == nil || d.Body == nil || c.IsTestFile(d.Pos()) || !strings.HasPrefix(p.PkgPath, core.Mod) {
			continue
		}
		info := p.TypesInfo
		fscope := info.Scopes[d.Type]
		if fscope == nil {
			continue
		}
		n := 0
		// positions where an identifier is written: the root identifier of an assignment's left-hand side
		written := map[*ast.Ident]bool{}
		ast.Inspect(d.Body, func(nn ast.Node) bool {
			switch x := nn.(type) {
			case *ast.AssignStmt:
				for _, l := range x.Lhs {
					e := ast.Unparen(l)
					for {
						switch y := e.(type) {
						case *ast.SelectorExpr:
							e = ast.Unparen(y.X)
							continue
						case *ast.IndexExpr:
							e = ast.Unparen(y.X)
							continue
						case *ast.StarExpr:
							e = ast.Unparen(y.X)
							continue
						}
						break
					}
					if id, ok := e.(*ast.Ident); ok {
						written[id] = true
					}
				}
			case *ast.IncDecStmt:
				if id, ok := ast.Unparen(x.X).(*ast.Ident); ok {
					written[id] = true
				}
			}
			return true
		})
		ast.Inspect(d.Body, func(nn ast.Node) bool {
			as, ok := nn.(*ast.AssignStmt)
			if !ok || as.Tok != token.DEFINE {
				return true
			}
			for _, l := range as.Lhs {
				id, ok := l.(*ast.Ident)
				if !ok || id.Name == "_" {
					continue
				}
				obj := info.Defs[id]
				if obj == nil || obj.Parent() == nil {
					continue
				}
				// an outer variable of the same name inside this function (or a parameter)
				var outer types.Object
				for s := obj.Parent().Parent(); s != nil && s != p.Types.Scope() && s != types.Universe; s = s.Parent() {
					if o := s.Lookup(id.Name); o != nil && o.Pos() >= d.Pos() && o.Pos() <= d.End() {
						if _, isVar := o.(*types.Var); isVar {
							outer = o
						}
						break
					}
				}
				if outer == nil {
					continue
				}
				n++
				key := fmt.Sprintf("%s/%s#%d", c.FuncName(d), id.Name, n)
				read := false
				uses := 0
				ast.Inspect(d.Body, func(m ast.Node) bool {
					if u, ok := m.(*ast.Ident); ok && info.Uses[u] == obj {
						uses++
						if !written[u] {
							read = true
						}
					}
					return true
				})
				// is the outer one used after the inner scope ends?
				usedAfter := false
				end := obj.Parent().End()
				ast.Inspect(d.Body, func(m ast.Node) bool {
					if u, ok := m.(*ast.Ident); ok && info.Uses[u] == outer && u.Pos() > end {
						usedAfter = true
					}
					return true
				})
				if read || uses == 0 || !usedAfter {
					c.OK(rule, key, id.Pos(), "the shadowing variable is read in its scope (or the outer one is not used afterwards)")
				} else {
					c.Bad(rule, key, id.Pos(), fmt.Sprintf("`%s :=` declares a new variable that shadows the `%s` of the enclosing block; it is only assigned to, never read, and the outer `%s` is what the code after the block uses: the assignments have no effect", id.Name, id.Name, id.Name))
				}
			}
			return true
		})
	}
}

// E7b (C11): a sink is shared, not copied. validation.ErrorSink / WarningSink carry a slice; a function that receives the
// sink by value, or a call that passes `*sink`, appends to a copy — the errors never reach the caller and the package is
// accepted. E8: a function of the module that is given an error and answers with a single bool ("did it succeed")
// is not called as a statement: the answer is the only thing left of the error.
func ruleSinksSharedAndVerdictsUsed(c *core.Ctx) {
	const rule7, rule8 = "E7b", "E8"
	c.Rule(rule7, "no function of the module has a parameter, result or receiver of type validation.ErrorSink / WarningSink by value, and no call passes a dereferenced sink", 12)
	c.Rule(rule8, "a module function with an error parameter and a single bool result is never called as a statement (its verdict is used)", 0)
	isSink := func(t types.Type) bool {
		nt := core.NamedOf(t)
		return nt != nil && nt.Obj().Pkg() != nil && strings.HasSuffix(nt.Obj().Pkg().Path(), "internal/validation") && (nt.Obj().Name() == "ErrorSink" || nt.Obj().Name() == "WarningSink")
	}
	for _, d := range c.AllDecls() {
		p := c.DeclPkg(d)
		if p == nil || c.IsTestFile(d.Pos()) || !strings.HasPrefix(p.PkgPath, core.Mod) {
			continue
		}
		info := p.TypesInfo
		f, _ := info.Defs[d.Name].(*types.Func)
		if f == nil {
			continue
		}
		sig := f.Type().(*types.Signature)
		mentions := false
		byValue := ""
		check := func(v *types.Var) {
			if v == nil {
				return
			}
			if pt, ok := v.Type().(*types.Pointer); ok {
				if isSink(pt.Elem()) {
					mentions = true
				}
			} else if isSink(v.Type()) {
				byValue = v.Name()
				mentions = true
			}
		}
		for i := 0; i < sig.Params().Len(); i++ {
			check(sig.Params().At(i))
		}
		// the methods of the sink types themselves (Add on *ErrorSink) are the implementation, not users
		if sig.Recv() != nil && strings.HasSuffix(p.PkgPath, "internal/validation") {
			mentions = false
		}
		if mentions {
			c.Check(byValue == "", rule7, c.FuncName(d)+"/signature", d.Pos(), "the sink is received through a pointer",
				"parameter `"+byValue+"` receives the sink by value: what the function adds goes into a copy and is lost to the caller — errors reported here do not fail the run")
		}
		if d.Body == nil {
			continue
		}
		n := 0
		ast.Inspect(d.Body, func(nn ast.Node) bool {
			switch x := nn.(type) {
			case *ast.CallExpr:
				for _, a := range x.Args {
					if st, ok := ast.Unparen(a).(*ast.StarExpr); ok && isSink(info.TypeOf(st)) && info.TypeOf(st) != nil {
						if _, isPtr := info.TypeOf(st).(*types.Pointer); isPtr {
							continue
						}
						n++
						c.Bad(rule7, fmt.Sprintf("%s/argument#%d", c.FuncName(d), n), a.Pos(), "`"+types.ExprString(a)+"` passes a copy of the sink: errors added by the callee are lost")
					}
				}
			case *ast.ExprStmt:
				ce, ok := x.X.(*ast.CallExpr)
				if !ok {
					return true
				}
				cf := core.Callee(info, ce)
				if cf == nil || !core.InModule(cf) {
					return true
				}
				cs := cf.Type().(*types.Signature)
				if cs.Results().Len() != 1 {
					return true
				}
				if b, ok := cs.Results().At(0).Type().Underlying().(*types.Basic); !ok || b.Kind() != types.Bool {
					return true
				}
				takesErr := false
				for i := 0; i < cs.Params().Len(); i++ {
					if cs.Params().At(i).Type().String() == "error" {
						takesErr = true
					}
				}
				if takesErr {
					c.Bad(rule8, fmt.Sprintf("%s/%s", c.FuncName(d), cf.Name()), ce.Pos(), "`"+cf.Name()+"` is handed an error and reports success as a bool, and the call discards that bool: a failed run continues (and exits) like a successful one")
				}
			}
			return true
		})
	}
}

// H2 (C04): the current schema exists before it is copied. The C++ generator emits, per protocol, the definition of the
// static `schema_` string and the static `previous_schemas_` vector, whose initialiser copies `schema_` for every
// version in which the protocol did not change. Static objects of one translation unit are initialised in the order of
// their definitions: with `previous_schemas_` first, those entries copy a string that has not been constructed — the
// header written for an old version carries an empty schema.
func ruleSchemaDefinedBeforeItIsCopied(c *core.Ctx) {
	const rule = "H2"
	c.Rule(rule, "cpp/protocols: the emission that defines `<Writer>::schema_` comes before the emission that opens the initialiser of `<Writer>::previous_schemas_` (helpers that print one of them count where they are called)", 1)
	schemaRe := regexp.MustCompile(`std::string\s+%s::schema_\s*=`)
	prevRe := regexp.MustCompile(`%s::previous_schemas_\s*=\s*\{`)
	var decls []*ast.FuncDecl
	for _, d := range c.AllDecls() {
		p := c.DeclPkg(d)
		if p != nil && d.Body != nil && strings.HasSuffix(p.PkgPath, "/internal/cpp/protocols") && !c.IsTestFile(d.Pos()) {
			decls = append(decls, d)
		}
	}
	// what a function prints itself
	direct := map[*ast.FuncDecl][2]bool{}
	for _, d := range decls {
		info := c.DeclPkg(d).TypesInfo
		var has [2]bool
		ast.Inspect(d.Body, func(nn ast.Node) bool {
			if ce, ok := nn.(*ast.CallExpr); ok {
				if t, ok := emissionTemplate(info, ce); ok && t != "" {
					if schemaRe.MatchString(t) {
						has[0] = true
					}
					if prevRe.MatchString(t) {
						has[1] = true
					}
				}
			}
			return true
		})
		direct[d] = has
	}
	n := 0
	for _, d := range decls {
		p := c.DeclPkg(d)
		info := p.TypesInfo
		var schemaPos, prevPos []token.Pos
		ast.Inspect(d.Body, func(nn ast.Node) bool {
			ce, ok := nn.(*ast.CallExpr)
			if !ok {
				return true
			}
			if t, ok := emissionTemplate(info, ce); ok {
				if schemaRe.MatchString(t) {
					schemaPos = append(schemaPos, ce.Pos())
				}
				if prevRe.MatchString(t) {
					prevPos = append(prevPos, ce.Pos())
				}
				return true
			}
			if f := core.Callee(info, ce); f != nil && f.Pkg() == p.Types {
				if fd := c.Decl(f); fd != nil && fd != d && direct[fd][0] != direct[fd][1] {
					// a helper that prints exactly one of the two (one that prints both is judged in itself)
					if direct[fd][0] {
						schemaPos = append(schemaPos, ce.Pos())
					}
					if direct[fd][1] {
						prevPos = append(prevPos, ce.Pos())
					}
				}
			}
			return true
		})
		if len(prevPos) == 0 || (len(schemaPos) == 0 && direct[d][1] && !direct[d][0]) {
			// a helper that prints only the vector: judged where it is called
			called := false
			for _, o := range decls {
				if o == d {
					continue
				}
				ast.Inspect(o.Body, func(nn ast.Node) bool {
					if ce, ok := nn.(*ast.CallExpr); ok {
						if f := core.Callee(c.DeclPkg(o).TypesInfo, ce); f != nil && c.Decl(f) == d {
							called = true
						}
					}
					return true
				})
			}
			if len(prevPos) == 0 || called {
				continue
			}
		}
		for _, pp := range prevPos {
			n++
			before := false
			for _, sp := range schemaPos {
				if sp < pp {
					before = true
				}
			}
			c.Check(before, rule, fmt.Sprintf("%s/previous_schemas_#%d", c.FuncName(d), n), pp, "`schema_` is defined by an earlier emission",
				"`previous_schemas_` is emitted before (or without) the definition of `schema_` it copies from: static initialisation runs in definition order, so the entries for unchanged versions are copies of an unconstructed string")
		}
	}
	if n == 0 {
		c.Undecided(rule, "anchor/previous_schemas_", 0, "the emission of previous_schemas_ was not found in cpp/protocols")
	}
}

// A5 / A6 (C04, C15): the schema lists every definition it reaches, and tells the dimensionalities apart.
// A5: in GetProtocolSchema the clause that handles a TypeDefinition appends it to the schema's types in a statement of
// the clause itself — not only inside a type switch or an assertion over the kinds of definition, where a kind without a
// case (an alias) would be traversed but never listed.
// A6: GeneralizedType.MarshalJSON gives each dimensionality (vector, array, map, stream) its own JSON key: the keys
// named in the clauses of its type switch (tags of wrapper struct fields, keys of map literals, string arguments of a
// wrapping helper) are pairwise different.
func ruleSchemaListsAndDistinguishes(c *core.Ctx) {
	const rule5, rule6 = "A5", "A6"
	c.Rule(rule5, "dsl.GetProtocolSchema: the `case TypeDefinition` clause of its visitor appends to a []TypeDefinition in a statement of the clause itself (unconditional on the kind of definition)", 1)
	c.Rule(rule6, "dsl.(*GeneralizedType).MarshalJSON: the JSON keys named in the clauses for the dimensionalities are pairwise different", 4)
	p := c.Pkg("pkg/dsl")
	if p == nil {
		c.Undecided(rule5, "anchor/pkg/dsl", 0, "package not loaded")
		c.Undecided(rule6, "anchor/pkg/dsl", 0, "package not loaded")
		return
	}
	info := p.TypesInfo
	_, gps, _ := c.Func("pkg/dsl", "GetProtocolSchema")
	if gps == nil || gps.Body == nil {
		c.Undecided(rule5, "anchor/GetProtocolSchema", 0, "not found")
	} else {
		found := false
		isDefSliceAppend := func(s ast.Stmt) bool {
			as, ok := s.(*ast.AssignStmt)
			if !ok || len(as.Rhs) != 1 {
				return false
			}
			ce, ok := ast.Unparen(as.Rhs[0]).(*ast.CallExpr)
			if !ok {
				return false
			}
			if id, ok := ce.Fun.(*ast.Ident); !ok || id.Name != "append" {
				return false
			}
			sl, ok := info.TypeOf(as.Lhs[0]).Underlying().(*types.Slice)
			if !ok {
				return false
			}
			nt := core.NamedOf(sl.Elem())
			return nt != nil && nt.Obj().Name() == "TypeDefinition"
		}
		// the visitor may live in the function or in helpers it calls (same package, depth 1)
		bodies := []*ast.BlockStmt{gps.Body}
		ast.Inspect(gps.Body, func(nn ast.Node) bool {
			if ce, ok := nn.(*ast.CallExpr); ok {
				if f := core.Callee(info, ce); f != nil && f.Pkg() == p.Types {
					if fd := c.Decl(f); fd != nil && fd.Body != nil && fd != gps {
						bodies = append(bodies, fd.Body)
					}
				}
			}
			return true
		})
		for _, b := range bodies {
			ast.Inspect(b, func(nn ast.Node) bool {
				var clauseBody []ast.Stmt
				var clausePos token.Pos
				switch cc := nn.(type) {
				case *ast.CaseClause:
					if len(cc.List) != 1 || types.ExprString(cc.List[0]) != "TypeDefinition" {
						return true
					}
					clauseBody, clausePos = cc.Body, cc.Pos()
				case *ast.IfStmt:
					// the if-form of the clause: `if def, ok := node.(TypeDefinition); ok [&& ...] { ... }`
					as, ok := cc.Init.(*ast.AssignStmt)
					if !ok || len(as.Lhs) != 2 || len(as.Rhs) != 1 {
						return true
					}
					ta, ok := ast.Unparen(as.Rhs[0]).(*ast.TypeAssertExpr)
					if !ok || ta.Type == nil || types.ExprString(ta.Type) != "TypeDefinition" || identObj(info, conjuncts(cc.Cond)[0]) != identObj(info, as.Lhs[1]) {
						return true
					}
					clauseBody, clausePos = cc.Body.List, cc.Pos()
				default:
					return true
				}
				found = true
				direct := false
				for _, s := range clauseBody {
					if isDefSliceAppend(s) {
						direct = true
					}
					// or a call of a helper / closure that appends (named in the clause itself)
					if es, ok := s.(*ast.ExprStmt); ok {
						if ce, ok := es.X.(*ast.CallExpr); ok {
							var body ast.Node
							if f := core.Callee(info, ce); f != nil && f.Pkg() == p.Types {
								if fd := c.Decl(f); fd != nil {
									body = fd.Body
								}
							} else if id, ok := ce.Fun.(*ast.Ident); ok {
								ast.Inspect(gps.Body, func(m ast.Node) bool {
									if as, ok := m.(*ast.AssignStmt); ok && len(as.Lhs) == 1 && len(as.Rhs) == 1 && identObj(info, as.Lhs[0]) == identObj(info, id) {
										if fl, ok := as.Rhs[0].(*ast.FuncLit); ok {
											body = fl.Body
										}
									}
									return true
								})
							}
							if blk, ok := body.(*ast.BlockStmt); ok && blk != nil {
								for _, hs := range blk.List {
									if isDefSliceAppend(hs) {
										direct = true
									}
								}
							}
						}
					}
				}
				c.Check(direct, rule5, "GetProtocolSchema/case TypeDefinition", clausePos, "the definition is appended by a statement of the clause itself",
					"the clause for TypeDefinition appends to the schema's types only inside a nested switch / assertion over the kind of definition: a kind without a case is visited (its children are listed) but is itself missing from the schema — changing it does not change the schema")
				return true
			})
		}
		if !found {
			c.Undecided(rule5, "GetProtocolSchema/case TypeDefinition", gps.Pos(), "no `case TypeDefinition` clause found in GetProtocolSchema or its helpers")
		}
	}
	// A6
	var mj *ast.FuncDecl
	for _, d := range c.AllDecls() {
		if c.DeclPkg(d) == p && d.Name.Name == "MarshalJSON" && d.Recv != nil && strings.Contains(types.ExprString(d.Recv.List[0].Type), "GeneralizedType") {
			mj = d
		}
	}
	if mj == nil || mj.Body == nil {
		c.Undecided(rule6, "anchor/GeneralizedType.MarshalJSON", 0, "not found")
		return
	}
	// every JSON key named in the function (tag of a one-field wrapper struct around a nested view, key of a map literal,
	// string argument of a wrapping helper), with the dimensionality it is written for: the nearest enclosing type-switch
	// clause or `if d, ok := x.(*Kind); ok` body
	parents := map[ast.Node]ast.Node{}
	var stack []ast.Node
	ast.Inspect(mj.Body, func(x ast.Node) bool {
		if x == nil {
			stack = stack[:len(stack)-1]
			return true
		}
		if len(stack) > 0 {
			parents[x] = stack[len(stack)-1]
		}
		stack = append(stack, x)
		return true
	})
	kindOf := func(x ast.Node) string {
		for cur := x; cur != nil; cur = parents[cur] {
			switch pp := parents[cur].(type) {
			case *ast.CaseClause:
				if len(pp.List) == 1 {
					return types.ExprString(pp.List[0])
				}
			case *ast.IfStmt:
				if cur == ast.Node(pp.Body) {
					if as, ok := pp.Init.(*ast.AssignStmt); ok && len(as.Rhs) == 1 {
						if ta, ok := ast.Unparen(as.Rhs[0]).(*ast.TypeAssertExpr); ok && ta.Type != nil {
							return types.ExprString(ta.Type)
						}
					}
				}
			}
		}
		return ""
	}
	type named struct {
		kind, key string
		pos       token.Pos
	}
	var found []named
	ast.Inspect(mj.Body, func(m ast.Node) bool {
		var keys []string
		switch x := m.(type) {
		case *ast.CompositeLit:
			t := info.TypeOf(x)
			if t == nil {
				return true
			}
			if st, ok := t.Underlying().(*types.Struct); ok && st.NumFields() == 1 {
				if _, inner := st.Field(0).Type().Underlying().(*types.Struct); inner {
					if tag := reflect.StructTag(st.Tag(0)).Get("json"); tag != "" {
						keys = append(keys, strings.Split(tag, ",")[0])
					}
				}
			}
			if _, ok := t.Underlying().(*types.Map); ok {
				for _, e := range x.Elts {
					if kv, ok := e.(*ast.KeyValueExpr); ok {
						if tv, ok := info.Types[kv.Key]; ok && tv.Value != nil && tv.Value.Kind() == constant.String {
							keys = append(keys, constant.StringVal(tv.Value))
						}
					}
				}
			}
		case *ast.CallExpr:
			if f := core.Callee(info, x); f != nil && f.Pkg() == p.Types && len(x.Args) >= 2 {
				if tv, ok := info.Types[x.Args[0]]; ok && tv.Value != nil && tv.Value.Kind() == constant.String {
					keys = append(keys, constant.StringVal(tv.Value))
				}
			}
		}
		if len(keys) > 0 {
			if k := kindOf(m); k != "" && k != "nil" {
				found = append(found, named{k, keys[0], m.Pos()})
			}
		}
		return true
	})
	seen := map[string]string{}
	n := 0
	for _, f := range found {
		if prev, ok := seen[f.kind+"\x00"]; ok && prev == f.key {
			continue
		}
		n++
		seen[f.kind+"\x00"] = f.key
		if other, dup := seen[f.key]; dup && other != f.kind {
			c.Bad(rule6, "GeneralizedType.MarshalJSON/"+f.kind, f.pos, fmt.Sprintf("%s is written under the JSON key %q, which %s uses too: the two dimensionalities have the same schema text, a reader for one accepts data of the other", f.kind, f.key, other))
		} else {
			seen[f.key] = f.kind
			c.OK(rule6, "GeneralizedType.MarshalJSON/"+f.kind, f.pos, fmt.Sprintf("key %q", f.key))
		}
	}
	if n == 0 {
		c.Undecided(rule6, "GeneralizedType.MarshalJSON/keys", mj.Pos(), "no JSON keys found in the clauses of the type switch")
	}
}

// T10 (C20): a failed regeneration changes no watch. generateInWatchMode returns the directories to watch, or nil when
// the model does not validate at the moment. In the function that receives that result, every call that changes the
// watch set with a computed argument ((*fsnotify.Watcher).Add / Remove) runs only where the result is known to be
// non-nil (inside `if dirs != nil …`, or in a loop over dirs itself): otherwise one invalid intermediate save unwatches
// the imported packages and later edits there are never seen.
func ruleWatchSetUnchangedOnFailure(c *core.Ctx) {
	const rule = "T10"
	c.Rule(rule, "internal/cmd: in the function that holds the result of generateInWatchMode, every Watcher.Add/Remove with a computed argument is guarded by a non-nil test of that result (or ranges over it)", 1)
	giw, _, _ := c.Func("internal/cmd", "generateInWatchMode")
	if giw == nil {
		c.Undecided(rule, "anchor/internal/cmd.generateInWatchMode", 0, "anchor function not found")
		return
	}
	n := 0
	for _, d := range c.AllDecls() {
		p := c.DeclPkg(d)
		if p == nil || p.PkgPath != core.Mod+"/internal/cmd" || d.Body == nil || c.IsTestFile(d.Pos()) {
			continue
		}
		info := p.TypesInfo
		// variables that hold the result of generateInWatchMode
		holders := map[types.Object]bool{}
		ast.Inspect(d.Body, func(nn ast.Node) bool {
			if as, ok := nn.(*ast.AssignStmt); ok && len(as.Lhs) == 1 && len(as.Rhs) == 1 {
				if ce, ok := ast.Unparen(as.Rhs[0]).(*ast.CallExpr); ok {
					if f := core.Callee(info, ce); f != nil && f.Origin() == giw {
						if o := identObj(info, as.Lhs[0]); o != nil {
							holders[o] = true
						}
					}
				}
			}
			return true
		})
		if len(holders) == 0 {
			continue
		}
		mentionsHolderNonNil := func(cond ast.Expr) bool {
			ok := false
			ast.Inspect(cond, func(m ast.Node) bool {
				be, isBin := m.(*ast.BinaryExpr)
				if !isBin {
					return true
				}
				if be.Op == token.NEQ && (isNilIdent(be.Y) && holders[identObj(info, be.X)] || isNilIdent(be.X) && holders[identObj(info, be.Y)]) {
					ok = true
				}
				if be.Op == token.GTR {
					if ce, isCall := ast.Unparen(be.X).(*ast.CallExpr); isCall && len(ce.Args) == 1 {
						if id, isId := ce.Fun.(*ast.Ident); isId && id.Name == "len" && holders[identObj(info, ce.Args[0])] {
							if bl, isLit := ast.Unparen(be.Y).(*ast.BasicLit); isLit && bl.Value == "0" {
								ok = true
							}
						}
					}
				}
				return true
			})
			return ok
		}
		// `if dirs == nil || … { return }`: what follows runs with a non-nil result
		leavesWhenNil := func(s ast.Stmt) bool {
			ifs, ok := s.(*ast.IfStmt)
			if !ok || ifs.Else != nil || !goReturns(ifs.Body.List) {
				return false
			}
			var disj func(e ast.Expr) bool
			disj = func(e ast.Expr) bool {
				be, ok := ast.Unparen(e).(*ast.BinaryExpr)
				if !ok {
					return false
				}
				if be.Op == token.LOR {
					return disj(be.X) || disj(be.Y)
				}
				return be.Op == token.EQL && (isNilIdent(be.Y) && holders[identObj(info, be.X)] || isNilIdent(be.X) && holders[identObj(info, be.Y)])
			}
			return disj(ifs.Cond)
		}
		// a helper of the package that changes the watch set with a computed argument
		changesWatches := func(f *types.Func) bool {
			fd := c.Decl(f)
			if fd == nil || fd.Body == nil {
				return false
			}
			hit := false
			ast.Inspect(fd.Body, func(m ast.Node) bool {
				if ce, ok := m.(*ast.CallExpr); ok && len(ce.Args) == 1 {
					if g := core.Callee(info, ce); g != nil {
						fn := core.FullName(g)
						if strings.HasSuffix(fn, "fsnotify.Watcher).Add") || strings.HasSuffix(fn, "fsnotify.Watcher).Remove") {
							if tv, ok := info.Types[ce.Args[0]]; !ok || tv.Value == nil {
								hit = true
							}
						}
					}
				}
				return true
			})
			return hit
		}
		// local closures that change the watch set but do not hold the result themselves (`watchAll := func(dirs []string)`)
		// are judged where they are called with the result
		definesHolder := func(fl *ast.FuncLit) bool {
			hit := false
			ast.Inspect(fl.Body, func(m ast.Node) bool {
				if as, ok := m.(*ast.AssignStmt); ok {
					for _, l := range as.Lhs {
						if holders[identObj(info, l)] {
							hit = true
						}
					}
				}
				return true
			})
			return hit
		}
		litChanges := func(fl *ast.FuncLit) bool {
			hit := false
			ast.Inspect(fl.Body, func(m ast.Node) bool {
				if ce, ok := m.(*ast.CallExpr); ok && len(ce.Args) == 1 {
					if g := core.Callee(info, ce); g != nil {
						fn := core.FullName(g)
						if strings.HasSuffix(fn, "fsnotify.Watcher).Add") || strings.HasSuffix(fn, "fsnotify.Watcher).Remove") {
							if tv, ok := info.Types[ce.Args[0]]; !ok || tv.Value == nil {
								hit = true
							}
						}
					}
				}
				return true
			})
			return hit
		}
		helperLits := map[types.Object]*ast.FuncLit{}
		ast.Inspect(d.Body, func(m ast.Node) bool {
			if as, ok := m.(*ast.AssignStmt); ok && len(as.Lhs) == 1 && len(as.Rhs) == 1 {
				if fl, ok := as.Rhs[0].(*ast.FuncLit); ok && !definesHolder(fl) && litChanges(fl) {
					if o := identObj(info, as.Lhs[0]); o != nil {
						helperLits[o] = fl
					}
				}
			}
			return true
		})
		var walk func(nn ast.Node, guarded bool)
		walk = func(nn ast.Node, guarded bool) {
			ast.Inspect(nn, func(m ast.Node) bool {
				switch x := m.(type) {
				case *ast.FuncLit:
					for _, fl := range helperLits {
						if fl == x {
							return false // judged at its calls
						}
					}
				case *ast.BlockStmt:
					g := guarded
					for _, st := range x.List {
						walk(st, g)
						if leavesWhenNil(st) {
							g = true
						}
					}
					return false
				case *ast.IfStmt:
					if x.Init != nil {
						walk(x.Init, guarded)
					}
					walk(x.Body, guarded || mentionsHolderNonNil(x.Cond))
					if x.Else != nil {
						walk(x.Else, guarded)
					}
					return false
				case *ast.RangeStmt:
					walk(x.Body, guarded || holders[identObj(info, x.X)])
					return false
				case *ast.CallExpr:
					if helperLits[identObj(info, x.Fun)] != nil {
						passes := false
						for _, a := range x.Args {
							if holders[identObj(info, a)] {
								passes = true
							}
						}
						if passes {
							n++
							c.Check(guarded, rule, fmt.Sprintf("%s/%s#%d", c.FuncName(d), types.ExprString(x.Fun), n), x.Pos(), "only where the result of the generation is non-nil",
								"the watch set is changed (through "+types.ExprString(x.Fun)+") also when the generation failed and returned no directories")
						}
						return true
					}
					f := core.Callee(info, x)
					if f != nil && f.Pkg() == p.Types && changesWatches(f) {
						passesHolder := false
						for _, a := range x.Args {
							if holders[identObj(info, a)] {
								passesHolder = true
							}
						}
						if passesHolder {
							n++
							c.Check(guarded, rule, fmt.Sprintf("%s/%s#%d", c.FuncName(d), f.Name(), n), x.Pos(), "only where the result of the generation is non-nil",
								"the watch set is changed (through "+f.Name()+") also when the generation failed and returned no directories")
							return true
						}
					}
					if f == nil || len(x.Args) != 1 {
						return true
					}
					fn := core.FullName(f)
					if !strings.HasSuffix(fn, "fsnotify.Watcher).Add") && !strings.HasSuffix(fn, "fsnotify.Watcher).Remove") {
						return true
					}
					if tv, ok := info.Types[x.Args[0]]; ok && tv.Value != nil {
						return true // a constant directory (".")
					}
					n++
					key := fmt.Sprintf("%s/%s#%d", c.FuncName(d), f.Name(), n)
					c.Check(guarded, rule, key, x.Pos(), "only where the result of the generation is non-nil",
						"the watch set is changed ("+f.Name()+") also when the generation failed and returned no directories: after one invalid save the imported packages are no longer watched")
				}
				return true
			})
		}
		walk(d.Body, false)
	}
	if n == 0 {
		c.Undecided(rule, "anchor/watch set changes", 0, "no Watcher.Add/Remove with a computed argument next to the result of generateInWatchMode")
	}
}

// GF1 (C02): the emitted C++ flags to_json writes the list of names only for a value that the names cover. In
// cpp/ndjson the function printed for `to_json(ordered_json& j, <Flags> const& value)` assigns the array of names to `j`
// (`j = arr;`) only inside an emitted `if (<x> == 0) {` block (x = value: nothing set; x = remaining: every bit
// accounted for); everywhere else the integer is written. A name list for a value with an undefined bit drops the bit.
// (The Python runtime's twin is rule PF2.)
func ruleEmittedFlagsNamesOnlyWhenComplete(c *core.Ctx) {
	const rule = "GF1"
	c.Rule(rule, "cpp/ndjson: in the emitted flags to_json every `j = arr;` lies inside an emitted `if (… == 0) {` block", 2)
	zeroIf := regexp.MustCompile(`^\s*if\s*\(\s*\w+(\.\w+\(\))?\s*==\s*0\s*\)\s*\{\s*$`)
	n := 0
	for _, d := range c.AllDecls() {
		p := c.DeclPkg(d)
		if p == nil || d.Body == nil || !strings.HasSuffix(p.PkgPath, "/internal/cpp/ndjson") || c.IsTestFile(d.Pos()) {
			continue
		}
		info := p.TypesInfo
		// emissions in source order (closures passed to w.Indented run in place)
		type em struct {
			t   string
			pos token.Pos
		}
		var ems []em
		// closures bound to a local print where they are called or handed on (w.Indented(printIt)), not where they are defined
		lits := map[types.Object]*ast.FuncLit{}
		var collect func(nn ast.Node, depth int)
		collect = func(nn ast.Node, depth int) {
			ast.Inspect(nn, func(m ast.Node) bool {
				switch x := m.(type) {
				case *ast.AssignStmt:
					if len(x.Lhs) == 1 && len(x.Rhs) == 1 {
						if fl, ok := x.Rhs[0].(*ast.FuncLit); ok {
							if o := identObj(info, x.Lhs[0]); o != nil {
								lits[o] = fl
								return false
							}
						}
					}
				case *ast.CallExpr:
					if t, ok := emissionTemplate(info, x); ok {
						if t != "" {
							ems = append(ems, em{t, x.Pos()})
						}
						return true
					}
					if depth < 4 {
						if fl := lits[identObj(info, x.Fun)]; fl != nil {
							collect(fl.Body, depth+1)
							return false
						}
						// a block helper of the package (`writeBlock(w, "if (x) {", "}", body)`): its constant strings and
						// its callback, in argument order
						if f := core.Callee(info, x); f != nil && f.Pkg() == p.Types {
							hasFunc := false
							for _, a := range x.Args {
								if _, ok := ast.Unparen(a).(*ast.FuncLit); ok || lits[identObj(info, a)] != nil {
									hasFunc = true
								}
							}
							if hasFunc {
								// openers (and other text) first, then the callbacks, then the strings that only close braces
								strOf := func(a ast.Expr) (string, bool) {
									if tv, ok := info.Types[a]; ok && tv.Value != nil && tv.Value.Kind() == constant.String {
										return constant.StringVal(tv.Value), true
									}
									if ce, ok := a.(*ast.CallExpr); ok && len(ce.Args) > 0 {
										if g := core.Callee(info, ce); g != nil && core.FullName(g) == "fmt.Sprintf" {
											if tv, ok := info.Types[ce.Args[0]]; ok && tv.Value != nil && tv.Value.Kind() == constant.String {
												return constant.StringVal(tv.Value), true
											}
										}
									}
									return "", false
								}
								closer := func(t string) bool { return strings.Contains(t, "}") && !strings.Contains(t, "{") }
								for _, a := range x.Args {
									if t, ok := strOf(ast.Unparen(a)); ok && !closer(t) {
										ems = append(ems, em{t, a.Pos()})
									}
								}
								for _, a := range x.Args {
									a = ast.Unparen(a)
									if fl, ok := a.(*ast.FuncLit); ok {
										collect(fl.Body, depth+1)
									} else if fl := lits[identObj(info, a)]; fl != nil {
										collect(fl.Body, depth+1)
									}
								}
								for _, a := range x.Args {
									if t, ok := strOf(ast.Unparen(a)); ok && closer(t) {
										ems = append(ems, em{t, a.Pos()})
									}
								}
								return false
							}
						}
						for _, a := range x.Args {
							if fl := lits[identObj(info, a)]; fl != nil {
								collect(fl.Body, depth+1)
							}
						}
					}
				}
				return true
			})
		}
		collect(d.Body, 0)
		if os.Getenv("VERIF_DEBUG_GF1") != "" && d.Name.Name == "writeFlagsConverters" {
			for _, e := range ems {
				fmt.Fprintf(os.Stderr, "GF1 em %q\n", e.t)
			}
		}
		inToJson := false
		var open []string // headers of the emitted blocks that are open
		for _, e := range ems {
			for _, line := range strings.Split(e.t, "\n") {
				tl := strings.TrimSpace(line)
				if tl == "" {
					continue
				}
				if strings.HasPrefix(tl, "void to_json(") && strings.HasSuffix(tl, "{") {
					inToJson, open = true, []string{tl}
					continue
				}
				if !inToJson {
					continue
				}
				if regexp.MustCompile(`^j\s*=\s*arr\s*;`).MatchString(tl) {
					n++
					guarded := false
					for _, h := range open {
						if zeroIf.MatchString(h) {
							guarded = true
						}
					}
					c.Check(guarded, rule, fmt.Sprintf("%s/j = arr#%d", c.FuncName(d), n), e.pos, "inside an emitted `if (… == 0) {`",
						"the emitted to_json assigns the list of names to `j` outside every `if (… == 0) {` block: a flags value with bits that no name covers is written as names only and read back without those bits")
				}
				opens, closes := strings.Count(tl, "{"), strings.Count(tl, "}")
				for i := 0; i < closes && len(open) > 0; i++ {
					open = open[:len(open)-1] // `} else {` closes one and opens one
				}
				for i := 0; i < opens; i++ {
					open = append(open, tl)
				}
				if len(open) == 0 {
					inToJson = false // the brace of the function itself was closed
				}
			}
		}
	}
	if n == 0 {
		c.Undecided(rule, "anchor/j = arr", 0, "no emitted `j = arr;` found in a to_json of cpp/ndjson")
	}
}

// SN1 (C05): a string is parsed with a function as wide as the number it becomes. Where a step or field changed from
// string to a number, the generated C++ parses the old string with std::sto*: stoi covers the integers up to 32 bits,
// stol/stoll the 64-bit ones, stoul/stoull the unsigned ones, stof only float32, stod/stold both floating point types.
// `std::stof` for a float64 silently rounds every value to single precision ("0.1" -> 0.10000000149011612) and rejects
// 1e300.
func ruleStringParsedWideEnough(c *core.Ctx) {
	const rule = "SN1"
	c.Rule(rule, "cpp/binary.writeTypeConversion: every `std::sto*(%s)` chosen for a set of primitives covers the range and precision of each of them", 4)
	rows, d, _ := geeRows(c, "internal/cpp/binary", "writeTypeConversion")
	if d == nil {
		c.Undecided(rule, "anchor/cpp/binary.writeTypeConversion", 0, "anchor not found")
		return
	}
	covers := map[string]map[string]bool{
		"stoi":   {"Int8": true, "Int16": true, "Int32": true},
		"stol":   {"Int8": true, "Int16": true, "Int32": true, "Int64": true},
		"stoll":  {"Int8": true, "Int16": true, "Int32": true, "Int64": true},
		"stoul":  {"Uint8": true, "Uint16": true, "Uint32": true, "Uint64": true, "Size": true},
		"stoull": {"Uint8": true, "Uint16": true, "Uint32": true, "Uint64": true, "Size": true},
		"stof":   {"Float32": true},
		"stod":   {"Float32": true, "Float64": true},
		"stold":  {"Float32": true, "Float64": true},
	}
	fnRe := regexp.MustCompile(`std::(sto[a-z]+)\(%s\)`)
	primRe := regexp.MustCompile(`Primitive([A-Z][A-Za-z0-9]+)`)
	n := 0
	for _, r := range rows {
		m := fnRe.FindStringSubmatch(r.Tmpl)
		if m == nil {
			continue
		}
		// the primitives this row is chosen for: the last set guard that lists primitives
		var prims []string
		for _, g := range r.Guards {
			if strings.Contains(g, "PrimitiveDefinition)∈{") || strings.Contains(g, "∈{dsl.Primitive") || strings.Contains(g, "∈{Primitive") {
				prims = nil
				for _, pm := range primRe.FindAllStringSubmatch(g[strings.Index(g, "∈{"):], -1) {
					prims = append(prims, pm[1])
				}
			}
		}
		if len(prims) == 0 {
			continue
		}
		n++
		key := fmt.Sprintf("std::%s#%d", m[1], n)
		var bad []string
		for _, pr := range prims {
			if cv, ok := covers[m[1]]; !ok || !cv[pr] {
				bad = append(bad, strings.ToLower(pr))
			}
		}
		c.Check(len(bad) == 0, rule, key, r.Pos, "covers "+strings.Join(prims, ", "),
			fmt.Sprintf("std::%s is chosen for %v: it does not cover their range / precision — values are rounded or rejected when an old string is converted", m[1], bad))
	}
	if n == 0 {
		c.Undecided(rule, "anchor/std::sto*", d.Pos(), "no std::sto* row chosen by a set of primitives found in writeTypeConversion")
	}
}

// TA1 (C10): no unchecked type assertion on what the user wrote. A single-value assertion `x.(T)` panics when x holds
// another type. In the front end (YAML unmarshalling, expression parsing, validation, evolution, packaging) every
// such assertion is either established — inside the clause of a type switch / behind a comma-ok assertion of the same
// expression to the same type, or applied to the result of a function that returns that type by construction
// (ToGeneralizedType, DefaultRewrite of a node of that type, Rewrite of the environment) — or listed in auditedAssertions
// with the invariant that justifies it.
var auditedAssertions = map[string]string{}

func ruleNoUncheckedAssertionsInFrontEnd(c *core.Ctx) {
	const rule = "TA1"
	c.Rule(rule, "parsers (pkg/dsl yaml.go and expressionparser.go, pkg/packaging, internal/cmd): every single-value type assertion is established by an enclosing type-switch clause / earlier comma-ok assertion, applies to a call known to return that type, or is audited", 1)
	scanned, commaOk := 0, 0
	defer func() {
		// the rule is about the absence of unchecked assertions: the parsers are full of checked ones
		if scanned >= 40 && commaOk >= 10 {
			c.OK(rule, "anchor/parsers scanned", 0, fmt.Sprintf("%d functions scanned, %d comma-ok assertions seen", scanned, commaOk))
		} else {
			c.Undecided(rule, "anchor/parsers scanned", 0, fmt.Sprintf("only %d functions / %d comma-ok assertions found in the parsers", scanned, commaOk))
		}
	}()
	for _, d := range c.AllDecls() {
		p := c.DeclPkg(d)
		if p == nil || d.Body == nil || c.IsTestFile(d.Pos()) {
			continue
		}
		if !(strings.HasSuffix(p.PkgPath, "/pkg/dsl") || strings.HasSuffix(p.PkgPath, "/pkg/packaging") || strings.HasSuffix(p.PkgPath, "/internal/cmd")) {
			continue
		}
		// the parsers proper: what they assert about is what the user wrote. (The rewriter and the evolution analyser
		// assert about nodes they built or classified themselves; those invariants are internal and not claimed here.)
		if fn := c.Fset.Position(d.Pos()).Filename; strings.HasSuffix(p.PkgPath, "/pkg/dsl") && !(strings.HasSuffix(fn, "/yaml.go") || strings.HasSuffix(fn, "/expressionparser.go") || strings.HasSuffix(fn, "/expressions.go")) {
			continue
		}
		_ = p.TypesInfo
		parents := map[ast.Node]ast.Node{}
		var stack []ast.Node
		ast.Inspect(d.Body, func(x ast.Node) bool {
			if x == nil {
				stack = stack[:len(stack)-1]
				return true
			}
			if len(stack) > 0 {
				parents[x] = stack[len(stack)-1]
			}
			stack = append(stack, x)
			return true
		})
		n := 0
		scanned++
		ast.Inspect(d.Body, func(nn ast.Node) bool {
			ta, ok := nn.(*ast.TypeAssertExpr)
			if !ok || ta.Type == nil {
				return true
			}
			// comma-ok form?
			if as, ok := parents[ta].(*ast.AssignStmt); ok && len(as.Lhs) == 2 && len(as.Rhs) == 1 {
				commaOk++
				return true
			}
			if vs, ok := parents[ta].(*ast.ValueSpec); ok && len(vs.Names) == 2 {
				return true
			}
			n++
			want := types.ExprString(ta.Type)
			subj := types.ExprString(ta.X)
			key := fmt.Sprintf("%s/%s.(%s)", c.FuncName(d), subj, want)
			// (a) result of a call: rewriters return what they were given, ToGeneralizedType returns *GeneralizedType
			if ce, ok := ast.Unparen(ta.X).(*ast.CallExpr); ok {
				fn := types.ExprString(ce.Fun)
				if strings.HasSuffix(fn, "DefaultRewrite") || strings.HasSuffix(fn, "Rewrite") || strings.HasSuffix(fn, "RewriteWithContext") || strings.HasSuffix(fn, "ToGeneralizedType") || strings.HasSuffix(fn, "Clone") || strings.HasSuffix(fn, "shallowClone") {
					c.OK(rule, key, ta.Pos(), "result of "+fn+", which returns a node of the kind it was given")
					return true
				}
			}
			// (b) established by an enclosing type switch clause on the same subject, or an earlier successful comma-ok
			established := false
			for cur := ast.Node(ta); cur != nil && !established; cur = parents[cur] {
				switch pp := parents[cur].(type) {
				case *ast.CaseClause:
					if ts, ok := parents[parents[pp]].(*ast.TypeSwitchStmt); ok {
						var tsSubj ast.Expr
						switch a := ts.Assign.(type) {
						case *ast.AssignStmt:
							tsSubj = a.Rhs[0].(*ast.TypeAssertExpr).X
						case *ast.ExprStmt:
							tsSubj = a.X.(*ast.TypeAssertExpr).X
						}
						if tsSubj != nil && types.ExprString(tsSubj) == subj && len(pp.List) == 1 && types.ExprString(pp.List[0]) == want {
							established = true
						}
					}
				case *ast.IfStmt:
					if cur == ast.Node(pp.Body) {
						ast.Inspect(pp.Cond, func(m ast.Node) bool {
							return true
						})
						if as, ok := pp.Init.(*ast.AssignStmt); ok && len(as.Lhs) == 2 && len(as.Rhs) == 1 {
							if t2, ok := ast.Unparen(as.Rhs[0]).(*ast.TypeAssertExpr); ok && t2.Type != nil && types.ExprString(t2.X) == subj && types.ExprString(t2.Type) == want {
								established = true
							}
						}
					}
				}
			}
			if established {
				c.OK(rule, key, ta.Pos(), "established by an enclosing type test of the same expression")
				return true
			}
			if r, ok := auditedAssertions[key]; ok {
				c.OK(rule, key, ta.Pos(), "audited: "+r)
				return true
			}
			c.Bad(rule, key, ta.Pos(), fmt.Sprintf("`%s.(%s)` is not established by a type test and is not audited: an input that puts another kind of node there makes yardl panic instead of reporting an error", subj, want))
			return true
		})
	}
}

// A7 / A8 (C04): the schema text is the compact JSON of the definitions, with nothing added and nothing wire-relevant
// taken away. A7: GetProtocolSchemaString turns the schema into text with json.Marshal only — an Encoder appends a
// newline (which each back end then embeds differently), MarshalIndent adds layout. A8: where GetProtocolSchema (or a
// helper it calls) clears a field of a definition it is about to list, the field is not one of the wire-relevant
// fields of rule A2 (computed fields and comments may go; an enum's base type may not).
func ruleSchemaTextExact(c *core.Ctx) {
	const rule7, rule8 = "A7", "A8"
	c.Rule(rule7, "dsl.GetProtocolSchemaString: the only encoding/json call is json.Marshal", 1)
	c.Rule(rule8, "dsl.GetProtocolSchema and its helpers: no assignment of nil / a zero value to a wire-relevant field (rule A2's table) of a definition", 1)
	p := c.Pkg("pkg/dsl")
	_, gss, _ := c.Func("pkg/dsl", "GetProtocolSchemaString")
	_, gps, _ := c.Func("pkg/dsl", "GetProtocolSchema")
	if p == nil || gss == nil || gps == nil {
		c.Undecided(rule7, "anchor/GetProtocolSchemaString", 0, "anchor not found")
		c.Undecided(rule8, "anchor/GetProtocolSchema", 0, "anchor not found")
		return
	}
	info := p.TypesInfo
	n := 0
	for _, fd := range declsCalledInPkg(c, gss, 1) {
		if fd == gps {
			continue
		}
		ast.Inspect(fd.Body, func(nn ast.Node) bool {
			ce, ok := nn.(*ast.CallExpr)
			if !ok {
				return true
			}
			f := core.Callee(info, ce)
			if f == nil || f.Pkg() == nil || f.Pkg().Path() != "encoding/json" {
				return true
			}
			n++
			c.Check(core.FullName(f) == "encoding/json.Marshal", rule7, fmt.Sprintf("%s/%s#%d", c.FuncName(fd), f.Name(), n), ce.Pos(), "json.Marshal",
				"the schema text is produced with "+core.FullName(f)+": an Encoder appends a newline and MarshalIndent adds layout — the literal embedded in C++, Python and MATLAB is no longer the same text")
			return true
		})
	}
	if n == 0 {
		c.Undecided(rule7, "GetProtocolSchemaString/encoding", gss.Pos(), "no encoding/json call found")
	}
	m := 0
	for _, fd := range declsCalledInPkg(c, gps, 2) {
		ast.Inspect(fd.Body, func(nn ast.Node) bool {
			as, ok := nn.(*ast.AssignStmt)
			if !ok || len(as.Lhs) != len(as.Rhs) {
				return true
			}
			for i, l := range as.Lhs {
				se, ok := ast.Unparen(l).(*ast.SelectorExpr)
				if !ok {
					continue
				}
				k, ok := fieldOf(info, se)
				if !ok {
					continue
				}
				tv, isConst := info.Types[as.Rhs[i]]
				zero := isConst && (tv.IsNil() || (tv.Value != nil && (tv.Value.ExactString() == "0" || tv.Value.ExactString() == `""` || tv.Value.ExactString() == "false")))
				if !zero {
					continue
				}
				m++
				wire := false
				for _, f := range wireFields[k.typ] {
					if f == k.field {
						wire = true
					}
				}
				c.Check(!wire, rule8, fmt.Sprintf("%s/%s.%s cleared#%d", c.FuncName(fd), k.typ, k.field, m), as.Pos(), "not a wire-relevant field",
					fmt.Sprintf("%s.%s is wire relevant (rule A2) and is cleared before the definition is listed in the schema: two models that differ in it get the same schema", k.typ, k.field))
			}
			return true
		})
	}
	if m == 0 {
		c.Undecided(rule8, "GetProtocolSchema/cleared fields", gps.Pos(), "no field is cleared (expected at least ComputedFields)")
	}
}

// RD1 (C04/C09): the result of a function that only computes is used. A function of the module that returns a value and
// has no effect of its own — its body stores through no parameter, receiver or package variable, sends on no channel,
// starts nothing, and calls only functions of the same kind or a small set of known pure library functions — exists for
// its result: a call statement that drops the result does nothing. (`withoutComputedFields(t)` returns a cleaned
// copy; calling it and going on with `t` keeps the computed fields in the schema.)
func ruleResultsOfPureFunctionsUsed(c *core.Ctx) {
	const rule = "RD1"
	c.Rule(rule, "no call statement discards the result of a module function that has results (none of them an error) and no effect of its own", 1)
	pure := map[*types.Func]int{} // 1 = pure, 2 = not pure, 3 = in progress
	pureLib := map[string]bool{"fmt.Sprintf": true, "fmt.Sprint": true, "strings.Join": true, "strings.ToLower": true, "strings.ToUpper": true, "strings.HasPrefix": true, "strings.HasSuffix": true,
		"strings.Contains": true, "strings.TrimSpace": true, "strings.Split": true, "strings.ReplaceAll": true, "strings.TrimPrefix": true, "strings.TrimSuffix": true, "strings.Repeat": true,
		"strconv.Itoa": true, "strconv.Quote": true, "path.Join": true, "path/filepath.Join": true, "errors.New": true, "fmt.Errorf": true}
	var isPure func(f *types.Func, depth int) bool
	isPure = func(f *types.Func, depth int) bool {
		f = f.Origin()
		switch pure[f] {
		case 1:
			return true
		case 2, 3:
			return false
		}
		if !core.InModule(f) {
			return pureLib[core.FullName(f)]
		}
		d := c.Decl(f)
		if d == nil || d.Body == nil || depth > 4 {
			return false
		}
		pure[f] = 3
		p := c.DeclPkg(d)
		info := p.TypesInfo
		ok := true
		local := func(e ast.Expr) bool {
			// the root of an assigned expression is a variable declared inside the function (not a parameter, receiver, global)
			for {
				switch x := ast.Unparen(e).(type) {
				case *ast.SelectorExpr:
					e = x.X
					continue
				case *ast.IndexExpr:
					e = x.X
					continue
				case *ast.StarExpr:
					e = x.X
					continue
				case *ast.Ident:
					if x.Name == "_" {
						return true
					}
					o := info.ObjectOf(x)
					v, isVar := o.(*types.Var)
					if !isVar || v.Pkg() == nil || v.Parent() == v.Pkg().Scope() {
						return false
					}
					// a parameter or receiver?
					if d.Recv != nil {
						for _, fl := range d.Recv.List {
							for _, nm := range fl.Names {
								if info.Defs[nm] == o {
									return false
								}
							}
						}
					}
					for _, fl := range d.Type.Params.List {
						for _, nm := range fl.Names {
							if info.Defs[nm] == o {
								// assigning to the parameter variable itself is local; storing through it is not
								return ast.Unparen(e) == ast.Expr(x) && false
							}
						}
					}
					return true
				}
				return false
			}
		}
		ast.Inspect(d.Body, func(nn ast.Node) bool {
			if !ok {
				return false
			}
			switch x := nn.(type) {
			case *ast.AssignStmt:
				for _, l := range x.Lhs {
					if id, isId := ast.Unparen(l).(*ast.Ident); isId {
						// plain variable: fine unless it is a package variable
						if v, isVar := info.ObjectOf(id).(*types.Var); isVar && v.Pkg() != nil && v.Parent() == v.Pkg().Scope() {
							ok = false
						}
						continue
					}
					if !local(l) {
						ok = false
					}
				}
			case *ast.IncDecStmt:
				if !local(x.X) {
					if _, isId := ast.Unparen(x.X).(*ast.Ident); !isId {
						ok = false
					}
				}
			case *ast.SendStmt, *ast.GoStmt, *ast.DeferStmt:
				ok = false
			case *ast.CallExpr:
				if id, isId := ast.Unparen(x.Fun).(*ast.Ident); isId {
					if _, isBuiltin := info.Uses[id].(*types.Builtin); isBuiltin {
						if id.Name == "panic" || id.Name == "delete" || id.Name == "close" {
							ok = false
						}
						return true
					}
					if _, isType := info.Uses[id].(*types.TypeName); isType {
						return true
					}
				}
				if tv, has := info.Types[x.Fun]; has && tv.IsType() {
					return true // a conversion
				}
				g := core.Callee(info, x)
				if g == nil || !isPure(g, depth+1) {
					ok = false
				}
			}
			return ok
		})
		if ok {
			pure[f] = 1
		} else {
			pure[f] = 2
		}
		return ok
	}
	n, stmts := 0, 0
	defer func() {
		if stmts >= 500 {
			c.OK(rule, "anchor/call statements scanned", 0, fmt.Sprintf("%d call statements of the module scanned", stmts))
		} else {
			c.Undecided(rule, "anchor/call statements scanned", 0, fmt.Sprintf("only %d call statements found", stmts))
		}
	}()
	for _, d := range c.AllDecls() {
		p := c.DeclPkg(d)
		if p == nil || d.Body == nil || c.IsTestFile(d.Pos()) || !strings.HasPrefix(p.PkgPath, core.Mod) {
			continue
		}
		info := p.TypesInfo
		ast.Inspect(d.Body, func(nn ast.Node) bool {
			es, ok := nn.(*ast.ExprStmt)
			if !ok {
				return true
			}
			ce, ok := es.X.(*ast.CallExpr)
			if !ok {
				return true
			}
			stmts++
			f := core.Callee(info, ce)
			if f == nil || !core.InModule(f) {
				return true
			}
			sig := f.Type().(*types.Signature)
			if sig.Results().Len() == 0 {
				return true
			}
			for i := 0; i < sig.Results().Len(); i++ {
				if sig.Results().At(i).Type().String() == "error" {
					return true // error discipline is rule E1/E2
				}
			}
			n++
			key := fmt.Sprintf("%s/%s#%d", c.FuncName(d), f.Name(), n)
			if isPure(f, 0) {
				c.Bad(rule, key, ce.Pos(), fmt.Sprintf("`%s` only computes its result (it stores nowhere and calls nothing that does), and the call drops that result: the statement has no effect — the value it was meant to replace is used unchanged", f.Name()))
			} else {
				c.OK(rule, key, ce.Pos(), "the callee has effects of its own")
			}
			return true
		})
	}
}

// LP1 (C06): a search loop can go on to the second element. A `for … range` over a list whose body leaves the loop on
// every path (return / break in every branch, including a default) looks at the first element only. In the evolution
// analyser "is the old type one of the cases of the new union" is such a search: with a `default: return incompatible`
// inside the loop only a match in first position is found and `T -> [U, T]` — a documented compatible change — is
// rejected. Loops that are meant to take the first element do so without a conditional (`for _, x := range xs { return x }`).
func ruleSearchLoopsIterate(c *core.Ctx) {
	const rule = "LP1"
	c.Rule(rule, "pkg/dsl: no `for range` loop over a slice has a body with a condition in it and yet leaves the loop (return/break/panic) on every path of the first iteration", 100)
	p := c.Pkg("pkg/dsl")
	if p == nil {
		c.Undecided(rule, "anchor/pkg/dsl", 0, "package not loaded")
		return
	}
	info := p.TypesInfo
	// how a statement list can end: "next" (falls off the end or `continue`: the loop goes on), "leave" (return, break,
	// panic); inSwitch: a `break` leaves the switch only and the statements after the switch run
	var outcomes func(list []ast.Stmt, inSwitch bool) (next, leave bool)
	outcomes = func(list []ast.Stmt, inSwitch bool) (bool, bool) {
		next, leave := false, false
		for _, s := range list {
			switch x := s.(type) {
			case *ast.ReturnStmt:
				return next, true
			case *ast.BranchStmt:
				switch x.Tok {
				case token.CONTINUE:
					return true, leave
				case token.BREAK:
					if inSwitch {
						return true, leave // leaves the switch; conservatively: the loop may go on
					}
					return next, true
				case token.GOTO:
					return true, true
				}
			case *ast.ExprStmt:
				if ce, ok := x.X.(*ast.CallExpr); ok && core.NoReturn(info, ce) {
					return next, true
				}
			case *ast.BlockStmt:
				n2, l2 := outcomes(x.List, inSwitch)
				leave = leave || l2
				if !n2 {
					return next, leave
				}
				// falls through the block's end or continues: go on only if it can fall off the end — approximated by n2
			case *ast.IfStmt:
				tn, tl := outcomes(x.Body.List, inSwitch)
				en, el := true, false
				switch e := x.Else.(type) {
				case *ast.BlockStmt:
					en, el = outcomes(e.List, inSwitch)
				case *ast.IfStmt:
					en, el = outcomes([]ast.Stmt{e}, inSwitch)
				}
				leave = leave || tl || el
				// a `continue` inside a branch already reaches the next iteration
				if containsContinue(x) {
					next = true
				}
				if !tn && !en {
					return next, leave
				}
			case *ast.SwitchStmt, *ast.TypeSwitchStmt:
				var body *ast.BlockStmt
				if sw, ok := x.(*ast.SwitchStmt); ok {
					body = sw.Body
				} else {
					body = x.(*ast.TypeSwitchStmt).Body
				}
				hasDefault, anyNext := false, false
				for _, cl := range body.List {
					cc := cl.(*ast.CaseClause)
					if cc.List == nil {
						hasDefault = true
					}
					cn, cl2 := outcomes(cc.Body, true)
					leave = leave || cl2
					if cn {
						anyNext = true
					}
				}
				if containsContinue(x) {
					next = true
				}
				if hasDefault && !anyNext {
					return next, leave
				}
			case *ast.ForStmt, *ast.RangeStmt:
				// an inner loop: its own breaks/continues stay inside; a return inside leaves
				ast.Inspect(x, func(m ast.Node) bool {
					if _, ok := m.(*ast.ReturnStmt); ok {
						leave = true
					}
					return true
				})
			}
		}
		return true, leave
	}
	fallsThrough := func(list []ast.Stmt) bool {
		next, _ := outcomes(list, false)
		return next
	}
	for _, d := range c.AllDecls() {
		if c.DeclPkg(d) != p || d.Body == nil || c.IsTestFile(d.Pos()) {
			continue
		}
		n := 0
		ast.Inspect(d.Body, func(nn ast.Node) bool {
			rs, ok := nn.(*ast.RangeStmt)
			if !ok {
				return true
			}
			if _, isSlice := derefType(info.TypeOf(rs.X)).Underlying().(*types.Slice); !isSlice {
				return true
			}
			n++
			key := fmt.Sprintf("%s/range %s#%d", c.FuncName(d), types.ExprString(rs.X), n)
			conditional := false
			for _, s := range rs.Body.List {
				switch s.(type) {
				case *ast.IfStmt, *ast.SwitchStmt, *ast.TypeSwitchStmt:
					conditional = true
				}
			}
			c.Check(!conditional || fallsThrough(rs.Body.List), rule, key, rs.Pos(), "the loop can reach a second element",
				"every path through the body of this loop leaves it: although the body tests each element, only the first element of "+types.ExprString(rs.X)+" is ever looked at")
			return true
		})
	}
}

// Q8 (C13): an expression may be written as any plain YAML scalar. yaml.v3 resolves an unquoted scalar to !!str, !!int,
// !!float or !!bool before UnmarshalExpression sees it; the computed field `gain: 2.5` and `gain: "2.5"` are the same
// expression text. The tag switch of UnmarshalExpression therefore parses all four scalar tags the same way.
func ruleExpressionScalarTags(c *core.Ctx) {
	const rule = "Q8"
	c.Rule(rule, "dsl.UnmarshalExpression: the dispatch on the node tag (switch, if-chain, predicate or table) sends !!str, !!int, !!float and !!bool alike to ParseExpression", 4)
	p := c.Pkg("pkg/dsl")
	_, d, _ := c.Func("pkg/dsl", "UnmarshalExpression")
	if p == nil || d == nil {
		c.Undecided(rule, "anchor/pkg/dsl.UnmarshalExpression", 0, "anchor not found")
		return
	}
	info := p.TypesInfo
	parses := map[string]bool{}
	for tag, actions := range tagActions(c, p, d) {
		for _, action := range actions {
			for _, st := range action {
				ast.Inspect(st, func(m ast.Node) bool {
					if ce, ok := m.(*ast.CallExpr); ok {
						if f := core.Callee(info, ce); f != nil && f.Name() == "ParseExpression" {
							parses[tag] = true
						}
					}
					return true
				})
			}
		}
	}
	for _, tag := range []string{"!!str", "!!int", "!!float", "!!bool"} {
		c.Check(parses[tag], rule, "UnmarshalExpression/"+tag, d.Pos(), "parsed as an expression",
			"a plain scalar that YAML resolves to "+tag+" is not parsed as an expression: `x: 2.5` is rejected while the quoted spelling of the same expression is accepted")
	}
}

// NR1 (C16): whether a step must be present depends on that step alone. The C++ NDJSON reader calls
// ReadProtocolValue(…, required, …): `required` is false only for stream steps, whose end is signalled by the absence of
// further lines. The generator prints it from `!step.IsStream()`; a value carried from one step of the loop to the next
// (a flag that stays false after the first stream) makes every later scalar step optional — a stream cut off before
// them reads as complete, with default values.
// S4 (C16): the generated Python context managers never swallow an exception: no emitted `__exit__` returns True.
func ruleRequiredPerStepAndExitPropagates(c *core.Ctx) {
	const ruleN, ruleS = "NR1", "S4"
	c.Rule(ruleN, "cpp/ndjson: the `required` argument emitted for ReadProtocolValue is `!step.IsStream()` of the step being printed", 1)
	c.Rule(ruleS, "python/protocols: no emission inside an emitted `__exit__` returns a true value", 1)
	n := 0
	for _, fn := range []string{"writeProtocolMethods", "WriteNdJson"} {
		rows, d := flatRows(c, "internal/cpp/ndjson", fn)
		if d == nil {
			continue
		}
		for _, r := range rows {
			if r.Kind != "emit" || !strings.Contains(r.Tmpl, "ReadProtocolValue(") || !strings.Contains(r.Tmpl, "%t") {
				continue
			}
			// the argument that fills %t
			verbs := regexp.MustCompile(`%[a-zA-Z]`).FindAllString(r.Tmpl, -1)
			idx := -1
			for i, v := range verbs {
				if v == "%t" {
					idx = i
				}
			}
			if idx < 0 || idx >= len(r.Args) {
				continue
			}
			n++
			a := strings.ReplaceAll(strings.ReplaceAll(r.Args[idx], " ", ""), "dsl.", "")
			ok := a == "!ProtocolStep.IsStream()" || a == "!(ProtocolStep.IsStream())"
			c.Check(ok, ruleN, fmt.Sprintf("%s/required#%d", fn, n), r.Pos, "`!step.IsStream()`",
				"the `required` argument is `"+r.Args[idx]+"`, not a function of the step being printed: a step after a stream can become optional, and a truncated file then reads as complete with fabricated default values")
		}
		if n > 0 {
			break
		}
	}
	if n == 0 {
		c.Undecided(ruleN, "anchor/ReadProtocolValue", 0, "the emission of ReadProtocolValue was not found in cpp/ndjson")
	}
	// S4
	m := 0
	defRe := regexp.MustCompile(`^\s*def\s+([\w%]+)\s*\(`)
	rows, d := flatRows(c, "internal/python/protocols", "WriteProtocols")
	if d == nil {
		c.Undecided(ruleS, "anchor/python/protocols.WriteProtocols", 0, "anchor not found")
		return
	}
	cur := ""
	for _, r := range rows {
		if r.Kind != "emit" {
			continue
		}
		for _, line := range strings.Split(r.Tmpl, "\n") {
			if mm := defRe.FindStringSubmatch(line); mm != nil {
				cur = mm[1]
				if cur == "__exit__" {
					m++
					c.OK(ruleS, fmt.Sprintf("__exit__#%d/found", m), r.Pos, "emitted __exit__")
				}
				continue
			}
			if cur == "__exit__" && regexp.MustCompile(`^\s*return\s+(True|1|not\s+False)\b`).MatchString(line) {
				c.Bad(ruleS, fmt.Sprintf("__exit__#%d/return True", m), r.Pos, "the emitted __exit__ returns True: the exception that ended the `with` block (EOFError on a truncated stream) is suppressed and the block completes normally")
			}
		}
	}
	if m == 0 {
		// the methods are printed through helpers / line tables: fall back to the functions whose string constants
		// mention `def __exit__` — none of their constants may return a true value
		pp := c.Pkg("internal/python/protocols")
		for _, fd := range c.AllDecls() {
			if c.DeclPkg(fd) != pp || fd.Body == nil {
				continue
			}
			mentions, returnsTrue := false, token.NoPos
			ast.Inspect(fd.Body, func(nn ast.Node) bool {
				if bl, ok := nn.(*ast.BasicLit); ok && bl.Kind == token.STRING {
					if tv, ok := pp.TypesInfo.Types[bl]; ok && tv.Value != nil && tv.Value.Kind() == constant.String {
						t := constant.StringVal(tv.Value)
						if strings.Contains(t, "def __exit__") {
							mentions = true
						}
						for _, line := range strings.Split(t, "\n") {
							if regexp.MustCompile(`^\s*return\s+(True|1|not\s+False)\b`).MatchString(line) {
								returnsTrue = bl.Pos()
							}
						}
					}
				}
				return true
			})
			if mentions {
				m++
				c.Check(returnsTrue == token.NoPos, ruleS, fmt.Sprintf("%s/__exit__ (by constants)", fd.Name.Name), fd.Pos(), "the function that prints __exit__ prints no `return True`",
					"the function that prints __exit__ also prints `return True`: an exception that ends the `with` block may be suppressed")
			}
		}
	}
	if m == 0 {
		c.Undecided(ruleS, "anchor/__exit__", d.Pos(), "no emitted __exit__ found")
	}
}

// UI2 (C14): the case index of a union goes on the wire unsigned. Python and MATLAB write the index as one unsigned
// byte / varint; the C++ generator prints `WriteInteger(stream, value.index())` — size_t, the unsigned overload — and
// reads into `size_t index`. An index carried in a signed type selects the zig-zag overload: index 1 becomes 0x02 and the
// other languages read case 2. In the emitted WriteUnion / ReadUnion the index argument of WriteInteger / ReadInteger is
// `value.index()` itself or a variable whose emitted declaration has an unsigned type.
func ruleUnionIndexUnsignedOnTheWire(c *core.Ctx) {
	const rule = "UI2"
	c.Rule(rule, "cpp/binary: inside the emitted WriteUnion/ReadUnion the argument of the first WriteInteger/ReadInteger is `value.index()` or a variable declared (in the emitted text) with an unsigned type", 2)
	p := c.Pkg("internal/cpp/binary")
	if p == nil {
		c.Undecided(rule, "anchor/internal/cpp/binary", 0, "package not loaded")
		return
	}
	info := p.TypesInfo
	declRe := regexp.MustCompile(`^\s*(?:const\s+)?((?:unsigned\s+)?[\w:]+(?:\s+const)?)\s+(\w+)\s*(?:=\s*(.*?))?;`)
	callRe := regexp.MustCompile(`(Write|Read)Integer\(\s*stream\s*,\s*(.*)\)\s*;`)
	unsignedType := func(t, init string) bool {
		t = strings.TrimSpace(strings.TrimSuffix(strings.TrimSpace(t), "const"))
		switch t {
		case "size_t", "std::size_t", "uint8_t", "uint16_t", "uint32_t", "uint64_t", "unsigned", "unsigned int", "unsigned long", "yardl::Size":
			return true
		case "auto":
			return strings.Contains(init, ".index()") && !regexp.MustCompile(`static_cast<\s*(int|long|int\d+_t|std::int\d+_t|ssize_t)\s*>`).MatchString(init)
		}
		return false
	}
	n := 0
	for _, d := range c.AllDecls() {
		if c.DeclPkg(d) != p || d.Body == nil {
			continue
		}
		var lines []struct {
			t   string
			pos token.Pos
		}
		ast.Inspect(d.Body, func(nn ast.Node) bool {
			if ce, ok := nn.(*ast.CallExpr); ok {
				if t, ok := emissionTemplate(info, ce); ok && t != "" {
					for _, l := range strings.Split(t, "\n") {
						if strings.TrimSpace(l) != "" {
							lines = append(lines, struct {
								t   string
								pos token.Pos
							}{l, ce.Pos()})
						}
					}
				}
			}
			return true
		})
		inUnion := ""
		decls := map[string][2]string{}
		checked := false
		for _, l := range lines {
			tl := strings.TrimSpace(l.t)
			if m := regexp.MustCompile(`^void\s+(Write|Read)Union\(`).FindStringSubmatch(tl); m != nil {
				inUnion, decls, checked = m[1], map[string][2]string{}, false
				continue
			}
			if inUnion == "" || checked {
				continue
			}
			if m := declRe.FindStringSubmatch(tl); m != nil && !strings.Contains(tl, "(stream") {
				decls[m[2]] = [2]string{m[1], m[3]}
			}
			if m := callRe.FindStringSubmatch(tl); m != nil && m[1] == inUnion {
				checked = true
				n++
				arg := strings.TrimSpace(m[2])
				key := fmt.Sprintf("%s/%sUnion index", c.FuncName(d), inUnion)
				ok := false
				why := "`" + arg + "`"
				if regexp.MustCompile(`^\w+\.index\(\)$`).MatchString(arg) {
					ok = true
				} else if dt, has := decls[arg]; has {
					ok = unsignedType(dt[0], dt[1])
					why = "`" + arg + "`, declared as `" + dt[0] + "`"
				}
				c.Check(ok, rule, key, l.pos, "the index travels as an unsigned integer: "+why,
					"the union index handed to "+m[1]+"Integer is "+why+", not an unsigned value: the signed overload zig-zag encodes it and the bytes no longer match what Python and MATLAB write and expect")
			}
		}
	}
	if n == 0 {
		c.Undecided(rule, "anchor/WriteUnion", 0, "the emitted WriteUnion / ReadUnion were not found in cpp/binary")
	}
}

// containsContinue: a `continue` that belongs to the enclosing loop (not to a loop nested in n).
func containsContinue(n ast.Node) bool {
	found := false
	ast.Inspect(n, func(m ast.Node) bool {
		switch x := m.(type) {
		case *ast.ForStmt, *ast.RangeStmt, *ast.FuncLit:
			if m != n {
				return false
			}
		case *ast.BranchStmt:
			if x.Tok == token.CONTINUE {
				found = true
			}
		}
		return !found
	})
	return found
}

// P4n (C10): nil is a value too. A type switch over an interface whose default clause aborts is exhaustive (rule P4)
// only for the dynamic types; a nil interface value goes to the default as well. Where the switched variable was last
// assigned from a function of the module that can return nil (a `return nil` statement, or a `case nil:` clause of
// its own — dsl.GetUnderlyingType returns the single case of a one-case union, which is nil for `[null]`), the switch
// has a `case nil` clause or a nil test of the variable stands between the assignment and the switch.
func ruleNilReachesNoAbortingDefault(c *core.Ctx) {
	const rule = "P4n"
	c.Rule(rule, "pkg/dsl: a type switch with an aborting default, over a variable last assigned from a module function that can return nil, has a `case nil` or is preceded by a nil test of that variable", 1)
	p := c.Pkg("pkg/dsl")
	if p == nil {
		c.Undecided(rule, "anchor/pkg/dsl", 0, "package not loaded")
		return
	}
	info := p.TypesInfo
	canReturnNil := map[*types.Func]bool{}
	mayBeNil := func(f *types.Func) bool {
		f = f.Origin()
		if v, ok := canReturnNil[f]; ok {
			return v
		}
		canReturnNil[f] = false
		d := c.Decl(f)
		if d == nil || d.Body == nil {
			return false
		}
		sig := f.Type().(*types.Signature)
		if sig.Results().Len() != 1 {
			return false
		}
		if _, isIface := sig.Results().At(0).Type().Underlying().(*types.Interface); !isIface {
			return false
		}
		res := false
		ast.Inspect(d.Body, func(nn ast.Node) bool {
			switch x := nn.(type) {
			case *ast.FuncLit:
				return false
			case *ast.ReturnStmt:
				if len(x.Results) == 1 && isNilIdent(x.Results[0]) {
					res = true
				}
			}
			return true
		})
		canReturnNil[f] = res
		return res
	}
	n, scanned := 0, 0
	for _, d := range c.AllDecls() {
		if c.DeclPkg(d) != p || d.Body == nil || c.IsTestFile(d.Pos()) {
			continue
		}
		ast.Inspect(d.Body, func(nn ast.Node) bool {
			ts, ok := nn.(*ast.TypeSwitchStmt)
			if !ok {
				return true
			}
			var subj ast.Expr
			switch a := ts.Assign.(type) {
			case *ast.AssignStmt:
				subj = a.Rhs[0].(*ast.TypeAssertExpr).X
			case *ast.ExprStmt:
				subj = a.X.(*ast.TypeAssertExpr).X
			}
			sobj := identObj(info, subj)
			var direct *types.Func
			if sobj == nil {
				// `switch t := F(x).(type)`: the call itself is the subject
				if ce, ok := ast.Unparen(subj).(*ast.CallExpr); ok {
					if f := core.Callee(info, ce); f != nil && core.InModule(f) && mayBeNil(f) {
						direct = f
					}
				}
				if direct == nil {
					return true
				}
			}
			hasNil, abortingDefault := false, false
			for _, cl := range ts.Body.List {
				cc := cl.(*ast.CaseClause)
				for _, e := range cc.List {
					if isNilIdent(e) {
						hasNil = true
					}
				}
				if cc.List == nil {
					for _, s := range cc.Body {
						if es, ok := s.(*ast.ExprStmt); ok {
							if ce, ok := es.X.(*ast.CallExpr); ok && core.NoReturn(info, ce) {
								abortingDefault = true
							}
						}
					}
				}
			}
			if !abortingDefault {
				return true
			}
			scanned++
			if direct != nil {
				n++
				c.Check(hasNil, rule, fmt.Sprintf("%s/switch %s.(type)#%d", c.FuncName(d), types.ExprString(subj), n), ts.Pos(), "`case nil` present",
					fmt.Sprintf("the type switch is over the result of %s, which can return nil, and has no `case nil`: a nil result reaches the aborting default", direct.Name()))
				return true
			}
			// the last assignment to the subject in front of the switch
			var lastRhs ast.Expr
			lastPos := token.NoPos
			ast.Inspect(d.Body, func(m ast.Node) bool {
				as, ok := m.(*ast.AssignStmt)
				if !ok || as.Pos() >= ts.Pos() || len(as.Lhs) != len(as.Rhs) {
					return true
				}
				for i, l := range as.Lhs {
					if identObj(info, l) == sobj && as.Pos() > lastPos {
						lastPos, lastRhs = as.Pos(), as.Rhs[i]
					}
				}
				return true
			})
			ce, ok := ast.Unparen(lastRhs).(*ast.CallExpr)
			if lastRhs == nil || !ok {
				return true
			}
			f := core.Callee(info, ce)
			if f == nil || !core.InModule(f) || !mayBeNil(f) {
				return true
			}
			n++
			key := fmt.Sprintf("%s/switch %s.(type)#%d", c.FuncName(d), types.ExprString(subj), n)
			tested := false
			ast.Inspect(d.Body, func(m ast.Node) bool {
				be, ok := m.(*ast.BinaryExpr)
				if !ok || be.Pos() <= lastPos || be.Pos() >= ts.Pos() || (be.Op != token.EQL && be.Op != token.NEQ) {
					return true
				}
				if isNilIdent(be.Y) && identObj(info, be.X) == sobj || isNilIdent(be.X) && identObj(info, be.Y) == sobj {
					tested = true
				}
				return true
			})
			c.Check(hasNil || tested, rule, key, ts.Pos(), "nil is handled in front of the aborting default",
				fmt.Sprintf("`%s` was last assigned from %s, which can return nil, and the type switch has neither a `case nil` nor a nil test in front of it: a nil value reaches the aborting default and yardl panics instead of reporting an error", types.ExprString(subj), f.Name()))
			return true
		})
	}
	// the rule is about the absence of a construct: what keeps it alive is the number of aborting type switches looked at
	if scanned >= 10 {
		c.OK(rule, "anchor/type switches scanned", 0, fmt.Sprintf("%d type switches with an aborting default scanned, %d over the result of a nil-returning function", scanned, n))
	} else {
		c.Undecided(rule, "anchor/type switches scanned", 0, fmt.Sprintf("only %d type switches with an aborting default found in pkg/dsl", scanned))
	}
}

// P4f (C10): the nil-able fields. TypeCase.Type is nil for the null case, GeneralizedType.Dimensionality for a scalar,
// SimpleType.ResolvedDefinition for a reference that did not resolve, EnumDefinition.BaseType when no base is given. A
// type switch directly over one of these fields (or a local that is its only definition) whose default aborts has a
// `case nil`, or the function has tested that expression against nil in front of the switch.
func ruleNilableFieldsBeforeAbortingDefault(c *core.Ctx) {
	const rule = "P4f"
	c.Rule(rule, "module: a type switch with an aborting default directly over TypeCase.Type / GeneralizedType.Dimensionality / SimpleType.ResolvedDefinition / EnumDefinition.BaseType has a `case nil` or follows a nil test of that expression", 5)
	nilable := map[string]bool{"TypeCase.Type": true, "GeneralizedType.Dimensionality": true, "SimpleType.ResolvedDefinition": true, "EnumDefinition.BaseType": true}
	for _, d := range c.AllDecls() {
		p := c.DeclPkg(d)
		if p == nil || d.Body == nil || c.IsTestFile(d.Pos()) || !strings.HasPrefix(p.PkgPath, core.Mod) {
			continue
		}
		info := p.TypesInfo
		n := 0
		ast.Inspect(d.Body, func(nn ast.Node) bool {
			ts, ok := nn.(*ast.TypeSwitchStmt)
			if !ok {
				return true
			}
			var subj ast.Expr
			switch a := ts.Assign.(type) {
			case *ast.AssignStmt:
				subj = a.Rhs[0].(*ast.TypeAssertExpr).X
			case *ast.ExprStmt:
				subj = a.X.(*ast.TypeAssertExpr).X
			}
			e := ast.Unparen(subj)
			if id, ok := e.(*ast.Ident); ok {
				if r := singleDefRHS(info, d.Body, id); r != ast.Expr(id) {
					e = ast.Unparen(r)
				}
			}
			se, ok := e.(*ast.SelectorExpr)
			if !ok {
				return true
			}
			k, ok := fieldOf(info, se)
			if !ok || !nilable[k.typ+"."+k.field] {
				return true
			}
			hasNil, aborting := false, false
			for _, cl := range ts.Body.List {
				cc := cl.(*ast.CaseClause)
				for _, x := range cc.List {
					if isNilIdent(x) {
						hasNil = true
					}
				}
				if cc.List == nil {
					for _, s := range cc.Body {
						if es, ok := s.(*ast.ExprStmt); ok {
							if ce, ok := es.X.(*ast.CallExpr); ok && core.NoReturn(info, ce) {
								aborting = true
							}
						}
					}
				}
			}
			if !aborting {
				return true
			}
			n++
			key := fmt.Sprintf("%s/switch %s.(type)#%d", c.FuncName(d), types.ExprString(subj), n)
			tested := false
			want := types.ExprString(se)
			ast.Inspect(d.Body, func(m ast.Node) bool {
				be, ok := m.(*ast.BinaryExpr)
				if !ok || be.Pos() >= ts.Pos() || (be.Op != token.EQL && be.Op != token.NEQ) {
					return true
				}
				if isNilIdent(be.Y) && (types.ExprString(ast.Unparen(be.X)) == want || types.ExprString(ast.Unparen(be.X)) == types.ExprString(subj)) {
					tested = true
				}
				return true
			})
			if !hasNil && !tested && k.typ+"."+k.field == "SimpleType.ResolvedDefinition" && strings.Contains(p.PkgPath, "/internal/") && !strings.HasSuffix(p.PkgPath, "/internal/cmd") {
				// the back ends run on a validated environment only (rule W1); resolveTypes reports every reference it cannot resolve
				c.OK(rule, key, ts.Pos(), "back end: every reference of a validated environment is resolved (rules W1, P0)")
				return true
			}
			c.Check(hasNil || tested, rule, key, ts.Pos(), "nil is handled",
				fmt.Sprintf("`%s` (%s.%s) can be nil and the type switch over it has an aborting default, no `case nil` and no nil test in front of it", types.ExprString(subj), k.typ, k.field))
			return true
		})
	}
}

// ruleSameNodeRecursionDiscriminated (RC1): recursion in the YAML front end terminates because every recursive call
// descends to a child node — except where a function hands ITS OWN node to a function that can hand the same node
// back. Such a cycle ends only if the conditions along it contradict one another on that one node. The conditions
// are conjunctions of `node.F ==/!= constant` atoms collected from the enclosing switch cases, if-branches and the
// early exits in front of each call; a cycle whose atoms are jointly satisfiable is an unbounded recursion for the
// document that satisfies them (a scalar tagged `!!seq` was one: the tag sent it to UnmarshalTypeCases, whose test
// of the node KIND sent it back).
func ruleSameNodeRecursionDiscriminated(c *core.Ctx) {
	const rule = "RC1"
	c.Rule(rule, "pkg/dsl: a cycle of calls that pass one *yaml.Node unchanged carries contradictory conditions on that node (Kind/Tag atoms from the enclosing cases, branches and early exits), so it cannot be taken twice", 1)
	p := c.Pkg("pkg/dsl")
	if p == nil {
		c.Undecided(rule, "anchor/pkg/dsl", 0, "package not loaded")
		return
	}
	info := p.TypesInfo
	isNode := func(t types.Type) bool {
		pt, ok := t.(*types.Pointer)
		if !ok {
			return false
		}
		n, ok := pt.Elem().(*types.Named)
		return ok && n.Obj().Name() == "Node" && n.Obj().Pkg() != nil && strings.HasSuffix(n.Obj().Pkg().Path(), "yaml.v3")
	}
	type atom struct {
		field, val string
		eq         bool
	}
	type edge struct {
		from, to *types.Func
		atoms    []atom
		pos      token.Pos
	}
	// atoms of a condition over node parameter obj; neg: the condition is known false
	var condAtoms func(e ast.Expr, obj types.Object, neg bool) []atom
	condAtoms = func(e ast.Expr, obj types.Object, neg bool) []atom {
		e = ast.Unparen(e)
		switch x := e.(type) {
		case *ast.UnaryExpr:
			if x.Op == token.NOT {
				return condAtoms(x.X, obj, !neg)
			}
		case *ast.BinaryExpr:
			switch x.Op {
			case token.LAND:
				if !neg {
					return append(condAtoms(x.X, obj, false), condAtoms(x.Y, obj, false)...)
				}
			case token.LOR:
				if neg {
					return append(condAtoms(x.X, obj, true), condAtoms(x.Y, obj, true)...)
				}
			case token.EQL, token.NEQ:
				l, r := ast.Unparen(x.X), ast.Unparen(x.Y)
				if _, ok := l.(*ast.SelectorExpr); !ok {
					l, r = r, l
				}
				se, ok := l.(*ast.SelectorExpr)
				if !ok || identObj(info, se.X) != obj {
					return nil
				}
				tv, ok := info.Types[r]
				if !ok || tv.Value == nil {
					return nil
				}
				return []atom{{se.Sel.Name, tv.Value.ExactString(), (x.Op == token.EQL) != neg}}
			}
		}
		return nil
	}
	var edges []edge
	funcs := 0
	for _, d := range c.AllDecls() {
		if c.DeclPkg(d) != p || d.Body == nil {
			continue
		}
		fn, _ := info.Defs[d.Name].(*types.Func)
		if fn == nil {
			continue
		}
		var params []types.Object
		for _, f := range d.Type.Params.List {
			for _, n := range f.Names {
				if o := info.Defs[n]; o != nil && isNode(o.Type()) {
					params = append(params, o)
				}
			}
		}
		if len(params) == 0 {
			continue
		}
		funcs++
		// is the parameter ever re-assigned? then it no longer names the caller's node
		reassigned := map[types.Object]bool{}
		ast.Inspect(d.Body, func(n ast.Node) bool {
			if as, ok := n.(*ast.AssignStmt); ok {
				for _, l := range as.Lhs {
					if o := identObj(info, l); o != nil {
						reassigned[o] = true
					}
				}
			}
			return true
		})
		var walk func(list []ast.Stmt, ctx []atom)
		var visit func(s ast.Stmt, ctx []atom)
		scanCalls := func(n ast.Node, ctx []atom) {
			ast.Inspect(n, func(m ast.Node) bool {
				switch m.(type) {
				case *ast.FuncLit:
					return false
				}
				ce, ok := m.(*ast.CallExpr)
				if !ok {
					return true
				}
				var callee *types.Func
				var passed types.Object
				if f := core.Callee(info, ce); f != nil && core.InModule(f) {
					for _, a := range ce.Args {
						if o := identObj(info, a); o != nil && !reassigned[o] {
							for _, po := range params {
								if po == o {
									callee, passed = f, o
								}
							}
						}
					}
				} else if se, ok := ce.Fun.(*ast.SelectorExpr); ok && strings.HasPrefix(se.Sel.Name, "Decode") && len(ce.Args) >= 1 {
					// node.Decode(x) runs x's UnmarshalYAML on the same node
					if o := identObj(info, se.X); o != nil && !reassigned[o] {
						for _, po := range params {
							if po == o {
								if tv, ok := info.Types[ce.Args[0]]; ok {
									ms := types.NewMethodSet(tv.Type)
									for i := 0; i < ms.Len(); i++ {
										if m := ms.At(i).Obj(); m.Name() == "UnmarshalYAML" {
											if f, ok := m.(*types.Func); ok && core.InModule(f) {
												callee, passed = f, o
											}
										}
									}
								}
							}
						}
					}
				}
				if callee == nil {
					return true
				}
				var mine []atom
				for _, a := range ctx {
					mine = append(mine, a)
				}
				_ = passed
				edges = append(edges, edge{fn, callee, mine, ce.Pos()})
				return true
			})
		}
		visit = func(s ast.Stmt, ctx []atom) {
			switch x := s.(type) {
			case *ast.BlockStmt:
				walk(x.List, ctx)
			case *ast.IfStmt:
				if x.Init != nil {
					scanCalls(x.Init, ctx)
				}
				scanCalls(x.Cond, ctx)
				var pos, neg []atom
				for _, po := range params {
					pos = append(pos, condAtoms(x.Cond, po, false)...)
					neg = append(neg, condAtoms(x.Cond, po, true)...)
				}
				walk(x.Body.List, append(append([]atom{}, ctx...), pos...))
				if x.Else != nil {
					visit(x.Else, append(append([]atom{}, ctx...), neg...))
				}
			case *ast.SwitchStmt:
				if x.Init != nil {
					scanCalls(x.Init, ctx)
				}
				var field string
				if se, ok := ast.Unparen(x.Tag).(*ast.SelectorExpr); ok && x.Tag != nil {
					for _, po := range params {
						if identObj(info, se.X) == po {
							field = se.Sel.Name
						}
					}
				}
				var all []string
				for _, cl := range x.Body.List {
					for _, v := range cl.(*ast.CaseClause).List {
						if tv, ok := info.Types[v]; ok && tv.Value != nil {
							all = append(all, tv.Value.ExactString())
						}
					}
				}
				for _, cl := range x.Body.List {
					cc := cl.(*ast.CaseClause)
					inner := append([]atom{}, ctx...)
					if field != "" {
						if cc.List == nil {
							for _, v := range all {
								inner = append(inner, atom{field, v, false})
							}
						} else if len(cc.List) == 1 {
							if tv, ok := info.Types[cc.List[0]]; ok && tv.Value != nil {
								inner = append(inner, atom{field, tv.Value.ExactString(), true})
							}
						}
					} else if x.Tag == nil && len(cc.List) == 1 {
						for _, po := range params {
							inner = append(inner, condAtoms(cc.List[0], po, false)...)
						}
					}
					walk(cc.Body, inner)
				}
			case *ast.ForStmt:
				walk(x.Body.List, ctx)
			case *ast.RangeStmt:
				scanCalls(x.X, ctx)
				walk(x.Body.List, ctx)
			case *ast.TypeSwitchStmt:
				for _, cl := range x.Body.List {
					walk(cl.(*ast.CaseClause).Body, ctx)
				}
			case *ast.LabeledStmt:
				visit(x.Stmt, ctx)
			default:
				scanCalls(s, ctx)
			}
		}
		walk = func(list []ast.Stmt, ctx []atom) {
			cur := append([]atom{}, ctx...)
			for _, s := range list {
				visit(s, cur)
				// an early exit: what follows runs only when its condition was false
				if is, ok := s.(*ast.IfStmt); ok && is.Else == nil && stmtLeaves(is.Body) {
					for _, po := range params {
						cur = append(cur, condAtoms(is.Cond, po, true)...)
					}
				}
			}
		}
		walk(d.Body.List, nil)
	}
	c.Check(funcs >= 15, rule, "anchor/functions taking a *yaml.Node", p.Syntax[0].Pos(), fmt.Sprintf("%d functions scanned, %d calls pass the function's own node on", funcs, len(edges)),
		fmt.Sprintf("only %d functions of pkg/dsl take a *yaml.Node: the rule no longer sees the front end", funcs))
	sat := func(as []atom) bool {
		eqs := map[string]map[string]bool{}
		for _, a := range as {
			if a.eq {
				if eqs[a.field] == nil {
					eqs[a.field] = map[string]bool{}
				}
				eqs[a.field][a.val] = true
			}
		}
		for f, vs := range eqs {
			if len(vs) > 1 {
				return false
			}
			_ = f
		}
		for _, a := range as {
			if !a.eq && eqs[a.field][a.val] {
				return false
			}
		}
		return true
	}
	str := func(as []atom) string {
		var parts []string
		seen := map[string]bool{}
		for _, a := range as {
			op := "!="
			if a.eq {
				op = "=="
			}
			s := fmt.Sprintf("%s%s%s", a.field, op, a.val)
			if !seen[s] {
				seen[s] = true
				parts = append(parts, s)
			}
		}
		if len(parts) == 0 {
			return "(no condition)"
		}
		return strings.Join(parts, " && ")
	}
	out := map[*types.Func][]int{}
	for i, e := range edges {
		out[e.from] = append(out[e.from], i)
	}
	// enumerate simple cycles of at most four same-node calls, each reported once from its smallest edge
	reported := map[string]bool{}
	var dfs func(start *types.Func, at *types.Func, path []int)
	dfs = func(start, at *types.Func, path []int) {
		if len(path) > 4 {
			return
		}
		for _, ei := range out[at] {
			e := edges[ei]
			dup := false
			for _, pi := range path {
				if pi == ei || (edges[pi].from == e.to && e.to != start) {
					dup = true
				}
			}
			if dup {
				continue
			}
			np := append(append([]int{}, path...), ei)
			if e.to == start {
				min := np[0]
				for _, x := range np {
					if x < min {
						min = x
					}
				}
				if min != np[0] {
					continue
				}
				var names []string
				var all []atom
				for _, x := range np {
					names = append(names, edges[x].from.Name())
					all = append(all, edges[x].atoms...)
				}
				key := strings.Join(names, "->") + "->" + start.Name()
				n := 1
				for reported[key] {
					n++
					key = fmt.Sprintf("%s->%s#%d", strings.Join(names, "->"), start.Name(), n)
				}
				reported[key] = true
				c.Check(!sat(all), rule, key, edges[np[0]].pos, "the conditions along the cycle contradict one another: "+str(all),
					fmt.Sprintf("the same node goes round this cycle whenever %s — nothing on the way excludes it, so such a document recurses until the stack overflows", str(all)))
				continue
			}
			dfs(start, e.to, np)
		}
	}
	var starts []*types.Func
	for f := range out {
		starts = append(starts, f)
	}
	sort.Slice(starts, func(i, j int) bool { return starts[i].FullName() < starts[j].FullName() })
	for _, f := range starts {
		dfs(f, f, nil)
	}
}

// ruleEveryReturnedDirectoryIsWatched (T11): generateInWatchMode returns the directories the output depends on besides
// the package directory (imports, previous versions). Each of them has to reach Watcher.Add: the only tests that may
// stand between the result and the Add are "is there a result" (nil / empty) and per-directory tests on the loop
// variable. A test that compares the result with something else — its length with the length of the watch list — lets
// a regeneration leave a directory unwatched, and edits there no longer regenerate (fix 5d27e53: with one import,
// `len(dirs) > len(w.WatchList())` was 1 > 1).
func ruleEveryReturnedDirectoryIsWatched(c *core.Ctx) {
	const rule = "T11"
	c.Rule(rule, "internal/cmd: between the result of generateInWatchMode and the Watcher.Add of its elements stand only nil/emptiness tests of the result and tests of the single directory — no comparison of the result with the watch list or any other quantity", 1)
	giw, _, _ := c.Func("internal/cmd", "generateInWatchMode")
	if giw == nil {
		c.Undecided(rule, "anchor/internal/cmd.generateInWatchMode", 0, "anchor function not found")
		return
	}
	n := 0
	isAdd := func(info *types.Info, ce *ast.CallExpr) bool {
		g := core.Callee(info, ce)
		return g != nil && strings.HasSuffix(core.FullName(g), "fsnotify.Watcher).Add") && len(ce.Args) == 1
	}
	// judge: inside body, `holder` holds the result; report every Add of an element of it
	var encl *ast.BlockStmt // body of the declaration under analysis: where local closures are defined
	var judge func(owner string, info *types.Info, body *ast.BlockStmt, holder types.Object, outer []ast.Expr, depth int)
	judge = func(owner string, info *types.Info, body *ast.BlockStmt, holder types.Object, outer []ast.Expr, depth int) {
		mentions := func(e ast.Node, o types.Object) bool {
			hit := false
			ast.Inspect(e, func(m ast.Node) bool {
				if id, ok := m.(*ast.Ident); ok && info.ObjectOf(id) == o {
					hit = true
				}
				return !hit
			})
			return hit
		}
		mentionsWatchList := func(e ast.Node) bool {
			hit := false
			ast.Inspect(e, func(m ast.Node) bool {
				if ce, ok := m.(*ast.CallExpr); ok {
					if g := core.Callee(info, ce); g != nil && strings.HasSuffix(core.FullName(g), "fsnotify.Watcher).WatchList") {
						hit = true
					}
				}
				return !hit
			})
			return hit
		}
		// a leaf comparison about the result that is allowed
		var badLeaf func(e ast.Expr, elem types.Object) ast.Expr
		badLeaf = func(e ast.Expr, elem types.Object) ast.Expr {
			e = ast.Unparen(e)
			switch x := e.(type) {
			case *ast.UnaryExpr:
				if x.Op == token.NOT {
					return badLeaf(x.X, elem)
				}
			case *ast.BinaryExpr:
				if x.Op == token.LAND || x.Op == token.LOR {
					if b := badLeaf(x.X, elem); b != nil {
						return b
					}
					return badLeaf(x.Y, elem)
				}
			}
			if !mentions(e, holder) && !mentionsWatchList(e) {
				return nil // about something else (an error, a flag)
			}
			if elem != nil && mentions(e, elem) && !mentions(e, holder) {
				return nil // a test of the single directory (is it watched already?)
			}
			if be, ok := e.(*ast.BinaryExpr); ok {
				l, r := ast.Unparen(be.X), ast.Unparen(be.Y)
				if (isNilIdent(r) && identObj(info, l) == holder) || (isNilIdent(l) && identObj(info, r) == holder) {
					return nil
				}
				for _, pr := range [][2]ast.Expr{{l, r}, {r, l}} {
					if a, isLen := lenArg(info, pr[0]); isLen && identObj(info, a) == holder {
						if v, isC := constInt(info, pr[1]); isC && v == 0 {
							return nil
						}
					}
				}
			}
			return e
		}
		// path of enclosing nodes for each Add / helper call
		var stack []ast.Node
		ast.Inspect(body, func(m ast.Node) bool {
			if m == nil {
				stack = stack[:len(stack)-1]
				return true
			}
			stack = append(stack, m)
			ce, ok := m.(*ast.CallExpr)
			if !ok {
				return true
			}
			// the element variable: range value over the holder enclosing this call
			var elem types.Object
			var conds []ast.Expr
			conds = append(conds, outer...)
			for i, s := range stack {
				switch x := s.(type) {
				case *ast.RangeStmt:
					if identObj(info, x.X) == holder {
						if o := identObj(info, x.Value); o != nil {
							elem = o
						}
					}
				case *ast.IfStmt:
					if i+1 < len(stack) && (stack[i+1] == ast.Node(x.Body) || (x.Else != nil && stack[i+1] == ast.Node(x.Else))) {
						conds = append(conds, x.Cond)
					}
				case *ast.BlockStmt:
					// early exits in front of the statement that holds the call
					if i+1 < len(stack) {
						for _, st := range x.List {
							if ast.Node(st) == stack[i+1] {
								break
							}
							if is, ok := st.(*ast.IfStmt); ok && is.Else == nil && stmtLeaves(is.Body) {
								conds = append(conds, is.Cond)
							}
						}
					}
				case *ast.CaseClause:
					if i+1 < len(stack) {
						for _, e := range x.List {
							conds = append(conds, e)
						}
					}
				}
			}
			if isAdd(info, ce) {
				arg := ast.Unparen(ce.Args[0])
				fromResult := (elem != nil && identObj(info, arg) == elem)
				if ix, ok := arg.(*ast.IndexExpr); ok && identObj(info, ix.X) == holder {
					fromResult = true
				}
				if !fromResult {
					return true
				}
				n++
				key := fmt.Sprintf("%s/Add(%s)#%d", owner, types.ExprString(arg), n)
				var bad ast.Expr
				for _, cd := range conds {
					if b := badLeaf(cd, elem); b != nil && bad == nil {
						bad = b
					}
				}
				if bad != nil {
					c.Bad(rule, key, ce.Pos(), fmt.Sprintf("the directories returned by the regeneration are added to the watcher only when `%s`: a regeneration for which the test fails leaves an imported package (or a previous version) unwatched, and edits there no longer regenerate the output", types.ExprString(bad)))
				} else {
					c.OK(rule, key, ce.Pos(), "every returned directory reaches Watcher.Add (only nil/emptiness and per-directory tests on the way)")
				}
				return true
			}
			// a local closure that receives the result (`watchAll := func(dirs []string) error {...}`)
			if depth < 2 {
				if id, isID := ast.Unparen(ce.Fun).(*ast.Ident); isID && core.Callee(info, ce) == nil && encl != nil {
					if fl, isLit := ast.Unparen(singleDefRHS(info, encl, id)).(*ast.FuncLit); isLit {
						var ps []types.Object
						for _, fld := range fl.Type.Params.List {
							for _, nm := range fld.Names {
								ps = append(ps, info.Defs[nm])
							}
						}
						for ai, a := range ce.Args {
							if identObj(info, a) != holder || ai >= len(ps) || ps[ai] == nil {
								continue
							}
							var mine []ast.Expr
							for _, cd := range conds {
								if badLeaf(cd, elem) != nil {
									mine = append(mine, cd)
								}
							}
							if len(mine) > 0 {
								n++
								c.Bad(rule, fmt.Sprintf("%s/%s(%s)#%d", owner, id.Name, types.ExprString(a), n), ce.Pos(), fmt.Sprintf("the result reaches %s only when `%s`: a regeneration for which the test fails leaves a directory unwatched", id.Name, types.ExprString(mine[0])))
							} else {
								judge(owner+"/"+id.Name, info, fl.Body, ps[ai], nil, depth+1)
							}
						}
					}
				}
			}
			// a helper of the package that receives the result
			if depth < 2 {
				if f := core.Callee(info, ce); f != nil && core.InModule(f) && f.Origin() != giw {
					for ai, a := range ce.Args {
						if identObj(info, a) != holder {
							continue
						}
						fd := c.Decl(f.Origin())
						if fd == nil || fd.Body == nil {
							continue
						}
						hp := c.DeclPkg(fd)
						ps := paramObjs(hp.TypesInfo, fd)
						if ai < len(ps) && ps[ai] != nil {
							var mine []ast.Expr
							for _, cd := range conds {
								if badLeaf(cd, elem) != nil {
									// a bad test around the call of the helper: reported at the helper's Adds, in the caller's terms
									mine = append(mine, cd)
								}
							}
							if len(mine) > 0 {
								n++
								c.Bad(rule, fmt.Sprintf("%s/%s(%s)#%d", owner, f.Name(), types.ExprString(a), n), ce.Pos(), fmt.Sprintf("the result reaches %s only when `%s`: a regeneration for which the test fails leaves a directory unwatched", f.Name(), types.ExprString(mine[0])))
							} else {
								judge(c.FuncName(fd), hp.TypesInfo, fd.Body, ps[ai], nil, depth+1)
							}
						}
					}
				}
			}
			return true
		})
	}
	for _, d := range c.AllDecls() {
		p := c.DeclPkg(d)
		if p == nil || p.PkgPath != core.Mod+"/internal/cmd" || d.Body == nil || c.IsTestFile(d.Pos()) {
			continue
		}
		info := p.TypesInfo
		ast.Inspect(d.Body, func(nn ast.Node) bool {
			as, ok := nn.(*ast.AssignStmt)
			if !ok || len(as.Lhs) != 1 || len(as.Rhs) != 1 {
				return true
			}
			ce, ok := ast.Unparen(as.Rhs[0]).(*ast.CallExpr)
			if !ok {
				return true
			}
			if f := core.Callee(info, ce); f == nil || f.Origin() != giw {
				return true
			}
			holder := identObj(info, as.Lhs[0])
			if holder == nil {
				return true
			}
			// the innermost function body (declaration or literal) that holds the assignment
			var body *ast.BlockStmt = d.Body
			ast.Inspect(d.Body, func(m ast.Node) bool {
				if fl, ok := m.(*ast.FuncLit); ok && fl.Body.Pos() <= as.Pos() && as.End() <= fl.Body.End() {
					body = fl.Body
				}
				return true
			})
			encl = d.Body
			judge(c.FuncName(d), info, body, holder, nil, 0)
			return true
		})
	}
	if n == 0 {
		c.Undecided(rule, "anchor/Watcher.Add of the result", 0, "no Watcher.Add of an element of generateInWatchMode's result found in internal/cmd")
	}
}

// ruleAliasNameOnlyForTheAliasedUnion (UN1): the Python back end calls a union class after its members
// (`Int32OrFloat32`) — except for an alias that IS a union, whose class carries the alias name. Every other place of
// the generator (type syntax, serializers, converters, imports) follows that convention by looking at the type the
// alias names. A site that walks a definition and renames EVERY union it meets below a NamedType breaks it: a union
// given as a type argument of the aliased type is emitted under the alias name, the alias itself is skipped as
// "already written", and the module refers to a class that does not exist (fix 06a4a33: import failed).
// Rule: inside a Visit callback, the enclosing definition's name is assigned to a variable only under a test that
// identifies the visited node with the definition's own type (`nt.Type == node`).
func ruleAliasNameOnlyForTheAliasedUnion(c *core.Ctx) {
	const rule = "UN1"
	c.Rule(rule, "internal/python, internal/matlab: inside a traversal of a type definition, a union met on the way takes the NAME of the definition only under a test `definition.Type == node` — not merely because the definition is a NamedType", 2)
	perFunc := map[string]int{}
	n := 0
	for _, d := range c.AllDecls() {
		p := c.DeclPkg(d)
		if p == nil || !(strings.HasPrefix(p.PkgPath, core.Mod+"/internal/python") || strings.HasPrefix(p.PkgPath, core.Mod+"/internal/matlab")) || d.Body == nil || c.IsTestFile(d.Pos()) {
			continue
		}
		info := p.TypesInfo
		ast.Inspect(d.Body, func(nn ast.Node) bool {
			ce, ok := nn.(*ast.CallExpr)
			if !ok {
				return true
			}
			f := core.Callee(info, ce)
			if f == nil || f.Pkg() == nil || f.Pkg().Path() != core.Mod+"/pkg/dsl" || !strings.HasPrefix(f.Name(), "Visit") || len(ce.Args) < 2 {
				return true
			}
			root := identObj(info, ce.Args[0])
			var lit *ast.FuncLit
			for _, a := range ce.Args {
				if fl, ok := ast.Unparen(a).(*ast.FuncLit); ok {
					lit = fl
				}
			}
			if root == nil || lit == nil {
				return true
			}
			// variables that stand for the traversed definition: the root itself and `nt, ok := root.(*dsl.NamedType)`
			defs := map[types.Object]bool{root: true}
			ast.Inspect(d.Body, func(m ast.Node) bool {
				if as, ok := m.(*ast.AssignStmt); ok && len(as.Rhs) == 1 {
					if ta, ok := ast.Unparen(as.Rhs[0]).(*ast.TypeAssertExpr); ok && defs[identObj(info, ta.X)] {
						if o := identObj(info, as.Lhs[0]); o != nil {
							defs[o] = true
						}
					}
				}
				return true
			})
			isDefName := func(e ast.Expr) bool {
				// root.GetDefinitionMeta().Name / nt.Name / nt.GetDefinitionMeta().Name
				se, ok := ast.Unparen(e).(*ast.SelectorExpr)
				if !ok || se.Sel.Name != "Name" {
					return false
				}
				x := ast.Unparen(se.X)
				if call, ok := x.(*ast.CallExpr); ok {
					if s2, ok := ast.Unparen(call.Fun).(*ast.SelectorExpr); ok && s2.Sel.Name == "GetDefinitionMeta" {
						x = ast.Unparen(s2.X)
					}
				}
				return defs[identObj(info, x)]
			}
			// all right-hand sides of a boolean local
			boolDefs := map[types.Object][]ast.Expr{}
			ast.Inspect(d.Body, func(m ast.Node) bool {
				if as, ok := m.(*ast.AssignStmt); ok {
					for i, l := range as.Lhs {
						if o := identObj(info, l); o != nil && isBoolType(o.Type()) {
							if len(as.Rhs) == len(as.Lhs) {
								boolDefs[o] = append(boolDefs[o], as.Rhs[i])
							}
						}
					}
				}
				return true
			})
			var comparesOwnType func(e ast.Expr, depth int) bool
			comparesOwnType = func(e ast.Expr, depth int) bool {
				hit := false
				ast.Inspect(e, func(m ast.Node) bool {
					switch x := m.(type) {
					case *ast.BinaryExpr:
						if x.Op == token.EQL {
							for _, pr := range [][2]ast.Expr{{x.X, x.Y}, {x.Y, x.X}} {
								if se, ok := ast.Unparen(pr[0]).(*ast.SelectorExpr); ok && se.Sel.Name == "Type" && defs[identObj(info, se.X)] {
									hit = true
								}
							}
						}
					case *ast.Ident:
						if depth < 3 {
							if o := info.ObjectOf(x); o != nil {
								for _, r := range boolDefs[o] {
									if comparesOwnType(r, depth+1) {
										hit = true
									}
								}
							}
						}
					}
					return !hit
				})
				return hit
			}
			var stack []ast.Node
			ast.Inspect(lit.Body, func(m ast.Node) bool {
				if m == nil {
					stack = stack[:len(stack)-1]
					return true
				}
				stack = append(stack, m)
				as, ok := m.(*ast.AssignStmt)
				if !ok || len(as.Lhs) != 1 || len(as.Rhs) != 1 || !isDefName(as.Rhs[0]) {
					return true
				}
				// only inside the handling of a GeneralizedType
				inGT := false
				guarded := false
				for i, s := range stack {
					switch x := s.(type) {
					case *ast.CaseClause:
						for _, e := range x.List {
							if strings.HasSuffix(types.ExprString(e), "GeneralizedType") {
								inGT = true
							}
						}
					case *ast.IfStmt:
						if i+1 < len(stack) && stack[i+1] == ast.Node(x.Body) {
							if x.Init != nil {
								if ia, ok := x.Init.(*ast.AssignStmt); ok && len(ia.Rhs) == 1 {
									if ta, ok := ast.Unparen(ia.Rhs[0]).(*ast.TypeAssertExpr); ok && strings.HasSuffix(types.ExprString(ta.Type), "GeneralizedType") {
										inGT = true
									}
								}
							}
							if comparesOwnType(x.Cond, 0) {
								guarded = true
							}
						}
					}
				}
				if !inGT {
					return true
				}
				n++
				perFunc[c.FuncName(d)]++
				key := fmt.Sprintf("%s/%s = definition name#%d", c.FuncName(d), types.ExprString(as.Lhs[0]), perFunc[c.FuncName(d)])
				c.Check(guarded, rule, key, as.Pos(), "only for the union that is the definition's own type",
					"every union met below the definition takes the definition's name: a union that is a type argument of the aliased type (`NT: !generic {name: Rec, args: [[int, float]]}`) is emitted as `class NT`, the alias is skipped as already written and the module refers to the undefined member-wise name — the generated package does not import")
				return true
			})
			return true
		})
	}
	if n == 0 {
		c.Undecided(rule, "anchor/definition name given to a union", 0, "no assignment of a definition's name inside a GeneralizedType case of a traversal found in internal/python or internal/matlab")
	}
}

// ruleUnionDtypesBeforeTheirUsers (DT1): the generated `_mk_get_dtype` fills dtype_map top to bottom while the module is
// imported, and an entry may call get_dtype(...) right away (a field whose type is a generic record instantiated with a
// union looks the union up). Inside the loop over the type definitions, the statement that writes the dtypes of the
// unions used by a definition therefore precedes the statement that writes the definition's own entry (fix 107495d).
func ruleUnionDtypesBeforeTheirUsers(c *core.Ctx) {
	const rule = "DT1"
	c.Rule(rule, "internal/python/types: in the loop over the type definitions that fills the generated dtype_map, the dtypes of the unions a definition uses are written before the definition's own entry (entries are evaluated eagerly, in order, at import)", 1)
	p := c.Pkg("internal/python/types")
	if p == nil {
		c.Undecided(rule, "anchor/internal/python/types", 0, "package not found")
		return
	}
	info := p.TypesInfo
	hasEntryLiteral := func(n ast.Node) bool {
		hit := false
		ast.Inspect(n, func(m ast.Node) bool {
			if bl, ok := m.(*ast.BasicLit); ok && bl.Kind == token.STRING && strings.Contains(bl.Value, "dtype_map.setdefault(") {
				hit = true
			}
			return !hit
		})
		return hit
	}
	mentionsIsUnion := func(n ast.Node) bool {
		hit := false
		ast.Inspect(n, func(x ast.Node) bool {
			if se, ok := x.(*ast.SelectorExpr); ok && se.Sel.Name == "IsUnion" {
				hit = true
			}
			return !hit
		})
		return hit
	}
	// what a call does, following closures of the enclosing declaration and functions/methods of the package (depth 3):
	// prints an entry? handles unions on the way?
	var classify func(encl *ast.BlockStmt, ce *ast.CallExpr, depth int) (entry, union bool)
	bodyOf := func(encl *ast.BlockStmt, ce *ast.CallExpr) ast.Node {
		if f := core.Callee(info, ce); f != nil {
			if f.Pkg() == p.Types {
				if fd := c.Decl(f.Origin()); fd != nil && fd.Body != nil {
					return fd.Body
				}
			}
			return nil
		}
		if id, ok := ast.Unparen(ce.Fun).(*ast.Ident); ok && encl != nil {
			if fl, ok := ast.Unparen(singleDefRHS(info, encl, id)).(*ast.FuncLit); ok {
				return fl.Body
			}
		}
		return nil
	}
	classify = func(encl *ast.BlockStmt, ce *ast.CallExpr, depth int) (bool, bool) {
		entry := hasEntryLiteral(ce) // the literal is an argument of the call itself
		union := false
		b := bodyOf(encl, ce)
		if b == nil || depth > 3 {
			return entry, union
		}
		if mentionsIsUnion(b) {
			union = true
		}
		if hasEntryLiteral(b) {
			entry = true
		}
		ast.Inspect(b, func(x ast.Node) bool {
			if inner, ok := x.(*ast.CallExpr); ok && inner != ce {
				e2, u2 := classify(encl, inner, depth+1)
				if e2 {
					entry = true
					if u2 {
						union = true
					}
				}
			}
			return true
		})
		return entry, union && entry
	}
	n := 0
	for _, d := range c.AllDecls() {
		if c.DeclPkg(d) != p || d.Body == nil || c.IsTestFile(d.Pos()) {
			continue
		}
		ast.Inspect(d.Body, func(m ast.Node) bool {
			var loopBody *ast.BlockStmt
			var over ast.Expr
			switch l := m.(type) {
			case *ast.RangeStmt:
				loopBody, over = l.Body, l.X
			case *ast.ForStmt:
				if be, ok := l.Cond.(*ast.BinaryExpr); ok {
					if a, isLen := lenArg(info, be.Y); isLen {
						loopBody, over = l.Body, a
					}
				}
			}
			if loopBody == nil {
				return true
			}
			if se, ok := ast.Unparen(over).(*ast.SelectorExpr); !ok || se.Sel.Name != "TypeDefinitions" {
				return true
			}
			var ownPos, unionPos token.Pos
			ast.Inspect(loopBody, func(x ast.Node) bool {
				if _, isLit := x.(*ast.FuncLit); isLit {
					return false
				}
				ce, ok := x.(*ast.CallExpr)
				if !ok {
					return true
				}
				entry, union := classify(d.Body, ce, 0)
				if !entry {
					return true
				}
				if union {
					if unionPos == token.NoPos || ce.Pos() < unionPos {
						unionPos = ce.Pos()
					}
				} else if ownPos == token.NoPos || ce.Pos() < ownPos {
					ownPos = ce.Pos()
				}
				return false
			})
			if ownPos == token.NoPos || unionPos == token.NoPos {
				return true
			}
			n++
			c.Check(unionPos < ownPos, rule, fmt.Sprintf("%s/loop over %s#%d", d.Name.Name, types.ExprString(over), n), m.Pos(), "the unions of a definition are registered before the definition's own entry",
				"the definition's own dtype_map entry is written before the entries of the unions it uses: an entry that calls get_dtype(Rec[Int32OrFloat32]) at import time (a field of a generic type instantiated with a union) fails with \"Cannot find dtype\" — the generated package does not import")
			return true
		})
	}
	if n == 0 {
		c.Undecided(rule, "anchor/loop over TypeDefinitions", 0, "no loop over the type definitions that writes both the own entry and the union entries was found in internal/python/types")
	}
}

// tagActions reads a dispatch on a YAML tag in any of the shapes the front end could be written in and returns, for every
// tag constant, the statement lists that run when the tag matches:
//
//	switch node.Tag { case "!a", "!b": ACTION }            switch form
//	if node.Tag == "!a" || tag == "!b" { ACTION } else if … if form (a leaving `if tag != "!a" { return }` makes the rest the action)
//	if isInline(node.Tag) { ACTION }                       predicate of the package: the tags for which it can return true
//	if f := lookup(node.Tag); f != nil { ACTION }          lookup of the package: the tags for which it returns a non-nil value
//
// A predicate / lookup is read the same way (its parameter is the tag), including a search of a package-level table of
// string constants (`for i := range table { if table[i] == tag { return true } }`).
func tagActions(c *core.Ctx, p *packages.Package, d *ast.FuncDecl) map[string][][]ast.Stmt {
	info := p.TypesInfo
	out := map[string][][]ast.Stmt{}
	add := func(tags []string, action []ast.Stmt) {
		for _, t := range tags {
			out[t] = append(out[t], action)
		}
	}
	strConst := func(e ast.Expr) (string, bool) {
		if tv, ok := info.Types[e]; ok && tv.Value != nil && tv.Value.Kind() == constant.String {
			return constant.StringVal(tv.Value), true
		}
		return "", false
	}
	var positive func(fd *ast.FuncDecl, param types.Object, depth int) []string
	// isTag: e denotes the tag inside body (with tagParam standing for it in helpers)
	isTagIn := func(body *ast.BlockStmt, tagParam types.Object) func(e ast.Expr) bool {
		var isTag func(e ast.Expr) bool
		isTag = func(e ast.Expr) bool {
			e = ast.Unparen(e)
			if se, ok := e.(*ast.SelectorExpr); ok && se.Sel.Name == "Tag" {
				return true
			}
			if id, ok := e.(*ast.Ident); ok {
				o := info.ObjectOf(id)
				if o == nil {
					return false
				}
				if tagParam != nil && o == tagParam {
					return true
				}
				if r := singleDefRHS(info, body, id); r != ast.Expr(id) {
					return isTag(r)
				}
			}
			return false
		}
		return isTag
	}
	// tagsOfCond: the tags for which cond is true (nil, false when cond is not a test of the tag)
	var tagsOfCond func(cond ast.Expr, isTag func(ast.Expr) bool, depth int) ([]string, bool)
	tagsOfCond = func(cond ast.Expr, isTag func(ast.Expr) bool, depth int) ([]string, bool) {
		cond = ast.Unparen(cond)
		switch x := cond.(type) {
		case *ast.BinaryExpr:
			if x.Op == token.LOR {
				a, ok1 := tagsOfCond(x.X, isTag, depth)
				b, ok2 := tagsOfCond(x.Y, isTag, depth)
				if ok1 && ok2 {
					return append(a, b...), true
				}
				return nil, false
			}
			if x.Op == token.EQL {
				for _, pr := range [][2]ast.Expr{{x.X, x.Y}, {x.Y, x.X}} {
					if isTag(pr[0]) {
						if s, ok := strConst(pr[1]); ok {
							return []string{s}, true
						}
					}
				}
			}
		case *ast.CallExpr:
			// predicate of the package applied to the tag
			if f := core.Callee(info, x); f != nil && f.Pkg() == p.Types && depth < 3 {
				if fd := c.Decl(f.Origin()); fd != nil && fd.Body != nil {
					ps := paramObjs(info, fd)
					for ai, a := range x.Args {
						if isTag(a) && ai < len(ps) && ps[ai] != nil {
							return positive(fd, ps[ai], depth+1), true
						}
					}
				}
			}
		}
		return nil, false
	}
	// positive: the tags for which the helper returns true / a non-nil value
	positive = func(fd *ast.FuncDecl, param types.Object, depth int) []string {
		isTag := isTagIn(fd.Body, param)
		var res []string
		returnsPositive := func(list []ast.Stmt) bool {
			hit := false
			for _, s := range list {
				ast.Inspect(s, func(m ast.Node) bool {
					if r, ok := m.(*ast.ReturnStmt); ok && len(r.Results) >= 1 {
						tv, known := info.Types[r.Results[0]]
						if known && tv.IsNil() {
							return true
						}
						if known && tv.Value != nil && tv.Value.Kind() == constant.Bool && !constant.BoolVal(tv.Value) {
							return true
						}
						hit = true
					}
					return true
				})
			}
			return hit
		}
		var walk func(list []ast.Stmt)
		walk = func(list []ast.Stmt) {
			for _, s := range list {
				switch x := s.(type) {
				case *ast.SwitchStmt:
					if x.Tag != nil && isTag(x.Tag) {
						for _, cl := range x.Body.List {
							cc := cl.(*ast.CaseClause)
							if returnsPositive(cc.Body) {
								for _, e := range cc.List {
									if t, ok := strConst(e); ok {
										res = append(res, t)
									}
								}
							}
						}
					}
				case *ast.IfStmt:
					if tags, ok := tagsOfCond(x.Cond, isTag, depth); ok && returnsPositive(x.Body.List) {
						res = append(res, tags...)
					}
					// table search: `if table[i] == tag { return true }` inside a loop over a package-level table
					if be, ok := ast.Unparen(x.Cond).(*ast.BinaryExpr); ok && be.Op == token.EQL && returnsPositive(x.Body.List) {
						for _, pr := range [][2]ast.Expr{{be.X, be.Y}, {be.Y, be.X}} {
							if !isTag(pr[0]) {
								continue
							}
							var tbl types.Object
							switch y := ast.Unparen(pr[1]).(type) {
							case *ast.IndexExpr:
								tbl = identObj(info, y.X)
							case *ast.Ident:
								// range value: find the ranged expression
								ast.Inspect(fd.Body, func(m ast.Node) bool {
									if rs, ok := m.(*ast.RangeStmt); ok && identObj(info, rs.Value) == info.ObjectOf(y) {
										tbl = identObj(info, rs.X)
									}
									return true
								})
							}
							if v, ok := tbl.(*types.Var); ok && v.Parent() == p.Types.Scope() {
								for _, f := range p.Syntax {
									ast.Inspect(f, func(m ast.Node) bool {
										if vs, ok := m.(*ast.ValueSpec); ok {
											for i, nm := range vs.Names {
												if info.Defs[nm] == types.Object(v) && i < len(vs.Values) {
													ast.Inspect(vs.Values[i], func(k ast.Node) bool {
														if e, ok := k.(ast.Expr); ok {
															if t, ok := strConst(e); ok {
																if _, isLit := k.(*ast.BasicLit); isLit {
																	res = append(res, t)
																}
															}
														}
														return true
													})
												}
											}
										}
										return true
									})
								}
							}
						}
					}
					walk(x.Body.List)
					if eb, ok := x.Else.(*ast.BlockStmt); ok {
						walk(eb.List)
					}
				case *ast.ForStmt:
					walk(x.Body.List)
				case *ast.RangeStmt:
					walk(x.Body.List)
				case *ast.BlockStmt:
					walk(x.List)
				}
			}
		}
		walk(fd.Body.List)
		return res
	}
	isTag := isTagIn(d.Body, nil)
	var walk func(list []ast.Stmt)
	var visitIf func(is *ast.IfStmt, rest []ast.Stmt)
	visitIf = func(is *ast.IfStmt, rest []ast.Stmt) {
		handled := false
		// `if f := lookup(tag); f != nil { ACTION }`
		if as, ok := is.Init.(*ast.AssignStmt); ok && len(as.Lhs) == 1 && len(as.Rhs) == 1 {
			if ce, ok := ast.Unparen(as.Rhs[0]).(*ast.CallExpr); ok {
				if be, ok := ast.Unparen(is.Cond).(*ast.BinaryExpr); ok && be.Op == token.NEQ && (isNilIdent(be.Y) && identObj(info, be.X) == identObj(info, as.Lhs[0]) || isNilIdent(be.X) && identObj(info, be.Y) == identObj(info, as.Lhs[0])) {
					if tags, ok := tagsOfCond(ce, isTag, 0); ok {
						add(tags, is.Body.List)
						handled = true
					}
				}
			}
		}
		if !handled {
			if tags, ok := tagsOfCond(is.Cond, isTag, 0); ok {
				add(tags, is.Body.List)
				handled = true
			} else if be, ok := ast.Unparen(is.Cond).(*ast.BinaryExpr); ok && be.Op == token.NEQ && is.Else == nil && stmtLeaves(is.Body) {
				// `if tag != "!a" { return … }`: what follows is the action for "!a"
				for _, pr := range [][2]ast.Expr{{be.X, be.Y}, {be.Y, be.X}} {
					if isTag(pr[0]) {
						if t, ok := strConst(pr[1]); ok {
							add([]string{t}, rest)
							handled = true
						}
					}
				}
			}
		}
		walk(is.Body.List)
		switch e := is.Else.(type) {
		case *ast.BlockStmt:
			walk(e.List)
		case *ast.IfStmt:
			visitIf(e, nil)
		}
	}
	walk = func(list []ast.Stmt) {
		for i, s := range list {
			switch x := s.(type) {
			case *ast.SwitchStmt:
				if x.Tag != nil && isTag(x.Tag) {
					for _, cl := range x.Body.List {
						cc := cl.(*ast.CaseClause)
						var tags []string
						for _, e := range cc.List {
							if t, ok := strConst(e); ok {
								tags = append(tags, t)
							}
						}
						add(tags, cc.Body)
					}
					continue
				}
				for _, cl := range x.Body.List {
					walk(cl.(*ast.CaseClause).Body)
				}
			case *ast.IfStmt:
				visitIf(x, list[i+1:])
			case *ast.BlockStmt:
				walk(x.List)
			}
		}
	}
	walk(d.Body.List)
	return out
}

// ruleDefinitionSwitchesResolveAliases (AL1): a back-end function that switches over a dsl.TypeDefinition, treats some
// kind of definition specially (record, enum, type parameter) and sends everything else to a `default` has to say what
// an ALIAS is — `case *dsl.NamedType` — because an alias of a record (or of a fixed vector, …) is none of the special
// kinds and would take the default with the alias's own, different, shape (fix cf2d86e: `Vec3: int*3`, `Vec3[]` got the
// dtype syntax "np.int32, (3,)" pasted into npt.NDArray[...]: the generated package did not import).
func ruleDefinitionSwitchesResolveAliases(c *core.Ctx) {
	const rule = "AL1"
	c.Rule(rule, "back ends: a type switch over a dsl.TypeDefinition that gives records a result of their own and has a default that computes a result also has `case *dsl.NamedType` (or the subject was resolved with GetUnderlyingType)", 1)
	n := 0
	for _, d := range c.AllDecls() {
		p := c.DeclPkg(d)
		if p == nil || d.Body == nil || c.IsTestFile(d.Pos()) || !strings.Contains(p.PkgPath, "/internal/") || strings.HasSuffix(p.PkgPath, "/internal/cmd") || strings.HasSuffix(p.PkgPath, "/internal/validation") {
			continue
		}
		info := p.TypesInfo
		k := 0
		ast.Inspect(d.Body, func(nn ast.Node) bool {
			ts, ok := nn.(*ast.TypeSwitchStmt)
			if !ok {
				return true
			}
			ti := parseTypeSwitch(info, ts)
			st := info.TypeOf(ti.subject)
			nt := core.NamedOf(st)
			if nt == nil || nt.Obj().Name() != "TypeDefinition" || nt.Obj().Pkg() == nil || nt.Obj().Pkg().Path() != core.Mod+"/pkg/dsl" {
				return true
			}
			if !ti.hasDefault {
				return true
			}
			hasNamed, special := false, false
			for _, cs := range ti.cases {
				for _, t := range cs.types {
					if t == nil {
						continue
					}
					switch typeLabel(t) {
					case "*NamedType":
						hasNamed = true
					case "*RecordDefinition":
						// a result of its own for RECORDS: an alias of a record needs it too. (Switches that single out
						// primitives / enums / type parameters only and name everything else — the C++ back end, where an
						// alias is a type of its own with generated functions of its own — are not this pattern.)
						special = true
					}
				}
			}
			if !special {
				return true
			}
			// a default that only aborts says "cannot happen", not "everything else": outside this rule (P4 judges it)
			computes := false
			for _, s := range ti.defaultBody {
				if r, ok := s.(*ast.ReturnStmt); ok && len(r.Results) > 0 {
					computes = true
				}
			}
			if !computes {
				return true
			}
			n++
			k++
			key := fmt.Sprintf("%s/switch %s.(type)#%d", c.FuncName(d), types.ExprString(ti.subject), k)
			// the subject was resolved: single definition from a call of GetUnderlyingType… on the way
			resolved := false
			if id, ok := ast.Unparen(ti.subject).(*ast.Ident); ok {
				if r := singleDefRHS(info, d.Body, id); r != ast.Expr(id) && strings.Contains(types.ExprString(r), "GetUnderlying") {
					resolved = true
				}
			}
			if r, ok := auditedAliasDefaults[c.FuncName(d)]; ok && !hasNamed && !resolved {
				c.OK(rule, key, ts.Pos(), "audited: "+r)
				return true
			}
			c.Check(hasNamed || resolved, rule, key, ts.Pos(), "aliases have their own case (or were resolved before the switch)",
				"the switch gives records a result of their own and everything else the default, and has no `case *dsl.NamedType`: an alias (of a record, of a fixed vector, …) takes the default and gets the result computed from the alias's own shape")
			return true
		})
	}
	if n == 0 {
		c.Undecided(rule, "anchor/switches over TypeDefinition", 0, "no type switch over dsl.TypeDefinition with special cases and a computing default found in the back ends")
	}
}

// auditedAliasDefaults: function -> why its default is right for an alias too
var auditedAliasDefaults = map[string]string{
	"internal/cpp/binary.writeTypeConversion": "the type pair of a NumberToNumber / ComplexToComplex change holds the resolved primitives: the evolution analyser unwinds aliases before it classifies a change (`MyInt: int` -> `long` generates; the warning prints 'int32' to 'int64')",
}

// ruleEveryPatternBranchEmitsTheCaseExpression (SX1): the value of a `!switch` is the value of the matching case's
// expression. Wherever a back end dispatches on the KIND of pattern of a switch case (`switch p := c.Pattern.(type)`),
// every branch that does not abort prints that case's expression — a branch that prints only the switch target (or
// nothing) gives the computed field a different value in that language (fix 21f459b: C++ returned the target for
// `!switch i32: {int: 42}`).
func ruleEveryPatternBranchEmitsTheCaseExpression(c *core.Ctx) {
	const rule = "SX1"
	c.Rule(rule, "back ends: in every type switch over a dsl.Pattern, each clause that does not abort refers to the Expression of a switch case (directly, or through a closure / helper of the package it calls)", 6)
	n := 0
	for _, d := range c.AllDecls() {
		p := c.DeclPkg(d)
		if p == nil || d.Body == nil || c.IsTestFile(d.Pos()) || !strings.Contains(p.PkgPath, "/internal/") {
			continue
		}
		info := p.TypesInfo
		isCaseExpr := func(nd ast.Node) bool {
			hit := false
			ast.Inspect(nd, func(m ast.Node) bool {
				if se, ok := m.(*ast.SelectorExpr); ok && se.Sel.Name == "Expression" {
					if nt := core.NamedOf(info.TypeOf(se.X)); nt != nil && nt.Obj().Name() == "SwitchCase" {
						hit = true
					}
				}
				return !hit
			})
			return hit
		}
		var reaches func(list []ast.Stmt, depth int) bool
		reaches = func(list []ast.Stmt, depth int) bool {
			for _, s := range list {
				if isCaseExpr(s) {
					return true
				}
				found := false
				ast.Inspect(s, func(m ast.Node) bool {
					ce, ok := m.(*ast.CallExpr)
					if !ok || found || depth > 1 {
						return !found
					}
					if f := core.Callee(info, ce); f != nil && f.Pkg() == p.Types {
						if fd := c.Decl(f.Origin()); fd != nil && fd.Body != nil && reaches(fd.Body.List, depth+1) {
							found = true
						}
					} else if id, ok := ast.Unparen(ce.Fun).(*ast.Ident); ok && f == nil {
						if fl, ok := ast.Unparen(singleDefRHS(info, d.Body, id)).(*ast.FuncLit); ok && reaches(fl.Body.List, depth+1) {
							found = true
						}
					}
					return !found
				})
				if found {
					return true
				}
			}
			return false
		}
		k := 0
		ast.Inspect(d.Body, func(nn ast.Node) bool {
			ts, ok := nn.(*ast.TypeSwitchStmt)
			if !ok {
				return true
			}
			ti := parseTypeSwitch(info, ts)
			nt := core.NamedOf(info.TypeOf(ti.subject))
			if nt == nil || nt.Obj().Name() != "Pattern" || nt.Obj().Pkg() == nil || nt.Obj().Pkg().Path() != core.Mod+"/pkg/dsl" {
				return true
			}
			// only dispatches that print: some clause refers to a case expression
			any := false
			for _, cs := range ti.cases {
				if reaches(cs.body, 0) {
					any = true
				}
			}
			if !any {
				return true
			}
			for _, cs := range ti.cases {
				if len(cs.body) == 0 {
					continue
				}
				aborts := false
				if es, ok := cs.body[len(cs.body)-1].(*ast.ExprStmt); ok {
					if ce, ok := es.X.(*ast.CallExpr); ok && core.NoReturn(info, ce) {
						aborts = true
					}
				}
				if aborts {
					continue
				}
				var lbls []string
				for _, t := range cs.types {
					if t != nil {
						lbls = append(lbls, typeLabel(t))
					}
				}
				n++
				k++
				key := fmt.Sprintf("%s/case %s#%d", c.FuncName(d), strings.Join(lbls, ","), k)
				c.Check(reaches(cs.body, 0), rule, key, cs.cc.Pos(), "prints the case's expression",
					"this branch of the dispatch on the pattern kind never refers to the case's Expression: for such a pattern the computed field evaluates to something else (the switch target, or nothing) in this language")
			}
			return true
		})
	}
	if n == 0 {
		c.Undecided(rule, "anchor/type switches over dsl.Pattern", 0, "none found in the back ends")
	}
}

// ruleConditionalTargetAssignmentsHaveElse (RS1): the generated C++ readers hand ONE object to every item of a stream
// (ReadX(value) in a loop, CopyTo, the batched reads), so generated code that assigns its out-parameter only under a
// condition leaves the previous item's value in it on the other branch. Where a C++ generator prints
//
//	if (<cond>) {            <- one print
//	    <assignment to the target>   <- inside w.Indented(...)
//	}                        <- the next print
//
// the print that closes the block opens an else (`} else {`): the target is assigned (reset, or the block throws) on
// both branches. Fixes 426e174 (NDJSON from_json: an absent optional field kept the previous item's value) and 138ca61
// (version conversions of optionals/unions: `5 null 7 null` was read as 5 5 7 7).
func ruleConditionalTargetAssignmentsHaveElse(c *core.Ctx) {
	const rule = "RS1"
	c.Rule(rule, "cpp/binary, cpp/ndjson: a printed `if (...) {` whose indented body assigns the conversion target / a field of the out-parameter is closed by a printed `} else {` (the other branch assigns too), never by a bare `}`", 5)
	n := 0
	emitLit := func(info *types.Info, s ast.Stmt) (string, *ast.CallExpr, bool) {
		es, ok := s.(*ast.ExprStmt)
		if !ok {
			return "", nil, false
		}
		ce, ok := es.X.(*ast.CallExpr)
		if !ok {
			return "", nil, false
		}
		name := types.ExprString(ce.Fun)
		if !(strings.HasSuffix(name, "Fprintf") || strings.HasSuffix(name, "WriteString") || strings.HasSuffix(name, "WriteStringln") || strings.HasSuffix(name, "Fprintln") || strings.HasSuffix(name, "Fprint")) {
			return "", nil, false
		}
		for _, a := range ce.Args {
			if tv, ok := info.Types[a]; ok && tv.Value != nil && tv.Value.Kind() == constant.String {
				return constant.StringVal(tv.Value), ce, true
			}
		}
		return "", nil, false
	}
	ifOpen := regexp.MustCompile(`^\s*if \(.*\) \{\s*$`)
	for _, d := range c.AllDecls() {
		p := c.DeclPkg(d)
		if p == nil || d.Body == nil || c.IsTestFile(d.Pos()) || !(strings.HasSuffix(p.PkgPath, "/internal/cpp/binary") || strings.HasSuffix(p.PkgPath, "/internal/cpp/ndjson")) {
			continue
		}
		info := p.TypesInfo
		self, _ := info.Defs[d.Name].(*types.Func)
		assignsTarget := func(body ast.Node) bool {
			hit := false
			ast.Inspect(body, func(m ast.Node) bool {
				ce, ok := m.(*ast.CallExpr)
				if !ok || hit {
					return !hit
				}
				// the function converting into the same target again
				if f := core.Callee(info, ce); f != nil && self != nil && f.Origin() == self {
					for _, a := range ce.Args {
						if id, ok := ast.Unparen(a).(*ast.Ident); ok && strings.Contains(strings.ToLower(id.Name), "target") {
							hit = true
						}
					}
				}
				for i, a := range ce.Args {
					tv, ok := info.Types[a]
					if !ok || tv.Value == nil || tv.Value.Kind() != constant.String {
						continue
					}
					lit := constant.StringVal(tv.Value)
					if strings.Contains(lit, "get_to(value.") {
						hit = true
					}
					if strings.HasPrefix(strings.TrimSpace(lit), "%s = ") || strings.HasPrefix(strings.TrimSpace(lit), "%[1]s = ") {
						if i+1 < len(ce.Args) {
							if id, ok := ast.Unparen(ce.Args[i+1]).(*ast.Ident); ok && strings.Contains(strings.ToLower(id.Name), "target") {
								hit = true
							}
						}
					}
				}
				return !hit
			})
			return hit
		}
		k := 0
		var walk func(list []ast.Stmt)
		walk = func(list []ast.Stmt) {
			for i := 0; i+2 < len(list); i++ {
				l1, _, ok1 := emitLit(info, list[i])
				if !ok1 || !ifOpen.MatchString(strings.TrimRight(l1, "\n")) {
					continue
				}
				es, ok := list[i+1].(*ast.ExprStmt)
				if !ok {
					continue
				}
				ind, ok := es.X.(*ast.CallExpr)
				if !ok || !strings.HasSuffix(types.ExprString(ind.Fun), "Indented") || len(ind.Args) != 1 {
					continue
				}
				if !assignsTarget(ind.Args[0]) {
					continue
				}
				// the first print on EVERY path that follows the body closes the block: all of them must open an else
				type closer struct {
					lit string
					pos token.Pos
				}
				var closers func(rest []ast.Stmt, fuel int) ([]closer, bool)
				closers = func(rest []ast.Stmt, fuel int) ([]closer, bool) {
					if fuel <= 0 {
						return nil, false
					}
					for j, s := range rest {
						if l, ce, ok := emitLit(info, s); ok {
							return []closer{{l, ce.Pos()}}, true
						}
						switch x := s.(type) {
						case *ast.IfStmt:
							var out []closer
							thenRest := append(append([]ast.Stmt{}, x.Body.List...), rest[j+1:]...)
							if bodyLeaves(x.Body) {
								thenRest = x.Body.List
							}
							a, ok := closers(thenRest, fuel-1)
							if !ok {
								return nil, false
							}
							out = append(out, a...)
							var elseRest []ast.Stmt
							switch e := x.Else.(type) {
							case *ast.BlockStmt:
								elseRest = append(append([]ast.Stmt{}, e.List...), rest[j+1:]...)
							case *ast.IfStmt:
								elseRest = append([]ast.Stmt{e}, rest[j+1:]...)
							default:
								elseRest = rest[j+1:]
							}
							b, ok := closers(elseRest, fuel-1)
							if !ok {
								return nil, false
							}
							return append(out, b...), true
						case *ast.BlockStmt:
							return closers(append(append([]ast.Stmt{}, x.List...), rest[j+1:]...), fuel-1)
						case *ast.ReturnStmt, *ast.BranchStmt:
							return nil, true // the path leaves without printing: nothing closes the block here (judged where it continues)
						case *ast.AssignStmt, *ast.DeclStmt, *ast.IncDecStmt, *ast.EmptyStmt:
							continue
						default:
							return nil, false
						}
					}
					return nil, true
				}
				cl, decided := closers(list[i+2:], 6)
				if !decided || len(cl) == 0 {
					if _, _, ok3 := emitLit(info, list[i+2]); !ok3 && decided {
						continue
					}
					n++
					k++
					key := fmt.Sprintf("%s/%s#%d", c.FuncName(d), strings.TrimSpace(strings.SplitN(l1, "(", 2)[0])+" "+strings.TrimSpace(firstWords(l1, 4)), k)
					c.Undecided(rule, key, list[i+2].Pos(), "the print that closes the conditional assignment could not be determined on every path")
					continue
				}
				n++
				k++
				key := fmt.Sprintf("%s/%s#%d", c.FuncName(d), strings.TrimSpace(strings.SplitN(l1, "(", 2)[0])+" "+strings.TrimSpace(firstWords(l1, 4)), k)
				var badAt token.Pos
				for _, x := range cl {
					if !strings.HasPrefix(strings.TrimSpace(x.lit), "} else") {
						badAt = x.pos
					}
				}
				at := cl[0].pos
				if badAt != token.NoPos {
					at = badAt
				}
				c.Check(badAt == token.NoPos, rule, key, at, "closed by `} else {` on every path of the generator: the target is assigned on both branches",
					"the printed `if` assigns the target only when its condition holds and is closed by a bare `}` (on at least one path of the generator): on the other branch the object the caller reuses for every item of a stream keeps the value of the previous item")
				// the else branch itself: where the print that follows directly is `} else {` and the next statement is the
				// indented else body, that body prints something on EVERY path of the generator (a helper that returns
				// early under a flag prints an empty else: the target keeps the previous item's value on that branch)
				if badAt == token.NoPos && i+3 < len(list) {
					if l3, _, ok3 := emitLit(info, list[i+2]); ok3 && strings.HasPrefix(strings.TrimSpace(l3), "} else") {
						if es2, ok := list[i+3].(*ast.ExprStmt); ok {
							if ind2, ok := es2.X.(*ast.CallExpr); ok && strings.HasSuffix(types.ExprString(ind2.Fun), "Indented") && len(ind2.Args) == 1 {
								if fl, ok := ind2.Args[0].(*ast.FuncLit); ok {
									var always func(body []ast.Stmt, depth int) bool
									always = func(body []ast.Stmt, depth int) bool {
										for _, s := range body {
											if _, _, ok := emitLit(info, s); ok {
												return true
											}
											switch x := s.(type) {
											case *ast.ExprStmt:
												if ce, ok := x.X.(*ast.CallExpr); ok {
													if core.NoReturn(info, ce) {
														return true
													}
													f := core.Callee(info, ce)
													if f == nil {
														return true // a call that is not understood counts as printing
													}
													if f.Pkg() == p.Types {
														if self != nil && f.Origin() == self {
															return true
														}
														if hd := c.Decl(f); hd != nil && hd.Body != nil && depth < 2 {
															if always(hd.Body.List, depth+1) {
																return true
															}
															return false
														}
													}
													return true
												}
											case *ast.IfStmt:
												thenOK := always(x.Body.List, depth)
												elseOK := false
												if eb, ok := x.Else.(*ast.BlockStmt); ok {
													elseOK = always(eb.List, depth)
												}
												if thenOK && elseOK {
													return true
												}
												if bodyLeaves(x.Body) && !thenOK {
													return false
												}
											case *ast.BlockStmt:
												if always(x.List, depth) {
													return true
												}
											case *ast.ReturnStmt:
												return false
											}
										}
										return false
									}
									n++
									c.Check(always(fl.Body.List, 0), rule, key+"/else assigns", list[i+3].Pos(), "the else body prints an assignment (or throws) on every path of the generator",
										"the printed `} else {` is followed by a body that prints nothing on some path of the generator (a helper that returns early under a flag): on that path the emitted else branch is empty and the reused target keeps the previous item's value — `write` is not the I/O direction inside writeTypeConversion (the inverse change kinds call it with !write)")
								}
							}
						}
					}
				}
			}
			for _, s := range list {
				ast.Inspect(s, func(m ast.Node) bool {
					switch x := m.(type) {
					case *ast.BlockStmt:
						walk(x.List)
						return false
					case *ast.CaseClause:
						walk(x.Body)
						return false
					}
					return true
				})
			}
		}
		walk(d.Body.List)
	}
	if n == 0 {
		c.Undecided(rule, "anchor/conditional target assignments", 0, "no printed `if` with an assignment to the target found in cpp/binary or cpp/ndjson")
	}
}

func firstWords(s string, n int) string {
	f := strings.Fields(s)
	if len(f) > n {
		f = f[:n]
	}
	return strings.Join(f, " ")
}

// ruleStateCounterIsWide (SW2): the generated C++ base classes number the protocol position 0 … 2·steps. The member that
// holds it and the parameters it is passed through are declared in printed text; a type of 8 or 16 bits wraps for a
// protocol with that many steps and the order check passes out-of-order calls (fix 17b7ecb: `uint8_t state_`, 128 steps).
func ruleStateCounterIsWide(c *core.Ctx) {
	const rule = "SW2"
	c.Rule(rule, "cpp/protocols: every printed declaration of the protocol state (`<type> state_ = …`, the `attempted` / `current` parameters of the state-error helpers) uses a type of at least 32 bits", 2)
	p := c.Pkg("internal/cpp/protocols")
	if p == nil {
		c.Undecided(rule, "anchor/internal/cpp/protocols", 0, "package not found")
		return
	}
	decl := regexp.MustCompile(`\b([A-Za-z_][\w:]*(?:\s+(?:int|long|short|char))?)\s+(state_|attempted|current)\b\s*(=|,|\))`)
	narrow := regexp.MustCompile(`^(u?int(8|16)_t|(un)?signed char|char|(unsigned )?short|bool|std::byte|std::u?int(8|16)_t|u?int_(fast|least)(8|16)_t)$`)
	n := 0
	for _, f := range p.Syntax {
		if c.IsTestFile(f.Pos()) {
			continue
		}
		ast.Inspect(f, func(m ast.Node) bool {
			bl, ok := m.(*ast.BasicLit)
			if !ok || bl.Kind != token.STRING {
				return true
			}
			tv, ok := p.TypesInfo.Types[bl]
			if !ok || tv.Value == nil {
				return true
			}
			txt := constant.StringVal(tv.Value)
			for _, mm := range decl.FindAllStringSubmatch(txt, -1) {
				typ := strings.TrimSpace(mm[1])
				if typ == "return" || typ == "unlikely" || typ == "if" {
					continue
				}
				n++
				key := fmt.Sprintf("%s %s#%d", typ, mm[2], n)
				c.Check(!narrow.MatchString(typ), rule, "printed declaration/"+key, bl.Pos(), "wide enough for any number of steps",
					fmt.Sprintf("the protocol state is declared `%s %s`: with 2·steps (reader) or steps (writer) beyond its range the counter wraps, out-of-order calls pass the check and later steps cannot be read", typ, mm[2]))
			}
			return true
		})
	}
	if n == 0 {
		c.Undecided(rule, "anchor/state_ declaration", 0, "no printed declaration of state_ found in cpp/protocols")
	}
}

// ruleResolvedDefinitionSwitchesResolveAliases (AL2): `t.ResolvedDefinition` of a *SimpleType is the definition the
// name refers to — for `MyInt: int` a *NamedType, not the primitive. A back-end switch over it that singles out
// dsl.PrimitiveDefinition and ABORTS for what it does not know needs `case *dsl.NamedType`, or a subject that went
// through GetUnderlyingType first (fix 3bae236: `y: x as MyInt` made the Python generator panic "Unsupported type").
func ruleResolvedDefinitionSwitchesResolveAliases(c *core.Ctx) {
	const rule = "AL2"
	c.Rule(rule, "back ends: a type switch over `x.ResolvedDefinition` with a case for dsl.PrimitiveDefinition, no case for *dsl.NamedType and an abort for unmatched definitions switches over a type that was resolved with GetUnderlyingType / GetPrimitiveType first", 1)
	n := 0
	for _, d := range c.AllDecls() {
		p := c.DeclPkg(d)
		if p == nil || d.Body == nil || c.IsTestFile(d.Pos()) || !strings.Contains(p.PkgPath, "/internal/") || strings.HasSuffix(p.PkgPath, "/internal/cmd") {
			continue
		}
		info := p.TypesInfo
		k := 0
		ast.Inspect(d.Body, func(nn ast.Node) bool {
			ts, ok := nn.(*ast.TypeSwitchStmt)
			if !ok {
				return true
			}
			ti := parseTypeSwitch(info, ts)
			se, ok := ast.Unparen(ti.subject).(*ast.SelectorExpr)
			if !ok || se.Sel.Name != "ResolvedDefinition" {
				return true
			}
			hasPrim, hasNamed := false, false
			for _, cs := range ti.cases {
				for _, t := range cs.types {
					if t == nil {
						continue
					}
					switch typeLabel(t) {
					case "PrimitiveDefinition":
						hasPrim = true
					case "*NamedType":
						hasNamed = true
					}
				}
			}
			if !hasPrim {
				return true
			}
			// does an unmatched definition abort? an aborting default, or an abort right after the switch / at the
			// end of the enclosing switch's function
			aborts := false
			if ti.hasDefault {
				for _, s := range ti.defaultBody {
					if es, ok := s.(*ast.ExprStmt); ok {
						if ce, ok := es.X.(*ast.CallExpr); ok && core.NoReturn(info, ce) {
							aborts = true
						}
					}
				}
			} else {
				// the innermost function around the switch: the declared function or a literal in it (a local
				// closure `getWrapper := func(t dsl.Type) … { switch … }; panic(…) }`, fix 7bf9700)
				body := d.Body
				ast.Inspect(d.Body, func(m ast.Node) bool {
					if fl, ok := m.(*ast.FuncLit); ok && fl.Body.Pos() <= ts.Pos() && ts.End() <= fl.Body.End() {
						body = fl.Body
					}
					return true
				})
				if len(body.List) > 0 {
					if es, ok := body.List[len(body.List)-1].(*ast.ExprStmt); ok {
						if ce, ok := es.X.(*ast.CallExpr); ok && core.NoReturn(info, ce) {
							aborts = true
						}
					}
				}
			}
			if !aborts {
				return true
			}
			n++
			k++
			key := fmt.Sprintf("%s/switch %s.(type)#%d", c.FuncName(d), types.ExprString(ti.subject), k)
			// the SimpleType whose definition is read: was it resolved?
			resolved := false
			var from func(e ast.Expr, depth int) bool
			from = func(e ast.Expr, depth int) bool {
				e = ast.Unparen(e)
				switch x := e.(type) {
				case *ast.CallExpr:
					if f := core.Callee(info, x); f != nil && (f.Name() == "GetUnderlyingType" || f.Name() == "GetPrimitiveType" || f.Name() == "ToGeneralizedType") {
						return f.Name() != "ToGeneralizedType" || (len(x.Args) == 1 && from(x.Args[0], depth+1))
					}
				case *ast.TypeAssertExpr:
					return from(x.X, depth+1)
				case *ast.Ident:
					if depth < 4 {
						// bound by an enclosing type switch `switch t := <subject>.(type)`: follow the subject
						found := false
						ast.Inspect(d.Body, func(m ast.Node) bool {
							if ots, ok := m.(*ast.TypeSwitchStmt); ok && ots.Pos() < x.Pos() && x.End() <= ots.End() {
								oti := parseTypeSwitch(info, ots)
								for _, cl := range ots.Body.List {
									if o := info.Implicits[cl]; o != nil && o == info.ObjectOf(x) && from(oti.subject, depth+1) {
										found = true
									}
								}
							}
							return true
						})
						if found {
							return true
						}
						if r := singleDefRHS(info, d.Body, x); r != ast.Expr(x) {
							return from(r, depth+1)
						}
					}
				case *ast.SelectorExpr, *ast.IndexExpr:
					// cases[0].Type of a generalized type that came from a resolved type
					var base ast.Expr
					if s2, ok := x.(*ast.SelectorExpr); ok {
						base = s2.X
					} else {
						base = x.(*ast.IndexExpr).X
					}
					return from(base, depth+1)
				}
				return false
			}
			resolved = from(se.X, 0)
			if r, ok := auditedAliasDefaults[c.FuncName(d)]; ok && !hasNamed && !resolved {
				c.OK(rule, key, ts.Pos(), "audited: "+r)
				return true
			}
			c.Check(hasNamed || resolved, rule, key, ts.Pos(), "aliases are resolved before (or have a case of their own)",
				"the definition behind a *SimpleType is switched over with a case for primitives, no case for *dsl.NamedType and an abort for everything else, and the type was not resolved with GetUnderlyingType first: an alias of a primitive (`MyInt: int`) reaches the abort and the generator crashes on an accepted package")
			return true
		})
	}
	// the assertion form: `p, ok := st.ResolvedDefinition.(dsl.PrimitiveDefinition)` in a function that aborts when it fails
	for _, d := range c.AllDecls() {
		p := c.DeclPkg(d)
		if p == nil || d.Body == nil || c.IsTestFile(d.Pos()) || !strings.Contains(p.PkgPath, "/internal/") || strings.HasSuffix(p.PkgPath, "/internal/cmd") {
			continue
		}
		info := p.TypesInfo
		hasAbort := false
		ast.Inspect(d.Body, func(m ast.Node) bool {
			if ce, ok := m.(*ast.CallExpr); ok && core.NoReturn(info, ce) {
				hasAbort = true
			}
			return true
		})
		if !hasAbort {
			continue
		}
		k := 0
		ast.Inspect(d.Body, func(nn ast.Node) bool {
			ta, ok := nn.(*ast.TypeAssertExpr)
			if !ok || ta.Type == nil || !strings.HasSuffix(types.ExprString(ta.Type), "PrimitiveDefinition") {
				return true
			}
			se, ok := ast.Unparen(ta.X).(*ast.SelectorExpr)
			if !ok || se.Sel.Name != "ResolvedDefinition" {
				return true
			}
			// where does the *SimpleType come from?
			resolved := false
			cur := ast.Unparen(se.X)
			for depth := 0; depth < 4 && cur != nil; depth++ {
				switch x := cur.(type) {
				case *ast.CallExpr:
					if f := core.Callee(info, x); f != nil && (f.Name() == "GetUnderlyingType" || f.Name() == "GetPrimitiveType") {
						resolved = true
					}
					cur = nil
				case *ast.TypeAssertExpr:
					cur = ast.Unparen(x.X)
				case *ast.Ident:
					if r := singleDefRHS(info, d.Body, x); r != ast.Expr(x) {
						cur = ast.Unparen(r)
					} else {
						// `st, ok := <expr>.(*dsl.SimpleType)`: two names, one right-hand side
						cur = nil
						xo := info.ObjectOf(x)
						ast.Inspect(d.Body, func(m ast.Node) bool {
							if as, ok := m.(*ast.AssignStmt); ok && len(as.Lhs) == 2 && len(as.Rhs) == 1 && identObj(info, as.Lhs[0]) == xo && xo != nil {
								cur = ast.Unparen(as.Rhs[0])
							}
							return true
						})
					}
				default:
					cur = nil
				}
			}
			n++
			k++
			key := fmt.Sprintf("%s/%s#%d", c.FuncName(d), types.ExprString(ta), k)
			if r, ok := auditedAliasDefaults[c.FuncName(d)]; ok && !resolved {
				c.OK(rule, key, ta.Pos(), "audited: "+r)
				return true
			}
			c.Check(resolved, rule, key, ta.Pos(), "the type was resolved with GetUnderlyingType / GetPrimitiveType first",
				"a *SimpleType's ResolvedDefinition is asserted to be a primitive in a function that aborts otherwise, and the type was not resolved first: an alias of a primitive (an enum whose `base:` is `MyInt: uint16`) reaches the abort and the generator crashes on an accepted package")
			return true
		})
	}
	if n == 0 {
		c.Undecided(rule, "anchor/switches over ResolvedDefinition", 0, "none with a primitive case and an abort found in the back ends")
	}
}

// ruleDepthTestBeforeMemoLookup (I3): collectPackages bounds the import recursion with a depth counter and keeps a memo
// of the packages it has seen. A package found in the memo returns at once; if that lookup stands in front of the depth
// test, a package that some OTHER import reached first on a short path is exempt from the limit, and whether a package
// is accepted depends on the order of the import list (fix bc47dce).
func ruleDepthTestBeforeMemoLookup(c *core.Ctx) {
	const rule = "I3"
	c.Rule(rule, "packaging.collectPackages: the test of the remaining depth stands in front of the lookup in the already-collected memo that returns early (the limit applies on every path to a package, whichever import reached it first)", 1)
	_, d, p := c.Func("pkg/packaging", "collectPackages")
	if d == nil || p == nil {
		c.Undecided(rule, "anchor/pkg/packaging.collectPackages", 0, "anchor not found")
		return
	}
	info := p.TypesInfo
	params := map[types.Object]bool{}
	for _, o := range paramObjs(info, d) {
		if o != nil {
			params[o] = true
		}
	}
	depthPos, memoPos := token.NoPos, token.NoPos
	for _, st := range d.Body.List {
		is, ok := st.(*ast.IfStmt)
		if !ok || !stmtLeaves(is.Body) {
			continue
		}
		// depth test: an integer parameter compared with a constant
		if be, ok := ast.Unparen(is.Cond).(*ast.BinaryExpr); ok && is.Init == nil {
			for _, pr := range [][2]ast.Expr{{be.X, be.Y}, {be.Y, be.X}} {
				if o := identObj(info, pr[0]); o != nil && params[o] {
					if b, isB := o.Type().Underlying().(*types.Basic); isB && b.Info()&types.IsInteger != 0 {
						if _, isC := constInt(info, pr[1]); isC && depthPos == token.NoPos {
							depthPos = is.Pos()
						}
					}
				}
			}
		}
	}
	// memo lookup: `x, found := M[k]` on a map parameter in the init of an if whose body can return
	ast.Inspect(d.Body, func(m ast.Node) bool {
		is, ok := m.(*ast.IfStmt)
		if !ok || is.Init == nil {
			return true
		}
		as, ok := is.Init.(*ast.AssignStmt)
		if !ok || len(as.Rhs) != 1 {
			return true
		}
		ix, ok := ast.Unparen(as.Rhs[0]).(*ast.IndexExpr)
		if !ok {
			return true
		}
		o := identObj(info, ix.X)
		if o == nil || !params[o] {
			return true
		}
		mt, isMap := o.Type().Underlying().(*types.Map)
		if !isMap {
			return true
		}
		if b, isBasic := mt.Elem().Underlying().(*types.Basic); isBasic && b.Info()&types.IsBoolean != 0 {
			return true // the set of packages on the current import chain (cycle test), not the memo
		}
		returns := false
		ast.Inspect(is.Body, func(k ast.Node) bool {
			if _, ok := k.(*ast.ReturnStmt); ok {
				returns = true
			}
			return true
		})
		if returns && memoPos == token.NoPos {
			memoPos = is.Pos()
		}
		return true
	})
	if depthPos == token.NoPos || memoPos == token.NoPos {
		c.Undecided(rule, "collectPackages/depth test and memo lookup", d.Pos(), "the depth test or the memo lookup was not recognised")
		return
	}
	c.Check(depthPos < memoPos, rule, "collectPackages/depth test before memo lookup", d.Pos(), "the depth is tested before the memo can return",
		"the memo lookup returns before the depth is tested: a package that another import reached first on a shorter path is accepted at any depth, so `imports: [../p10, ../p1]` and `imports: [../p1, ../p10]` give different verdicts")
}

// ruleDefinitionEqualityComparesNamespaces (VS2): two definitions are the same only if they have the same QUALIFIED
// name — `A.Header` and `B.Header` from two imported packages are different types even when their fields agree.
// TypeDefinitionsEqual (behind TypesEqual: duplicate union cases, evolution, NDJSON de-duplication) compares the
// namespace wherever it compares the name.
func ruleDefinitionEqualityComparesNamespaces(c *core.Ctx) {
	const rule = "VS2"
	c.Rule(rule, "dsl.TypeDefinitionsEqual: the comparison of the definitions' names also compares their namespaces (or compares qualified names)", 1)
	_, d, p := c.Func("pkg/dsl", "TypeDefinitionsEqual")
	if d == nil || p == nil {
		c.Undecided(rule, "anchor/pkg/dsl.TypeDefinitionsEqual", 0, "anchor not found")
		return
	}
	cmpField := func(field string) bool {
		hit := false
		ast.Inspect(d.Body, func(m ast.Node) bool {
			be, ok := m.(*ast.BinaryExpr)
			if !ok || (be.Op != token.EQL && be.Op != token.NEQ) {
				return true
			}
			l, lok := ast.Unparen(be.X).(*ast.SelectorExpr)
			r, rok := ast.Unparen(be.Y).(*ast.SelectorExpr)
			if lok && rok && l.Sel.Name == field && r.Sel.Name == field {
				hit = true
			}
			return true
		})
		return hit
	}
	qualified := false
	ast.Inspect(d.Body, func(m ast.Node) bool {
		if be, ok := m.(*ast.BinaryExpr); ok && (be.Op == token.EQL || be.Op == token.NEQ) {
			if strings.Contains(types.ExprString(be.X), "GetQualifiedName()") && strings.Contains(types.ExprString(be.Y), "GetQualifiedName()") {
				qualified = true
			}
		}
		return true
	})
	names := cmpField("Name")
	if !names && !qualified {
		c.Undecided(rule, "TypeDefinitionsEqual/name comparison", d.Pos(), "no comparison of the definitions' names found")
		return
	}
	c.Check(qualified || cmpField("Namespace"), rule, "TypeDefinitionsEqual/namespace compared", d.Pos(), "names are compared together with their namespaces",
		"the definitions' names are compared without their namespaces: same-named, same-shaped types of two imported packages (`A.Header`, `B.Header`) are taken for one type — a union of both is rejected as redundant, evolution pairs the wrong definitions")
}

// ruleUnionTagsPrintedVerbatim (TG1): the tag of a union case is part of the NDJSON wire text (`{"int32": 7}`) and has
// to be the same string in every language. Wherever a back end prints a case's tag as DATA — the `"tag": "%s"` attribute
// of the Python case classes, the `{"%s", …}` key and the `tag == "%s"` comparison of the C++ converters — the argument
// is the case's `.Tag` itself, not an identifier derived from it (PascalCase is for class and method names).
func ruleUnionTagsPrintedVerbatim(c *core.Ctx) {
	const rule = "TG1"
	c.Rule(rule, "back ends: the argument printed into `\"tag\": \"%s\"`, `tag == \"%s\"` and `ordered_json{ {\"%s\", …} }` is a TypeCase's .Tag field itself", 1)
	verb := regexp.MustCompile(`%(\[\d+\])?[a-zA-Z]`)
	spots := []*regexp.Regexp{regexp.MustCompile(`"tag": "%s"`), regexp.MustCompile(`tag == "%s"`), regexp.MustCompile(`ordered_json\{ \{"%s"`)}
	n := 0
	for _, d := range c.AllDecls() {
		p := c.DeclPkg(d)
		if p == nil || d.Body == nil || c.IsTestFile(d.Pos()) || !(strings.Contains(p.PkgPath, "/internal/python") || strings.Contains(p.PkgPath, "/internal/cpp/ndjson")) {
			continue
		}
		info := p.TypesInfo
		k := 0
		ast.Inspect(d.Body, func(nn ast.Node) bool {
			ce, ok := nn.(*ast.CallExpr)
			if !ok || !strings.HasSuffix(types.ExprString(ce.Fun), "Fprintf") || len(ce.Args) < 3 {
				return true
			}
			tv, ok := info.Types[ce.Args[1]]
			if !ok || tv.Value == nil || tv.Value.Kind() != constant.String {
				return true
			}
			tmpl := constant.StringVal(tv.Value)
			for _, sp := range spots {
				loc := sp.FindStringIndex(tmpl)
				if loc == nil {
					continue
				}
				// which verb is the %s of the spot?
				at := loc[0] + strings.Index(tmpl[loc[0]:loc[1]], "%s")
				idx := -1
				for i, m := range verb.FindAllStringIndex(tmpl, -1) {
					if m[0] == at {
						idx = i
					}
				}
				if strings.Contains(tmpl, "%[") || idx < 0 || 2+idx >= len(ce.Args) {
					continue
				}
				arg := ast.Unparen(ce.Args[2+idx])
				n++
				k++
				key := fmt.Sprintf("%s/%s#%d", c.FuncName(d), sp.String(), k)
				good := false
				if se, ok := arg.(*ast.SelectorExpr); ok && se.Sel.Name == "Tag" {
					if nt := core.NamedOf(info.TypeOf(se.X)); nt != nil && nt.Obj().Name() == "TypeCase" {
						good = true
					}
				}
				c.Check(good, rule, key, ce.Pos(), "the case's Tag field itself",
					"the tag is printed from `"+types.ExprString(arg)+"`, not from the case's .Tag: the NDJSON text of a tagged union then spells the tag differently from the other languages (`{\"Int32\": 7}` vs `{\"int32\": 7}`) and their readers do not find the case")
			}
			return true
		})
	}
	if n == 0 {
		c.Undecided(rule, "anchor/printed tags", 0, "no printed tag attribute / key / comparison found")
	}
}

// ruleEnumFallbackKeepsTheBaseType (EN2): an enum value without a symbol is written to NDJSON as its integer. The C++
// converter prints the cast for it; the cast is to the enum's underlying type — a fixed type such as int truncates
// 64-bit values and turns large unsigned ones negative.
func ruleEnumFallbackKeepsTheBaseType(c *core.Ctx) {
	const rule = "EN2"
	c.Rule(rule, "cpp/ndjson: a printed `j = static_cast<T>(value)` casts to `underlying_type` (declared from std::underlying_type), never to a fixed integer type", 1)
	p := c.Pkg("internal/cpp/ndjson")
	if p == nil {
		c.Undecided(rule, "anchor/internal/cpp/ndjson", 0, "package not found")
		return
	}
	cast := regexp.MustCompile(`j = static_cast<([^>]*)>\(value\)`)
	n := 0
	for _, f := range p.Syntax {
		if c.IsTestFile(f.Pos()) {
			continue
		}
		ast.Inspect(f, func(m ast.Node) bool {
			bl, ok := m.(*ast.BasicLit)
			if !ok || bl.Kind != token.STRING {
				return true
			}
			tv, ok := p.TypesInfo.Types[bl]
			if !ok || tv.Value == nil {
				return true
			}
			for _, mm := range cast.FindAllStringSubmatch(constant.StringVal(tv.Value), -1) {
				n++
				c.Check(strings.TrimSpace(mm[1]) == "underlying_type", rule, fmt.Sprintf("printed cast/static_cast<%s>#%d", mm[1], n), bl.Pos(), "the enum's underlying type",
					"an enum value without a symbol is written through static_cast<"+mm[1]+">: values of enums with a 64-bit or unsigned base are truncated or written as negative numbers and read back as another value")
			}
			return true
		})
	}
	if n == 0 {
		c.Undecided(rule, "anchor/printed cast of an enum value", 0, "no printed `j = static_cast<…>(value)` found in cpp/ndjson")
	}
}
