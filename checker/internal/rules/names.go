package rules

// Rules about the identifiers and option-gated artefacts of generated code (C08).
//
//  N1  reserved-word tables of the three back ends ⊇ refs/keywords.json
//  N2  every <X>IdentifierName helper consults the reserved table with the spelling it emits
//  N3  Namespace.GetAllChildReferences lists dependencies first (post-order)
//  N4  every mention of a format-specific artefact (hdf5, ndjson) in the production
//      generators sits under the option that enables that format
//  N5  the uniqueness checks of validation see the distinctions the back ends keep

import (
	"fmt"
	"go/ast"
	"go/constant"
	"go/token"
	"go/types"
	"regexp"
	"sort"
	"strings"

	"golang.org/x/tools/go/packages"
	"golang.org/x/tools/go/ssa"

	"verif/checker/internal/core"
)

var backendLangs = []string{"cpp", "python", "matlab"}

type reservedTable struct {
	obj  *types.Var
	keys map[string]bool
	pos  token.Pos
}

// reservedTableOf finds the package-level map[string]T variable whose name contains
// "reserved" in internal/<lang>/common and reads its literal keys.
func reservedTableOf(c *core.Ctx, lang string) (*reservedTable, *packages.Package) {
	p := c.Pkg("internal/" + lang + "/common")
	if p == nil {
		return nil, nil
	}
	for _, f := range p.Syntax {
		for _, d := range f.Decls {
			gd, ok := d.(*ast.GenDecl)
			if !ok || gd.Tok != token.VAR {
				continue
			}
			for _, s := range gd.Specs {
				vs := s.(*ast.ValueSpec)
				for i, n := range vs.Names {
					if !strings.Contains(strings.ToLower(n.Name), "reserved") || i >= len(vs.Values) {
						continue
					}
					obj, _ := p.TypesInfo.Defs[n].(*types.Var)
					if obj == nil {
						continue
					}
					m, ok := obj.Type().Underlying().(*types.Map)
					if !ok || !types.Identical(m.Key(), types.Typ[types.String]) {
						continue
					}
					t := &reservedTable{obj: obj, keys: map[string]bool{}, pos: n.Pos()}
					cl, ok := vs.Values[i].(*ast.CompositeLit)
					if !ok {
						// a set built from lists of words: `newNameSet(keywords, builtinTypeNames)`
						if ce, isCall := vs.Values[i].(*ast.CallExpr); isCall && setFromLists(c, p, ce, t.keys) {
							return t, p
						}
						continue
					}
					for _, e := range cl.Elts {
						kv, ok := e.(*ast.KeyValueExpr)
						if !ok {
							return nil, p
						}
						tv := p.TypesInfo.Types[kv.Key]
						if tv.Value == nil || tv.Value.Kind() != constant.String {
							return nil, p
						}
						t.keys[constant.StringVal(tv.Value)] = true
					}
					return t, p
				}
			}
		}
	}
	return nil, p
}

// setFromLists: ce calls a same-package function that returns a map and whose body stores every element of its
// (variadic) slice parameters as a key; the arguments are []string literals or package variables initialised once
// with such literals. The words are added to keys.
func setFromLists(c *core.Ctx, p *packages.Package, ce *ast.CallExpr, keys map[string]bool) bool {
	info := p.TypesInfo
	f := core.Callee(info, ce)
	if f == nil || f.Pkg() != p.Types {
		return false
	}
	fd := c.Decl(f.Origin())
	if fd == nil || fd.Body == nil {
		return false
	}
	// the body ranges (possibly twice) down to a string that is stored as a map key, with no condition around it
	stores := false
	conditional := false
	ast.Inspect(fd.Body, func(n ast.Node) bool {
		switch x := n.(type) {
		case *ast.IfStmt, *ast.SwitchStmt:
			conditional = true
		case *ast.AssignStmt:
			for _, l := range x.Lhs {
				if ix, ok := ast.Unparen(l).(*ast.IndexExpr); ok {
					if _, isMap := info.TypeOf(ix.X).Underlying().(*types.Map); isMap {
						if id, ok := ast.Unparen(ix.Index).(*ast.Ident); ok {
							if v, ok := info.ObjectOf(id).(*types.Var); ok && types.Identical(v.Type(), types.Typ[types.String]) {
								stores = true
							}
						}
					}
				}
			}
		}
		return true
	})
	if !stores || conditional {
		return false
	}
	var words func(e ast.Expr, depth int) bool
	words = func(e ast.Expr, depth int) bool {
		switch x := ast.Unparen(e).(type) {
		case *ast.CompositeLit:
			for _, el := range x.Elts {
				tv, ok := info.Types[el]
				if !ok || tv.Value == nil || tv.Value.Kind() != constant.String {
					return false
				}
				keys[constant.StringVal(tv.Value)] = true
			}
			return true
		case *ast.Ident:
			if depth > 2 {
				return false
			}
			obj := info.ObjectOf(x)
			for _, file := range p.Syntax {
				for _, d := range file.Decls {
					gd, ok := d.(*ast.GenDecl)
					if !ok || gd.Tok != token.VAR {
						continue
					}
					for _, sp := range gd.Specs {
						vs := sp.(*ast.ValueSpec)
						for i, nm := range vs.Names {
							if info.Defs[nm] == obj && i < len(vs.Values) {
								return words(vs.Values[i], depth+1)
							}
						}
					}
				}
			}
		}
		return false
	}
	if len(ce.Args) == 0 {
		return false
	}
	for _, a := range ce.Args {
		if !words(a, 0) {
			return false
		}
	}
	return true
}

// N1
func ruleReservedTables(c *core.Ctx) {
	const rule = "N1"
	c.Rule(rule, "the reserved-word table of each back end contains every keyword of its target language (refs/keywords.json); a keyword missing from the table is emitted verbatim as a field/type/enumerator name and the generated code does not parse", 130)
	var ref map[string]any
	if err := loadRef("keywords.json", &ref); err != nil {
		c.Undecided(rule, "refs/keywords.json", 0, "cannot load reference table: "+err.Error())
		return
	}
	for _, lang := range backendLangs {
		t, _ := reservedTableOf(c, lang)
		if t == nil {
			c.Undecided(rule, lang+"/table", 0, "reserved-word table of internal/"+lang+"/common not found or not a literal")
			continue
		}
		words, _ := ref[lang].([]any)
		if len(words) == 0 {
			c.Undecided(rule, lang+"/ref", 0, "reference list empty")
			continue
		}
		for _, w := range words {
			kw := w.(string)
			c.Check(t.keys[kw], rule, lang+"/"+kw, t.pos, "in "+t.obj.Name(), fmt.Sprintf("keyword %q of %s is not in %s: a model name that converts to it is emitted unescaped", kw, lang, t.obj.Name()))
		}
	}
}

// identifier helpers: func XIdentifierName(<string>) string in internal/<lang>/common
func identifierHelpers(c *core.Ctx, p *packages.Package) []*ast.FuncDecl {
	var out []*ast.FuncDecl
	for _, f := range p.Syntax {
		for _, d := range f.Decls {
			fd, ok := d.(*ast.FuncDecl)
			if !ok || fd.Body == nil || fd.Recv != nil || !strings.HasSuffix(fd.Name.Name, "IdentifierName") {
				continue
			}
			sig := p.TypesInfo.Defs[fd.Name].Type().(*types.Signature)
			if sig.Params().Len() != 1 || sig.Results().Len() != 1 {
				continue
			}
			if !types.Identical(sig.Params().At(0).Type(), types.Typ[types.String]) || !types.Identical(sig.Results().At(0).Type(), types.Typ[types.String]) {
				continue
			}
			out = append(out, fd)
		}
	}
	sort.Slice(out, func(i, j int) bool { return out[i].Pos() < out[j].Pos() })
	return out
}

var lowerWord = regexp.MustCompile(`^[a-z]+$`)

// N2 (decided on SSA, so that the shape of the helper — early return, if/else, single exit with
// `id += "_"`, a predicate helper around the table lookup — does not matter):
// let K be the value looked up in the reserved table and `reserved` the outcome. On every path on
// which the outcome is "not reserved" the helper returns K itself; on every path on which it is
// "reserved" it returns a different value computed from K.
func ruleIdentifierHelpers(c *core.Ctx) {
	const rule = "N2"
	c.Rule(rule, "every <X>IdentifierName(name string) helper of a back end looks the identifier it is about to emit (after case conversion) up in the reserved-word table and returns it unchanged only when it is not reserved", 14)
	for _, lang := range backendLangs {
		t, p := reservedTableOf(c, lang)
		if t == nil || p == nil {
			c.Undecided(rule, lang+"/table", 0, "reserved-word table not found")
			continue
		}
		info := p.TypesInfo
		for _, fd := range identifierHelpers(c, p) {
			fn := c.FuncName(fd)
			key := fn + "/reserved-check"
			fobj, _ := info.Defs[fd.Name].(*types.Func)
			sf := c.SSAFunc(fobj)
			if sf == nil || len(sf.Blocks) == 0 {
				c.Undecided(rule, key, fd.Pos(), "no SSA for the helper")
				continue
			}
			lk := findReservedLookup(sf, t.obj, c)
			if lk == nil {
				// the helper hands the converted identifier to a same-package escaping helper
				if g, arg := delegatesTo(sf); g != nil {
					if why := escapesItsParameter(g, t.obj, c); why == "" {
						c.OK(rule, key, fd.Pos(), fmt.Sprintf("returns %s(`%s`): %s looks its parameter up, returns it when not reserved and a value derived from it otherwise", g.Name(), valueText(arg), g.Name()))
						continue
					}
				}
			}
			if lk == nil {
				c.Bad(rule, key, fd.Pos(), fmt.Sprintf("%s derives a target-language identifier from a model name without consulting %s: a name that converts to a keyword (e.g. namespace 'Class' -> 'class') is emitted verbatim", fd.Name.Name, t.obj.Name()))
				continue
			}
			if lk.err != "" {
				c.Undecided(rule, key, fd.Pos(), lk.err)
				continue
			}
			// classify the returned values by the side of the test they come from
			rsDom := map[*ssa.BasicBlock]bool{}
			if len(lk.reservedSucc.Preds) == 1 {
				for _, b := range sf.Blocks {
					if lk.reservedSucc.Dominates(b) {
						rsDom[b] = true
					}
				}
			} else {
				c.Undecided(rule, key, fd.Pos(), "the branch taken for a reserved identifier joins other paths immediately; shape not recognised")
				continue
			}
			type occ struct {
				v      ssa.Value
				origin *ssa.BasicBlock
			}
			var occs []occ
			var expand func(v ssa.Value, origin *ssa.BasicBlock, depth int)
			expand = func(v ssa.Value, origin *ssa.BasicBlock, depth int) {
				if phi, ok := v.(*ssa.Phi); ok && depth < 4 {
					for i, e := range phi.Edges {
						expand(e, phi.Block().Preds[i], depth+1)
					}
					return
				}
				occs = append(occs, occ{v, origin})
			}
			for _, b := range sf.Blocks {
				for _, ins := range b.Instrs {
					if r, ok := ins.(*ssa.Return); ok && len(r.Results) == 1 {
						expand(r.Results[0], b, 0)
					}
				}
			}
			nPlain, nEsc := 0, 0
			bad := ""
			for _, o := range occs {
				if rsDom[o.origin] {
					nEsc++
					if sameValue(o.v, lk.key) {
						bad = "a reserved identifier is returned unescaped"
					} else if !dependsOn(o.v, lk.key, 0) {
						bad = "the escaped spelling is not derived from the identifier that was looked up"
					}
				} else {
					nPlain++
					if !sameValue(o.v, lk.key) {
						bad = fmt.Sprintf("the reserved table is consulted with `%s` but the identifier returned when it is not reserved is `%s`: a name whose converted form is reserved (e.g. notEq -> not_eq) is emitted unescaped", valueText(lk.key), valueText(o.v))
					}
				}
			}
			if bad == "" && (nPlain == 0 || nEsc == 0) {
				bad = "the helper does not return both an unescaped and an escaped spelling"
			}
			if bad == "" {
				c.OK(rule, key, fd.Pos(), fmt.Sprintf("looks up `%s`, returns it when not reserved and a value derived from it otherwise", valueText(lk.key)))
				continue
			}
			// audited exception: lookup of the raw name where that is equivalent
			if fn == "internal/matlab/common.ComputedFieldIdentifierName" {
				param := sf.Params[0]
				okShape := sameValue(lk.key, param)
				for _, o := range occs {
					if !rsDom[o.origin] {
						call, isCall := o.v.(*ssa.Call)
						okShape = okShape && isCall && call.Common().StaticCallee() != nil && call.Common().StaticCallee().Name() == "ToSnakeCase" && len(call.Common().Args) == 1 && sameValue(call.Common().Args[0], param)
					}
				}
				allLower := true
				for k := range t.keys {
					allLower = allLower && lowerWord.MatchString(k)
				}
				if okShape && allLower {
					c.OK(rule, key, fd.Pos(), "looks up the model spelling, emits ToSnakeCase(name): equivalent here because every MATLAB reserved word is [a-z]+ and member names match ^[a-z][a-zA-Z0-9]*$ — ToSnakeCase(name) is such a word only if name has no upper-case letter or digit, i.e. name == ToSnakeCase(name)")
					continue
				}
			}
			c.Bad(rule, key, fd.Pos(), bad)
		}
	}
}

// delegatesTo: every return of fn returns the result of one call g(x) of a same-package function with a single
// string parameter.
func delegatesTo(fn *ssa.Function) (*ssa.Function, ssa.Value) {
	var g *ssa.Function
	var arg ssa.Value
	for _, b := range fn.Blocks {
		for _, ins := range b.Instrs {
			r, ok := ins.(*ssa.Return)
			if !ok {
				continue
			}
			if len(r.Results) != 1 {
				return nil, nil
			}
			call, ok := r.Results[0].(*ssa.Call)
			if !ok {
				return nil, nil
			}
			callee := call.Common().StaticCallee()
			if callee == nil || callee.Pkg != fn.Pkg || len(callee.Params) != 1 || len(call.Common().Args) != 1 || len(callee.Blocks) == 0 {
				return nil, nil
			}
			if g != nil && g != callee {
				return nil, nil
			}
			g, arg = callee, call.Common().Args[0]
		}
	}
	return g, arg
}

// escapesItsParameter: g looks its parameter up in the reserved table, returns the parameter itself on every path
// where it is not reserved and a different value derived from it where it is. "" when that holds, else the reason.
func escapesItsParameter(g *ssa.Function, table *types.Var, c *core.Ctx) string {
	lk := findReservedLookup(g, table, c)
	if lk == nil {
		return "no lookup"
	}
	if lk.err != "" {
		return lk.err
	}
	param := ssa.Value(g.Params[0])
	if lk.key != param {
		return "looks up something other than its parameter"
	}
	if len(lk.reservedSucc.Preds) != 1 {
		return "shape not recognised"
	}
	nPlain, nEsc := 0, 0
	var expand func(v ssa.Value, origin *ssa.BasicBlock, depth int) string
	expand = func(v ssa.Value, origin *ssa.BasicBlock, depth int) string {
		if phi, ok := v.(*ssa.Phi); ok && depth < 4 {
			for i, e := range phi.Edges {
				if why := expand(e, phi.Block().Preds[i], depth+1); why != "" {
					return why
				}
			}
			return ""
		}
		if lk.reservedSucc.Dominates(origin) {
			nEsc++
			if sameValue(v, param) {
				return "a reserved identifier is returned unescaped"
			}
			if !dependsOn(v, param, 0) {
				return "the escaped spelling is not derived from the identifier"
			}
			return ""
		}
		nPlain++
		if !sameValue(v, param) {
			return "the identifier returned when not reserved is not the one looked up"
		}
		return ""
	}
	for _, b := range g.Blocks {
		for _, ins := range b.Instrs {
			if r, ok := ins.(*ssa.Return); ok && len(r.Results) == 1 {
				if why := expand(r.Results[0], b, 0); why != "" {
					return why
				}
			}
		}
	}
	if nPlain == 0 || nEsc == 0 {
		return "does not return both spellings"
	}
	return ""
}

type reservedLookup struct {
	key          ssa.Value       // the value looked up
	reservedSucc *ssa.BasicBlock // successor of the test taken when the identifier is reserved
	err          string
}

// findReservedLookup locates, in fn, the test of the reserved table: a map lookup on the table
// (comma-ok or bool-valued) or a call of a same-package predicate whose body is such a lookup on
// its parameter, and the If that branches on it (possibly negated).
func findReservedLookup(fn *ssa.Function, table *types.Var, c *core.Ctx) *reservedLookup {
	isTable := func(v ssa.Value) bool {
		if u, ok := v.(*ssa.UnOp); ok && u.Op == token.MUL {
			if g, ok := u.X.(*ssa.Global); ok && g.Object() == table {
				return true
			}
		}
		return false
	}
	// outcome values: SSA values that are true iff reserved, with the key they test
	type outcome struct {
		v   ssa.Value
		key ssa.Value
	}
	var outs []outcome
	lookupOutcome := func(f *ssa.Function) (res ssa.Value, key ssa.Value) {
		for _, b := range f.Blocks {
			for _, ins := range b.Instrs {
				lk, ok := ins.(*ssa.Lookup)
				if !ok || !isTable(lk.X) {
					continue
				}
				if lk.CommaOk {
					for _, r := range *lk.Referrers() {
						if ex, ok := r.(*ssa.Extract); ok && ex.Index == 1 {
							return ex, lk.Index
						}
					}
					return nil, lk.Index
				}
				if b, ok := lk.Type().Underlying().(*types.Basic); ok && b.Kind() == types.Bool {
					return lk, lk.Index
				}
				return nil, lk.Index
			}
		}
		return nil, nil
	}
	if v, k := lookupOutcome(fn); k != nil {
		if v == nil {
			return &reservedLookup{err: "the table lookup does not produce a reserved/not-reserved outcome"}
		}
		outs = append(outs, outcome{v, k})
	}
	// predicate helper
	for _, b := range fn.Blocks {
		for _, ins := range b.Instrs {
			call, ok := ins.(*ssa.Call)
			if !ok {
				continue
			}
			callee := call.Common().StaticCallee()
			if callee == nil || callee.Pkg != fn.Pkg || len(callee.Params) != 1 || len(call.Common().Args) != 1 {
				continue
			}
			if bt, ok := call.Type().Underlying().(*types.Basic); !ok || bt.Kind() != types.Bool {
				continue
			}
			v, k := lookupOutcome(callee)
			if v == nil || k != ssa.Value(callee.Params[0]) {
				continue
			}
			// the predicate must return exactly the outcome
			okRet := true
			for _, cb := range callee.Blocks {
				for _, ci := range cb.Instrs {
					if r, ok := ci.(*ssa.Return); ok && (len(r.Results) != 1 || r.Results[0] != v) {
						okRet = false
					}
				}
			}
			if okRet {
				outs = append(outs, outcome{call, call.Common().Args[0]})
			}
		}
	}
	if len(outs) == 0 {
		return nil
	}
	if len(outs) > 1 {
		return &reservedLookup{err: "more than one lookup in the reserved table; shape not recognised"}
	}
	o := outs[0]
	for _, b := range fn.Blocks {
		if len(b.Instrs) == 0 {
			continue
		}
		ifi, ok := b.Instrs[len(b.Instrs)-1].(*ssa.If)
		if !ok {
			continue
		}
		cond := ifi.Cond
		neg := false
		for {
			if u, ok := cond.(*ssa.UnOp); ok && u.Op == token.NOT {
				neg = !neg
				cond = u.X
				continue
			}
			break
		}
		if cond != o.v {
			continue
		}
		rs := b.Succs[0]
		if neg {
			rs = b.Succs[1]
		}
		return &reservedLookup{key: o.key, reservedSucc: rs}
	}
	return &reservedLookup{err: "the outcome of the table lookup is not branched on"}
}

// sameValue: identical SSA values, or calls of the same static callee on equal arguments
// (go/ssa does not merge repeated pure calls).
func sameValue(a, b ssa.Value) bool {
	if a == b {
		return true
	}
	ca, ok1 := a.(*ssa.Call)
	cb, ok2 := b.(*ssa.Call)
	if ok1 && ok2 && ca.Common().StaticCallee() != nil && ca.Common().StaticCallee() == cb.Common().StaticCallee() && len(ca.Common().Args) == len(cb.Common().Args) {
		if p := ca.Common().StaticCallee().Pkg; p != nil && strings.HasSuffix(p.Pkg.Path(), "/internal/formatting") {
			for i := range ca.Common().Args {
				if !sameValue(ca.Common().Args[i], cb.Common().Args[i]) {
					return false
				}
			}
			return true
		}
	}
	return false
}

func dependsOn(v, on ssa.Value, depth int) bool {
	if sameValue(v, on) {
		return true
	}
	if depth > 6 {
		return false
	}
	ins, ok := v.(ssa.Instruction)
	if !ok {
		return false
	}
	for _, op := range ins.Operands(nil) {
		if *op != nil && dependsOn(*op, on, depth+1) {
			return true
		}
	}
	// variadic Sprintf arguments travel through a slice: follow stores into the allocated array
	if sl, ok := v.(*ssa.Slice); ok {
		if al, ok := sl.X.(*ssa.Alloc); ok {
			for _, r := range *al.Referrers() {
				if ia, ok := r.(*ssa.IndexAddr); ok {
					for _, rr := range *ia.Referrers() {
						if st, ok := rr.(*ssa.Store); ok && dependsOn(st.Val, on, depth+1) {
							return true
						}
					}
				}
			}
		}
	}
	if mi, ok := v.(*ssa.MakeInterface); ok {
		return dependsOn(mi.X, on, depth+1)
	}
	return false
}

func valueText(v ssa.Value) string {
	if v == nil {
		return "?"
	}
	if p, ok := v.(*ssa.Parameter); ok {
		return p.Name()
	}
	if c, ok := v.(*ssa.Call); ok && c.Common().StaticCallee() != nil {
		var args []string
		for _, a := range c.Common().Args {
			args = append(args, valueText(a))
		}
		return c.Common().StaticCallee().Name() + "(" + strings.Join(args, ", ") + ")"
	}
	if b, ok := v.(*ssa.BinOp); ok {
		return valueText(b.X) + " " + b.Op.String() + " " + valueText(b.Y)
	}
	if k, ok := v.(*ssa.Const); ok {
		return k.Value.String()
	}
	return v.Name()
}

// singleDefIsCall: variable v is defined exactly once in fd, as <pkg>.<fn>(arg).
func singleDefIsCall(info *types.Info, fd *ast.FuncDecl, v types.Object, fn string, arg types.Object) bool {
	n, ok := 0, false
	ast.Inspect(fd.Body, func(x ast.Node) bool {
		as, isAs := x.(*ast.AssignStmt)
		if !isAs {
			return true
		}
		for i, l := range as.Lhs {
			id, isId := l.(*ast.Ident)
			if !isId || (info.Defs[id] != v && info.Uses[id] != v) {
				continue
			}
			n++
			if len(as.Rhs) == len(as.Lhs) {
				if call, isCall := as.Rhs[i].(*ast.CallExpr); isCall && len(call.Args) == 1 {
					if callee := core.Callee(info, call); callee != nil && callee.Name() == fn {
						if a, isId := call.Args[0].(*ast.Ident); isId && info.Uses[a] == arg {
							ok = true
						}
					}
				}
			}
		}
		return true
	})
	return n == 1 && ok
}

// N3
func ruleDependenciesFirst(c *core.Ctx) {
	const rule = "N3"
	c.Rule(rule, "Namespace.GetAllChildReferences returns referenced namespaces dependencies-first (post-order): python/types.writeGetDTypeFunc registers dtypes in that order and a dtype expression calls get_dtype(<type of a referenced namespace>) at import time", 2)
	_, d, p := c.Func("pkg/dsl", "Namespace.GetAllChildReferences")
	if d == nil {
		c.Undecided(rule, "anchor/GetAllChildReferences", 0, "anchor function not found")
		return
	}
	info := p.TypesInfo
	// the consumers that rely on the order
	consumers := 0
	for _, fd := range c.AllDecls() {
		for _, cs := range c.Calls(fd) {
			if cs.Callee != nil && cs.Callee.Name() == "GetAllChildReferences" && core.InModule(cs.Callee) {
				consumers++
			}
		}
	}
	c.Check(consumers > 0, rule, "consumers", d.Pos(), fmt.Sprintf("%d call sites consume the order", consumers), "no consumer found")

	// the recursive collector: a closure of the function that calls itself, or a function / method of the package that
	// the function calls and that calls itself
	type recFn struct {
		body   *ast.BlockStmt
		isSelf func(call *ast.CallExpr) bool
	}
	var cands []recFn
	ast.Inspect(d.Body, func(n ast.Node) bool {
		if as, ok := n.(*ast.AssignStmt); ok && len(as.Lhs) == 1 && len(as.Rhs) == 1 {
			if fl, ok := as.Rhs[0].(*ast.FuncLit); ok {
				if self := identObj(info, as.Lhs[0]); self != nil {
					cands = append(cands, recFn{fl.Body, func(call *ast.CallExpr) bool { return identObj(info, call.Fun) == self }})
				}
			}
		}
		if ce, ok := n.(*ast.CallExpr); ok {
			if f := core.Callee(info, ce); f != nil && f.Pkg() == p.Types {
				if fd := c.Decl(f); fd != nil && fd.Body != nil && fd != d {
					ff := f
					cands = append(cands, recFn{fd.Body, func(call *ast.CallExpr) bool {
						g := core.Callee(info, call)
						return g != nil && g.Origin() == ff.Origin()
					}})
				}
			}
		}
		return true
	})
	isNamespaceSlice := func(e ast.Expr) bool {
		sl, ok := info.TypeOf(e).Underlying().(*types.Slice)
		if !ok {
			return false
		}
		nt := core.NamedOf(sl.Elem())
		return nt != nil && nt.Obj().Name() == "Namespace"
	}
	found := false
	for _, cand := range cands {
		recursive := false
		ast.Inspect(cand.body, func(n ast.Node) bool {
			if ce, ok := n.(*ast.CallExpr); ok && cand.isSelf(ce) {
				recursive = true
			}
			return true
		})
		if !recursive {
			continue
		}
		// find, in one block, the recursive call on x and the append of x
		ast.Inspect(cand.body, func(n ast.Node) bool {
			blk, ok := n.(*ast.BlockStmt)
			if !ok {
				return true
			}
			rec, app := -1, -1
			var recArg, appArg types.Object
			for i, s := range blk.List {
				switch st := s.(type) {
				case *ast.ExprStmt:
					if call, ok := st.X.(*ast.CallExpr); ok && len(call.Args) >= 1 && cand.isSelf(call) {
						if a := identObj(info, call.Args[len(call.Args)-1]); a != nil && rec < 0 {
							rec, recArg = i, a
						} else if a := identObj(info, call.Args[0]); a != nil && rec < 0 {
							rec, recArg = i, a
						}
					}
				case *ast.AssignStmt:
					if len(st.Lhs) == 1 && len(st.Rhs) == 1 && isNamespaceSlice(st.Lhs[0]) {
						if call, ok := st.Rhs[0].(*ast.CallExpr); ok && len(call.Args) == 2 {
							if f, ok := call.Fun.(*ast.Ident); ok && f.Name == "append" {
								if a := identObj(info, call.Args[1]); a != nil {
									app, appArg = i, a
								}
							}
						}
					}
				}
			}
			if rec >= 0 && app >= 0 && recArg == appArg {
				found = true
				c.Check(rec < app, rule, "pkg/dsl.(*Namespace).GetAllChildReferences/post-order", blk.List[app].Pos(),
					"the collector descends into a reference before appending it: everything a namespace imports precedes it in the result",
					"a reference is appended before the collector descends into it: an importing namespace precedes the namespaces it imports, and the generated Python registers a dtype that calls get_dtype() on a type not yet registered")
			}
			return true
		})
	}
	if !found {
		c.Undecided(rule, "pkg/dsl.(*Namespace).GetAllChildReferences/post-order", d.Pos(), "recursive call and append of the same reference not found in one block of a recursive collector")
	}
}

// N4
type formatFamily struct {
	name   string
	option string // field of *CodegenOptions
	re     *regexp.Regexp
}

var formatFamilies = []formatFamily{
	{"hdf5", "GenerateHDF5", regexp.MustCompile(`(?i)hdf5`)},
	{"ndjson", "GenerateNDJson", regexp.MustCompile(`(?i)ndjson`)},
}

// production generator files whose output depends on the documented options
func optionGatedFile(f string) bool {
	for _, s := range []string{"/internal/cpp/cpp.go", "/internal/cpp/cmake.go", "/internal/cpp/include/include.go", "/internal/python/python.go"} {
		if strings.HasSuffix(f, s) {
			return true
		}
	}
	return false
}

// gatedByTableRow: the mention n sits in a row of a literal table of structs whose other column holds the option, and
// every loop over the table looks at that column first (`if !row.enabled { continue }` / `if row.enabled { ... }`):
//
//	parts := []struct{ enabled bool; write func(...) error }{ {options.GenerateHDF5, hdf5.WriteHdf5}, ... }
//	for _, part := range parts { if !part.enabled { continue }; part.write(...) }
func gatedByTableRow(info *types.Info, fd *ast.FuncDecl, stack []ast.Node, n ast.Node, isOption func(ast.Expr) bool) bool {
	// the row and the table literal around n
	var row, table *ast.CompositeLit
	for i := len(stack) - 1; i >= 1; i-- {
		cl, ok := stack[i].(*ast.CompositeLit)
		if !ok {
			continue
		}
		if up, ok := stack[i-1].(*ast.CompositeLit); ok {
			row, table = cl, up
			break
		}
	}
	if row == nil {
		return false
	}
	st, _ := info.TypeOf(row).Underlying().(*types.Struct)
	if st == nil {
		return false
	}
	// the column that holds the option in this row
	col := ""
	for i, e := range row.Elts {
		val, name := e, ""
		if kv, isKV := e.(*ast.KeyValueExpr); isKV {
			val = kv.Value
			if id, ok := kv.Key.(*ast.Ident); ok {
				name = id.Name
			}
		} else if i < st.NumFields() {
			name = st.Field(i).Name()
		}
		if isOption(val) && name != "" {
			col = name
		}
	}
	if col == "" {
		return false
	}
	// the variable the table is stored in
	var tv types.Object
	ast.Inspect(fd.Body, func(m ast.Node) bool {
		if as, ok := m.(*ast.AssignStmt); ok {
			for i, r := range as.Rhs {
				if ast.Unparen(r) == ast.Expr(table) && i < len(as.Lhs) {
					tv = identObj(info, as.Lhs[i])
				}
			}
		}
		return true
	})
	if tv == nil {
		return false
	}
	// every loop over the table tests the column before anything else
	uses, gated := 0, 0
	testsCol := func(cond ast.Expr, rowIs func(ast.Expr) bool, negated bool) bool {
		e := ast.Unparen(cond)
		if negated {
			u, ok := e.(*ast.UnaryExpr)
			if !ok || u.Op != token.NOT {
				return false
			}
			e = ast.Unparen(u.X)
		}
		se, ok := e.(*ast.SelectorExpr)
		return ok && se.Sel.Name == col && rowIs(se.X)
	}
	gatedBody := func(body *ast.BlockStmt, rowIs func(ast.Expr) bool) bool {
		// explaining locals in front (`row := table[i]`) are fine
		list := body.List
		for len(list) > 0 {
			as, ok := list[0].(*ast.AssignStmt)
			if !ok || len(as.Rhs) != 1 || !rowIs(as.Rhs[0]) {
				break
			}
			alias := identObj(info, as.Lhs[0])
			prev := rowIs
			rowIs = func(e ast.Expr) bool { return prev(e) || (alias != nil && identObj(info, e) == alias) }
			list = list[1:]
		}
		if len(list) == 0 {
			return false
		}
		ifs, ok := list[0].(*ast.IfStmt)
		if !ok {
			return false
		}
		if testsCol(ifs.Cond, rowIs, true) && len(ifs.Body.List) == 1 {
			if br, ok := ifs.Body.List[0].(*ast.BranchStmt); ok && br.Tok == token.CONTINUE {
				return true
			}
		}
		if testsCol(ifs.Cond, rowIs, false) && ifs.Else == nil && len(list) == 1 {
			return true
		}
		return false
	}
	ast.Inspect(fd.Body, func(m ast.Node) bool {
		switch l := m.(type) {
		case *ast.RangeStmt:
			if identObj(info, l.X) != tv {
				return true
			}
			uses++
			val := identObj(info, l.Value)
			key := identObj(info, l.Key)
			rowIs := func(e ast.Expr) bool {
				if val != nil && identObj(info, e) == val {
					return true
				}
				if ix, ok := ast.Unparen(e).(*ast.IndexExpr); ok && identObj(info, ix.X) == tv && key != nil && identObj(info, ix.Index) == key {
					return true
				}
				return false
			}
			if gatedBody(l.Body, rowIs) {
				gated++
			}
		case *ast.ForStmt:
			mentions := false
			ast.Inspect(l, func(x ast.Node) bool {
				if id, ok := x.(*ast.Ident); ok && info.ObjectOf(id) == tv {
					mentions = true
				}
				return true
			})
			if !mentions {
				return true
			}
			uses++
			rowIs := func(e ast.Expr) bool {
				ix, ok := ast.Unparen(e).(*ast.IndexExpr)
				return ok && identObj(info, ix.X) == tv
			}
			if gatedBody(l.Body, rowIs) {
				gated++
			}
			return false
		}
		return true
	})
	// no other use of the table
	other := 0
	ast.Inspect(fd.Body, func(m ast.Node) bool {
		if id, ok := m.(*ast.Ident); ok && info.Uses[id] == tv {
			other++
		}
		return true
	})
	return uses > 0 && uses == gated && other <= 3*uses
}

func ruleOptionGating(c *core.Ctx) {
	const rule = "N4"
	c.Rule(rule, "in the production generators every mention of an artefact of an optional format (call into the hdf5/ndjson emitter package, embedded header set, file name or import line in an emitted template) is in the then-branch of a test of the option that enables the format; the option reaches helper functions only as that same flag", 8)
	for _, fd := range c.AllDecls() {
		file := c.Fset.Position(fd.Pos()).Filename
		if !optionGatedFile(file) {
			continue
		}
		p := c.DeclPkg(fd)
		info := p.TypesInfo
		fn := c.FuncName(fd)
		// bool parameters that carry an option
		flagParams := map[types.Object]string{}
		for _, fl := range fd.Type.Params.List {
			for _, n := range fl.Names {
				for _, fam := range formatFamilies {
					if strings.EqualFold(n.Name, fam.option) {
						flagParams[info.Defs[n]] = fam.name
					}
				}
			}
		}
		guardOf := func(cond ast.Expr) string {
			switch x := ast.Unparen(cond).(type) {
			case *ast.SelectorExpr:
				if v, ok := info.Uses[x.Sel].(*types.Var); ok && v.IsField() {
					for _, fam := range formatFamilies {
						if v.Name() == fam.option {
							return fam.name
						}
					}
				}
			case *ast.Ident:
				if f, ok := flagParams[info.Uses[x]]; ok {
					return f
				}
			}
			return ""
		}
		var stack []ast.Node
		mention := func(n ast.Node, fam formatFamily, what string) {
			guarded := false
			for i := len(stack) - 1; i >= 0; i-- {
				ifs, ok := stack[i].(*ast.IfStmt)
				if !ok || guardOf(ifs.Cond) != fam.name {
					continue
				}
				if n.Pos() >= ifs.Body.Pos() && n.End() <= ifs.Body.End() {
					guarded = true
					break
				}
			}
			if !guarded && gatedByTableRow(info, fd, stack, n, func(e ast.Expr) bool { return guardOf(e) == fam.name }) {
				guarded = true
			}
			key := fmt.Sprintf("%s/%s/%s", fn, fam.name, what)
			c.Check(guarded, rule, key, n.Pos(), "under if "+fam.option, fmt.Sprintf("%s is mentioned without a test of %s: with the option off the output refers to files that are not generated", what, fam.option))
		}
		ast.Inspect(fd.Body, func(n ast.Node) bool {
			if n == nil {
				stack = stack[:len(stack)-1]
				return true
			}
			stack = append(stack, n)
			switch x := n.(type) {
			case *ast.CallExpr:
				if callee := core.Callee(info, x); callee != nil && callee.Pkg() != nil {
					pp := callee.Pkg().Path()
					for _, fam := range formatFamilies {
						if strings.HasSuffix(pp, "/"+fam.name) && pp != p.PkgPath {
							mention(x, fam, "call "+callee.Pkg().Name()+"."+callee.Name())
						}
					}
					// flag passed on to a helper
					if d2 := c.Decl(callee); d2 != nil {
						i := 0
						for _, fl := range d2.Type.Params.List {
							for _, pn := range fl.Names {
								for _, fam := range formatFamilies {
									if strings.EqualFold(pn.Name, fam.option) && i < len(x.Args) {
										ok := guardOf(x.Args[i]) == fam.name
										c.Check(ok, rule, fmt.Sprintf("%s/%s/flag passed to %s", fn, fam.name, callee.Name()), x.Args[i].Pos(),
											"argument is the option itself", fmt.Sprintf("parameter %s of %s receives %s, not the option %s", pn.Name, callee.Name(), types.ExprString(x.Args[i]), fam.option))
									}
								}
								i++
							}
						}
					}
				}
			case *ast.SelectorExpr:
				// a function of the optional format's package used as a value (a row of a table of writers)
				if f, ok := info.Uses[x.Sel].(*types.Func); ok && f.Pkg() != nil && f.Pkg().Path() != p.PkgPath {
					isCallee := false
					if len(stack) >= 2 {
						if ce, isCall := stack[len(stack)-2].(*ast.CallExpr); isCall && ast.Unparen(ce.Fun) == ast.Expr(x) {
							isCallee = true
						}
					}
					if !isCallee {
						for _, fam := range formatFamilies {
							if strings.HasSuffix(f.Pkg().Path(), "/"+fam.name) {
								mention(x, fam, "reference "+f.Pkg().Name()+"."+f.Name())
							}
						}
					}
				}
			case *ast.Ident:
				if v, ok := info.Uses[x].(*types.Var); ok && v.Parent() == v.Pkg().Scope() && core.InModuleVar(v) {
					for _, fam := range formatFamilies {
						if fam.re.MatchString(v.Name()) {
							mention(x, fam, "variable "+v.Name())
						}
					}
				}
			case *ast.BasicLit:
				if x.Kind == token.STRING {
					for _, fam := range formatFamilies {
						if fam.re.MatchString(x.Value) {
							mention(x, fam, "template text")
						}
					}
				}
			}
			return true
		})
	}
}

// N5
type nameCategory struct {
	name      string
	validator string // function in pkg/dsl holding the uniqueness map
	mapVar    string
	helpers   []string // identifier helpers of the back ends (in internal/<lang>/common)
	collision string
}

var nameCategories = []nameCategory{
	{"record field", "validateRecordFieldNames", "fields", []string{"FieldIdentifierName", "ComputedFieldIdentifierName"}, "fooBAR / fooBar -> foo_bar"},
	{"protocol step", "validateProtocolSequenceNames", "steps", []string{"ProtocolWriteMethodName", "ProtocolReadMethodName"}, "stepAB / stepAb -> write_step_ab"},
	{"enum symbol", "validateEnums", "symbols", []string{"EnumValueIdentifierName"}, "fooBAR / fooBar -> FOO_BAR"},
}

// case conversions of internal/formatting: injective on names matching ^[a-z][a-zA-Z0-9]*$ ?
var conversionInjective = map[string]bool{
	"ToPascalCase":     true,  // without separators only the first letter is upper-cased, and it is always lower-case in a member name
	"ToCamelCase":      true,  // identity on member names
	"ToSnakeCase":      false, // fooBAR and fooBar both give foo_bar
	"ToUpperSnakeCase": false, // fooBAR and fooBar both give FOO_BAR
}

// normalisers under which a uniqueness key separates exactly what the back ends separate (or less)
var acceptedKeyNormalisers = map[string]bool{"ToSnakeCase": true, "ToUpperSnakeCase": true, "ToLower": true, "ToUpper": true, "EqualFold": true}

func ruleUniquenessVsMangling(c *core.Ctx) {
	const rule = "N5"
	c.Rule(rule, "names that validation keeps apart stay apart in generated code: where a back end converts a member name with a many-to-one case conversion, the uniqueness check of validation compares the converted (or case-folded) spelling, not the model spelling", 3)
	for _, cat := range nameCategories {
		key := cat.name
		_, d, p := c.Func("pkg/dsl", cat.validator)
		if d == nil {
			c.Undecided(rule, key, 0, "validator "+cat.validator+" not found")
			continue
		}
		info := p.TypesInfo
		// the key expressions stored into the uniqueness map
		var keyExprs []ast.Expr
		ast.Inspect(d.Body, func(n ast.Node) bool {
			if as, ok := n.(*ast.AssignStmt); ok {
				for _, l := range as.Lhs {
					if ix, ok := l.(*ast.IndexExpr); ok {
						if id, ok := ix.X.(*ast.Ident); ok && id.Name == cat.mapVar {
							if _, isMap := info.TypeOf(ix.X).Underlying().(*types.Map); isMap {
								keyExprs = append(keyExprs, ix.Index)
							}
						}
					}
				}
			}
			return true
		})
		if len(keyExprs) == 0 {
			c.Undecided(rule, key, d.Pos(), "no store into the uniqueness map "+cat.mapVar+" found in "+cat.validator)
			continue
		}
		normalised := true
		for _, k := range keyExprs {
			call, ok := ast.Unparen(k).(*ast.CallExpr)
			if !ok {
				normalised = false
				continue
			}
			callee := core.Callee(info, call)
			if callee == nil || !acceptedKeyNormalisers[callee.Name()] {
				normalised = false
			}
		}
		// conversions applied by the back ends
		var lossy []string
		nh := 0
		for _, lang := range backendLangs {
			for _, h := range cat.helpers {
				_, hd, hp := c.Func("internal/"+lang+"/common", h)
				if hd == nil {
					continue
				}
				nh++
				ast.Inspect(hd.Body, func(n ast.Node) bool {
					if call, ok := n.(*ast.CallExpr); ok {
						if callee := core.Callee(hp.TypesInfo, call); callee != nil && callee.Pkg() != nil && strings.HasSuffix(callee.Pkg().Path(), "/internal/formatting") {
							inj, known := conversionInjective[callee.Name()]
							if !known || !inj {
								lossy = append(lossy, lang+"."+h+":"+callee.Name())
							}
						}
					}
					return true
				})
			}
		}
		if nh == 0 {
			c.Undecided(rule, key, d.Pos(), "no back-end helper found for this category")
			continue
		}
		sort.Strings(lossy)
		switch {
		case len(lossy) == 0:
			c.OK(rule, key, keyExprs[0].Pos(), fmt.Sprintf("the %d back-end helpers apply only injective conversions", nh))
		case normalised:
			c.OK(rule, key, keyExprs[0].Pos(), "uniqueness is checked on a case-normalised spelling")
		default:
			c.Bad(rule, key, keyExprs[0].Pos(), fmt.Sprintf("%s checks uniqueness of %s names on the model spelling (%s) while %s convert many-to-one (%s): both names are accepted and the generated code declares the same identifier twice",
				cat.validator, cat.name, types.ExprString(keyExprs[0]), strings.Join(lossy, ", "), cat.collision))
		}
	}
}
