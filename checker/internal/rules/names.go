package rules

// Rules about the identifiers and option-gated artefacts of generated code (C08).
//
//  N1  reserved-word tables of the three back ends ⊇ refs/keywords.json
//  N2  every <X>IdentifierName helper consults the reserved table with the spelling it emits
//  N3  Namespace.GetAllChildReferences lists dependencies first (post-order)
//  N4  every mention of a format-specific artefact (hdf5, ndjson) in the production
//      generators sits under the option that enables that format
//  N5  the uniqueness checks of validation see the distinctions the back ends keep

import (
	"fmt"
	"go/ast"
	"go/constant"
	"go/token"
	"go/types"
	"regexp"
	"sort"
	"strings"

	"golang.org/x/tools/go/packages"

	"verif/checker/internal/core"
)

var backendLangs = []string{"cpp", "python", "matlab"}

type reservedTable struct {
	obj  *types.Var
	keys map[string]bool
	pos  token.Pos
}

// reservedTableOf finds the package-level map[string]T variable whose name contains
// "reserved" in internal/<lang>/common and reads its literal keys.
func reservedTableOf(c *core.Ctx, lang string) (*reservedTable, *packages.Package) {
	p := c.Pkg("internal/" + lang + "/common")
	if p == nil {
		return nil, nil
	}
	for _, f := range p.Syntax {
		for _, d := range f.Decls {
			gd, ok := d.(*ast.GenDecl)
			if !ok || gd.Tok != token.VAR {
				continue
			}
			for _, s := range gd.Specs {
				vs := s.(*ast.ValueSpec)
				for i, n := range vs.Names {
					if !strings.Contains(strings.ToLower(n.Name), "reserved") || i >= len(vs.Values) {
						continue
					}
					obj, _ := p.TypesInfo.Defs[n].(*types.Var)
					if obj == nil {
						continue
					}
					m, ok := obj.Type().Underlying().(*types.Map)
					if !ok || !types.Identical(m.Key(), types.Typ[types.String]) {
						continue
					}
					cl, ok := vs.Values[i].(*ast.CompositeLit)
					if !ok {
						continue
					}
					t := &reservedTable{obj: obj, keys: map[string]bool{}, pos: n.Pos()}
					for _, e := range cl.Elts {
						kv, ok := e.(*ast.KeyValueExpr)
						if !ok {
							return nil, p
						}
						tv := p.TypesInfo.Types[kv.Key]
						if tv.Value == nil || tv.Value.Kind() != constant.String {
							return nil, p
						}
						t.keys[constant.StringVal(tv.Value)] = true
					}
					return t, p
				}
			}
		}
	}
	return nil, p
}

// N1
func ruleReservedTables(c *core.Ctx) {
	const rule = "N1"
	c.Rule(rule, "the reserved-word table of each back end contains every keyword of its target language (refs/keywords.json); a keyword missing from the table is emitted verbatim as a field/type/enumerator name and the generated code does not parse", 130)
	var ref map[string]any
	if err := loadRef("keywords.json", &ref); err != nil {
		c.Undecided(rule, "refs/keywords.json", 0, "cannot load reference table: "+err.Error())
		return
	}
	for _, lang := range backendLangs {
		t, _ := reservedTableOf(c, lang)
		if t == nil {
			c.Undecided(rule, lang+"/table", 0, "reserved-word table of internal/"+lang+"/common not found or not a literal")
			continue
		}
		words, _ := ref[lang].([]any)
		if len(words) == 0 {
			c.Undecided(rule, lang+"/ref", 0, "reference list empty")
			continue
		}
		for _, w := range words {
			kw := w.(string)
			c.Check(t.keys[kw], rule, lang+"/"+kw, t.pos, "in "+t.obj.Name(), fmt.Sprintf("keyword %q of %s is not in %s: a model name that converts to it is emitted unescaped", kw, lang, t.obj.Name()))
		}
	}
}

// identifier helpers: func XIdentifierName(<string>) string in internal/<lang>/common
func identifierHelpers(c *core.Ctx, p *packages.Package) []*ast.FuncDecl {
	var out []*ast.FuncDecl
	for _, f := range p.Syntax {
		for _, d := range f.Decls {
			fd, ok := d.(*ast.FuncDecl)
			if !ok || fd.Body == nil || fd.Recv != nil || !strings.HasSuffix(fd.Name.Name, "IdentifierName") {
				continue
			}
			sig := p.TypesInfo.Defs[fd.Name].Type().(*types.Signature)
			if sig.Params().Len() != 1 || sig.Results().Len() != 1 {
				continue
			}
			if !types.Identical(sig.Params().At(0).Type(), types.Typ[types.String]) || !types.Identical(sig.Results().At(0).Type(), types.Typ[types.String]) {
				continue
			}
			out = append(out, fd)
		}
	}
	sort.Slice(out, func(i, j int) bool { return out[i].Pos() < out[j].Pos() })
	return out
}

var lowerWord = regexp.MustCompile(`^[a-z]+$`)

// N2
func ruleIdentifierHelpers(c *core.Ctx) {
	const rule = "N2"
	c.Rule(rule, "every <X>IdentifierName(name string) helper of a back end looks the identifier it is about to emit (after case conversion) up in the reserved-word table and returns it unchanged only when it is not reserved", 14)
	for _, lang := range backendLangs {
		t, p := reservedTableOf(c, lang)
		if t == nil || p == nil {
			c.Undecided(rule, lang+"/table", 0, "reserved-word table not found")
			continue
		}
		info := p.TypesInfo
		for _, fd := range identifierHelpers(c, p) {
			fn := c.FuncName(fd)
			param := info.Defs[fd.Type.Params.List[0].Names[0]]
			var keys []ast.Expr
			ast.Inspect(fd.Body, func(n ast.Node) bool {
				if ix, ok := n.(*ast.IndexExpr); ok {
					if id, ok := ast.Unparen(ix.X).(*ast.Ident); ok && info.Uses[id] == t.obj {
						keys = append(keys, ix.Index)
					}
				}
				return true
			})
			if len(keys) == 0 {
				c.Bad(rule, fn+"/reserved-check", fd.Pos(), fmt.Sprintf("%s derives a target-language identifier from a model name without consulting %s: a name that converts to a keyword (e.g. namespace 'Class' -> 'class') is emitted verbatim", fd.Name.Name, t.obj.Name()))
				continue
			}
			if len(keys) > 1 {
				c.Undecided(rule, fn+"/reserved-check", fd.Pos(), "more than one lookup in the reserved table; shape not recognised")
				continue
			}
			key := keys[0]
			keyObj := types.Object(nil)
			if id, ok := ast.Unparen(key).(*ast.Ident); ok {
				keyObj = info.Uses[id]
			}
			// returns
			var plain []ast.Expr // results returned in the not-reserved branch: a bare variable
			var all []ast.Expr
			ast.Inspect(fd.Body, func(n ast.Node) bool {
				if _, ok := n.(*ast.FuncLit); ok {
					return false
				}
				if r, ok := n.(*ast.ReturnStmt); ok && len(r.Results) == 1 {
					all = append(all, r.Results[0])
					if _, ok := ast.Unparen(r.Results[0]).(*ast.Ident); ok {
						plain = append(plain, r.Results[0])
					}
				}
				return true
			})
			if keyObj == nil || len(plain) != 1 || len(all) < 2 {
				c.Undecided(rule, fn+"/reserved-check", fd.Pos(), "helper shape not recognised (expected: lookup of a variable, one unescaped return, one escaped return)")
				continue
			}
			emitted := info.Uses[ast.Unparen(plain[0]).(*ast.Ident)]
			// every other return must derive from the emitted spelling
			derived := true
			for _, r := range all {
				if r == plain[0] {
					continue
				}
				uses := false
				ast.Inspect(r, func(n ast.Node) bool {
					if id, ok := n.(*ast.Ident); ok && info.Uses[id] == emitted {
						uses = true
					}
					return true
				})
				derived = derived && uses
			}
			if !derived {
				c.Bad(rule, fn+"/reserved-check", key.Pos(), "the escaped spelling is not derived from the unescaped one")
				continue
			}
			if emitted == keyObj {
				c.OK(rule, fn+"/reserved-check", key.Pos(), fmt.Sprintf("looks up %s, returns %s when not reserved and an escaped form of it otherwise", keyObj.Name(), emitted.Name()))
				continue
			}
			// audited exception: lookup of the raw name where that is equivalent
			if fn == "internal/matlab/common.ComputedFieldIdentifierName" && keyObj == param && singleDefIsCall(info, fd, emitted, "ToSnakeCase", param) {
				allLower := true
				for k := range t.keys {
					allLower = allLower && lowerWord.MatchString(k)
				}
				if allLower {
					c.OK(rule, fn+"/reserved-check", key.Pos(), "looks up the model spelling, emits ToSnakeCase(name): equivalent here because every MATLAB reserved word is [a-z]+ and member names match ^[a-z][a-zA-Z0-9]*$ — ToSnakeCase(name) is such a word only if name has no upper-case letter or digit, i.e. name == ToSnakeCase(name)")
					continue
				}
			}
			c.Bad(rule, fn+"/reserved-check", key.Pos(), fmt.Sprintf("the reserved table is consulted with %s but the identifier emitted is %s: a name whose converted form is reserved (e.g. notEq -> not_eq) is emitted unescaped", keyObj.Name(), emitted.Name()))
		}
	}
}

// singleDefIsCall: variable v is defined exactly once in fd, as <pkg>.<fn>(arg).
func singleDefIsCall(info *types.Info, fd *ast.FuncDecl, v types.Object, fn string, arg types.Object) bool {
	n, ok := 0, false
	ast.Inspect(fd.Body, func(x ast.Node) bool {
		as, isAs := x.(*ast.AssignStmt)
		if !isAs {
			return true
		}
		for i, l := range as.Lhs {
			id, isId := l.(*ast.Ident)
			if !isId || (info.Defs[id] != v && info.Uses[id] != v) {
				continue
			}
			n++
			if len(as.Rhs) == len(as.Lhs) {
				if call, isCall := as.Rhs[i].(*ast.CallExpr); isCall && len(call.Args) == 1 {
					if callee := core.Callee(info, call); callee != nil && callee.Name() == fn {
						if a, isId := call.Args[0].(*ast.Ident); isId && info.Uses[a] == arg {
							ok = true
						}
					}
				}
			}
		}
		return true
	})
	return n == 1 && ok
}

// N3
func ruleDependenciesFirst(c *core.Ctx) {
	const rule = "N3"
	c.Rule(rule, "Namespace.GetAllChildReferences returns referenced namespaces dependencies-first (post-order): python/types.writeGetDTypeFunc registers dtypes in that order and a dtype expression calls get_dtype(<type of a referenced namespace>) at import time", 2)
	_, d, p := c.Func("pkg/dsl", "Namespace.GetAllChildReferences")
	if d == nil {
		c.Undecided(rule, "anchor/GetAllChildReferences", 0, "anchor function not found")
		return
	}
	info := p.TypesInfo
	// the consumers that rely on the order
	consumers := 0
	for _, fd := range c.AllDecls() {
		for _, cs := range c.Calls(fd) {
			if cs.Callee != nil && cs.Callee.Name() == "GetAllChildReferences" && core.InModule(cs.Callee) {
				consumers++
			}
		}
	}
	c.Check(consumers > 0, rule, "consumers", d.Pos(), fmt.Sprintf("%d call sites consume the order", consumers), "no consumer found")

	// result variable: the one returned
	var result types.Object
	for _, s := range d.Body.List {
		if r, ok := s.(*ast.ReturnStmt); ok && len(r.Results) == 1 {
			if id, ok := r.Results[0].(*ast.Ident); ok {
				result = info.Uses[id]
			}
		}
	}
	// recursive closure: var assigned a FuncLit which calls itself
	var lit *ast.FuncLit
	var self types.Object
	ast.Inspect(d.Body, func(n ast.Node) bool {
		if as, ok := n.(*ast.AssignStmt); ok && len(as.Lhs) == 1 && len(as.Rhs) == 1 {
			if fl, ok := as.Rhs[0].(*ast.FuncLit); ok {
				if id, ok := as.Lhs[0].(*ast.Ident); ok {
					lit = fl
					self = info.Uses[id]
					if self == nil {
						self = info.Defs[id]
					}
				}
			}
		}
		return true
	})
	if result == nil || lit == nil || self == nil {
		c.Undecided(rule, "pkg/dsl.(*Namespace).GetAllChildReferences/post-order", d.Pos(), "shape not recognised (expected a recursive closure appending to the returned slice)")
		return
	}
	// find, in one block, the recursive call on x and the append of x
	found := false
	ast.Inspect(lit.Body, func(n ast.Node) bool {
		blk, ok := n.(*ast.BlockStmt)
		if !ok {
			return true
		}
		rec, app := -1, -1
		var recArg, appArg types.Object
		for i, s := range blk.List {
			switch st := s.(type) {
			case *ast.ExprStmt:
				if call, ok := st.X.(*ast.CallExpr); ok && len(call.Args) == 1 {
					if id, ok := call.Fun.(*ast.Ident); ok && info.Uses[id] == self {
						if a, ok := call.Args[0].(*ast.Ident); ok && rec < 0 {
							rec, recArg = i, info.Uses[a]
						}
					}
				}
			case *ast.AssignStmt:
				if len(st.Lhs) == 1 && len(st.Rhs) == 1 {
					if id, ok := st.Lhs[0].(*ast.Ident); ok && info.Uses[id] == result {
						if call, ok := st.Rhs[0].(*ast.CallExpr); ok && len(call.Args) == 2 {
							if f, ok := call.Fun.(*ast.Ident); ok && f.Name == "append" {
								if a, ok := call.Args[1].(*ast.Ident); ok {
									app, appArg = i, info.Uses[a]
								}
							}
						}
					}
				}
			}
		}
		if rec >= 0 && app >= 0 && recArg == appArg {
			found = true
			c.Check(rec < app, rule, "pkg/dsl.(*Namespace).GetAllChildReferences/post-order", blk.List[app].Pos(),
				"the closure descends into a reference before appending it: everything a namespace imports precedes it in the result",
				"a reference is appended before the closure descends into it: an importing namespace precedes the namespaces it imports, and the generated Python registers a dtype that calls get_dtype() on a type not yet registered")
		}
		return true
	})
	if !found {
		c.Undecided(rule, "pkg/dsl.(*Namespace).GetAllChildReferences/post-order", d.Pos(), "recursive call and append of the same reference not found in one block")
	}
}

// N4
type formatFamily struct {
	name   string
	option string // field of *CodegenOptions
	re     *regexp.Regexp
}

var formatFamilies = []formatFamily{
	{"hdf5", "GenerateHDF5", regexp.MustCompile(`(?i)hdf5`)},
	{"ndjson", "GenerateNDJson", regexp.MustCompile(`(?i)ndjson`)},
}

// production generator files whose output depends on the documented options
func optionGatedFile(f string) bool {
	for _, s := range []string{"/internal/cpp/cpp.go", "/internal/cpp/cmake.go", "/internal/cpp/include/include.go", "/internal/python/python.go"} {
		if strings.HasSuffix(f, s) {
			return true
		}
	}
	return false
}

func ruleOptionGating(c *core.Ctx) {
	const rule = "N4"
	c.Rule(rule, "in the production generators every mention of an artefact of an optional format (call into the hdf5/ndjson emitter package, embedded header set, file name or import line in an emitted template) is in the then-branch of a test of the option that enables the format; the option reaches helper functions only as that same flag", 14)
	for _, fd := range c.AllDecls() {
		file := c.Fset.Position(fd.Pos()).Filename
		if !optionGatedFile(file) {
			continue
		}
		p := c.DeclPkg(fd)
		info := p.TypesInfo
		fn := c.FuncName(fd)
		// bool parameters that carry an option
		flagParams := map[types.Object]string{}
		for _, fl := range fd.Type.Params.List {
			for _, n := range fl.Names {
				for _, fam := range formatFamilies {
					if strings.EqualFold(n.Name, fam.option) {
						flagParams[info.Defs[n]] = fam.name
					}
				}
			}
		}
		guardOf := func(cond ast.Expr) string {
			switch x := ast.Unparen(cond).(type) {
			case *ast.SelectorExpr:
				if v, ok := info.Uses[x.Sel].(*types.Var); ok && v.IsField() {
					for _, fam := range formatFamilies {
						if v.Name() == fam.option {
							return fam.name
						}
					}
				}
			case *ast.Ident:
				if f, ok := flagParams[info.Uses[x]]; ok {
					return f
				}
			}
			return ""
		}
		var stack []ast.Node
		mention := func(n ast.Node, fam formatFamily, what string) {
			guarded := false
			for i := len(stack) - 1; i >= 0; i-- {
				ifs, ok := stack[i].(*ast.IfStmt)
				if !ok || guardOf(ifs.Cond) != fam.name {
					continue
				}
				if n.Pos() >= ifs.Body.Pos() && n.End() <= ifs.Body.End() {
					guarded = true
					break
				}
			}
			key := fmt.Sprintf("%s/%s/%s", fn, fam.name, what)
			c.Check(guarded, rule, key, n.Pos(), "under if "+fam.option, fmt.Sprintf("%s is mentioned without a test of %s: with the option off the output refers to files that are not generated", what, fam.option))
		}
		ast.Inspect(fd.Body, func(n ast.Node) bool {
			if n == nil {
				stack = stack[:len(stack)-1]
				return true
			}
			stack = append(stack, n)
			switch x := n.(type) {
			case *ast.CallExpr:
				if callee := core.Callee(info, x); callee != nil && callee.Pkg() != nil {
					pp := callee.Pkg().Path()
					for _, fam := range formatFamilies {
						if strings.HasSuffix(pp, "/"+fam.name) && pp != p.PkgPath {
							mention(x, fam, "call "+callee.Pkg().Name()+"."+callee.Name())
						}
					}
					// flag passed on to a helper
					if d2 := c.Decl(callee); d2 != nil {
						i := 0
						for _, fl := range d2.Type.Params.List {
							for _, pn := range fl.Names {
								for _, fam := range formatFamilies {
									if strings.EqualFold(pn.Name, fam.option) && i < len(x.Args) {
										ok := guardOf(x.Args[i]) == fam.name
										c.Check(ok, rule, fmt.Sprintf("%s/%s/flag passed to %s", fn, fam.name, callee.Name()), x.Args[i].Pos(),
											"argument is the option itself", fmt.Sprintf("parameter %s of %s receives %s, not the option %s", pn.Name, callee.Name(), types.ExprString(x.Args[i]), fam.option))
									}
								}
								i++
							}
						}
					}
				}
			case *ast.Ident:
				if v, ok := info.Uses[x].(*types.Var); ok && v.Parent() == v.Pkg().Scope() && core.InModuleVar(v) {
					for _, fam := range formatFamilies {
						if fam.re.MatchString(v.Name()) {
							mention(x, fam, "variable "+v.Name())
						}
					}
				}
			case *ast.BasicLit:
				if x.Kind == token.STRING {
					for _, fam := range formatFamilies {
						if fam.re.MatchString(x.Value) {
							mention(x, fam, "template text")
						}
					}
				}
			}
			return true
		})
	}
}

// N5
type nameCategory struct {
	name      string
	validator string // function in pkg/dsl holding the uniqueness map
	mapVar    string
	helpers   []string // identifier helpers of the back ends (in internal/<lang>/common)
	collision string
}

var nameCategories = []nameCategory{
	{"record field", "validateRecordFieldNames", "fields", []string{"FieldIdentifierName", "ComputedFieldIdentifierName"}, "fooBAR / fooBar -> foo_bar"},
	{"protocol step", "validateProtocolSequenceNames", "steps", []string{"ProtocolWriteMethodName", "ProtocolReadMethodName"}, "stepAB / stepAb -> write_step_ab"},
	{"enum symbol", "validateEnums", "symbols", []string{"EnumValueIdentifierName"}, "fooBAR / fooBar -> FOO_BAR"},
}

// case conversions of internal/formatting: injective on names matching ^[a-z][a-zA-Z0-9]*$ ?
var conversionInjective = map[string]bool{
	"ToPascalCase":     true,  // without separators only the first letter is upper-cased, and it is always lower-case in a member name
	"ToCamelCase":      true,  // identity on member names
	"ToSnakeCase":      false, // fooBAR and fooBar both give foo_bar
	"ToUpperSnakeCase": false, // fooBAR and fooBar both give FOO_BAR
}

// normalisers under which a uniqueness key separates exactly what the back ends separate (or less)
var acceptedKeyNormalisers = map[string]bool{"ToSnakeCase": true, "ToUpperSnakeCase": true, "ToLower": true, "ToUpper": true, "EqualFold": true}

func ruleUniquenessVsMangling(c *core.Ctx) {
	const rule = "N5"
	c.Rule(rule, "names that validation keeps apart stay apart in generated code: where a back end converts a member name with a many-to-one case conversion, the uniqueness check of validation compares the converted (or case-folded) spelling, not the model spelling", 3)
	for _, cat := range nameCategories {
		key := cat.name
		_, d, p := c.Func("pkg/dsl", cat.validator)
		if d == nil {
			c.Undecided(rule, key, 0, "validator "+cat.validator+" not found")
			continue
		}
		info := p.TypesInfo
		// the key expressions stored into the uniqueness map
		var keyExprs []ast.Expr
		ast.Inspect(d.Body, func(n ast.Node) bool {
			if as, ok := n.(*ast.AssignStmt); ok {
				for _, l := range as.Lhs {
					if ix, ok := l.(*ast.IndexExpr); ok {
						if id, ok := ix.X.(*ast.Ident); ok && id.Name == cat.mapVar {
							if _, isMap := info.TypeOf(ix.X).Underlying().(*types.Map); isMap {
								keyExprs = append(keyExprs, ix.Index)
							}
						}
					}
				}
			}
			return true
		})
		if len(keyExprs) == 0 {
			c.Undecided(rule, key, d.Pos(), "no store into the uniqueness map "+cat.mapVar+" found in "+cat.validator)
			continue
		}
		normalised := true
		for _, k := range keyExprs {
			call, ok := ast.Unparen(k).(*ast.CallExpr)
			if !ok {
				normalised = false
				continue
			}
			callee := core.Callee(info, call)
			if callee == nil || !acceptedKeyNormalisers[callee.Name()] {
				normalised = false
			}
		}
		// conversions applied by the back ends
		var lossy []string
		nh := 0
		for _, lang := range backendLangs {
			for _, h := range cat.helpers {
				_, hd, hp := c.Func("internal/"+lang+"/common", h)
				if hd == nil {
					continue
				}
				nh++
				ast.Inspect(hd.Body, func(n ast.Node) bool {
					if call, ok := n.(*ast.CallExpr); ok {
						if callee := core.Callee(hp.TypesInfo, call); callee != nil && callee.Pkg() != nil && strings.HasSuffix(callee.Pkg().Path(), "/internal/formatting") {
							inj, known := conversionInjective[callee.Name()]
							if !known || !inj {
								lossy = append(lossy, lang+"."+h+":"+callee.Name())
							}
						}
					}
					return true
				})
			}
		}
		if nh == 0 {
			c.Undecided(rule, key, d.Pos(), "no back-end helper found for this category")
			continue
		}
		sort.Strings(lossy)
		switch {
		case len(lossy) == 0:
			c.OK(rule, key, keyExprs[0].Pos(), fmt.Sprintf("the %d back-end helpers apply only injective conversions", nh))
		case normalised:
			c.OK(rule, key, keyExprs[0].Pos(), "uniqueness is checked on a case-normalised spelling")
		default:
			c.Bad(rule, key, keyExprs[0].Pos(), fmt.Sprintf("%s checks uniqueness of %s names on the model spelling (%s) while %s convert many-to-one (%s): both names are accepted and the generated code declares the same identifier twice",
				cat.validator, cat.name, types.ExprString(keyExprs[0]), strings.Join(lossy, ", "), cat.collision))
		}
	}
}
