package rules

import (
	"go/ast"
	"go/constant"
	"go/token"
	"go/types"
	"strings"

	"verif/checker/internal/core"
	"verif/checker/internal/gee"
)

// flatRows: the emission rows of a generator function with the helpers of its package expanded in
// place: rows of a helper get the guards and loops of the call site in front of their own, and the
// helper's parameters are replaced by the argument texts. Which function prints a line does not
// matter to a rule that works on the result.
func flatRows(c *core.Ctx, pkgRel, fn string) ([]gee.Row, *ast.FuncDecl) {
	p := c.Pkg(pkgRel)
	if p == nil {
		return nil, nil
	}
	declOf := map[string]*ast.FuncDecl{}
	for _, f := range p.Syntax {
		for _, dd := range f.Decls {
			if fd, ok := dd.(*ast.FuncDecl); ok && fd.Body != nil && fd.Recv == nil {
				declOf[fd.Name.Name] = fd
			}
		}
	}
	root := declOf[fn]
	if root == nil {
		return nil, nil
	}
	cache := map[string][]gee.Row{}
	rowsOf := func(name string) []gee.Row {
		if r, ok := cache[name]; ok {
			return r
		}
		x := &gee.Extractor{Info: p.TypesInfo, Fset: c.Fset, Decl: func(f *types.Func) *ast.FuncDecl {
			if f == nil || f.Pkg() != p.Types {
				return nil
			}
			return declOf[f.Name()]
		}}
		cache[name] = x.Extract(name, declOf[name])
		return cache[name]
	}
	var out []gee.Row
	var expand func(name string, guards, loops, loopIx []string, subst map[string]string, stack map[string]bool, depth int)
	expand = func(name string, guards, loops, loopIx []string, subst map[string]string, stack map[string]bool, depth int) {
		if depth > 5 || stack[name] {
			return
		}
		stack[name] = true
		defer delete(stack, name)
		sub := func(s string) string {
			for k, v := range subst {
				s = replaceIdent(s, k, v)
			}
			return s
		}
		for _, r := range rowsOf(name) {
			nr := r
			nr.Guards = append(append([]string(nil), guards...), mapStrings(r.Guards, sub)...)
			nr.Loop = append(append([]string(nil), loops...), mapStrings(r.Loop, sub)...) // `range <param>` is a loop over the argument
			nr.LoopIx = append(append([]string(nil), loopIx...), r.LoopIx...)
			nr.Args = mapStrings(r.Args, sub)
			if r.Kind == "call" {
				cd := declOf[r.Tmpl]
				if cd == nil {
					continue
				}
				s2 := map[string]string{}
				pi := 0
				for _, fl := range cd.Type.Params.List {
					for _, nm := range fl.Names {
						if pi < len(nr.Args) && nm.Name != "_" && nr.Args[pi] != nm.Name {
							// dsl-typed parameters are rendered by their type name in the callee's rows
							if dslNamedType(p.TypesInfo.TypeOf(fl.Type)) == "" {
								s2[nm.Name] = nr.Args[pi]
							}
						}
						pi++
					}
				}
				expand(r.Tmpl, nr.Guards, nr.Loop, nr.LoopIx, s2, stack, depth+1)
				continue
			}
			// an emission of the value of a helper call stands for the helper's returns
			if nr.Kind == "emit" && strings.HasPrefix(nr.Tmpl, "VAR:") {
				if m := callRe.FindStringSubmatch(strings.TrimPrefix(nr.Tmpl, "VAR:")); m != nil && declOf[m[1]] != nil && m[1] != name {
					expanded := false
					for _, rr := range rowsOf(m[1]) {
						if rr.Kind != "return" || rr.In != "" {
							continue
						}
						e := nr
						e.Tmpl, e.Args = rr.Tmpl, rr.Args
						e.Guards = append(append([]string(nil), nr.Guards...), rr.Guards...)
						e.Pos, e.PosStr = rr.Pos, rr.PosStr
						out = append(out, e)
						expanded = true
					}
					if expanded {
						continue
					}
				}
			}
			out = append(out, nr)
		}
	}
	expand(fn, nil, nil, nil, nil, map[string]bool{}, 0)
	return out, root
}

func dslNamedType(t types.Type) string {
	for t != nil {
		if pt, ok := t.(*types.Pointer); ok {
			t = pt.Elem()
			continue
		}
		break
	}
	if n, ok := t.(*types.Named); ok && n.Obj().Pkg() != nil && strings.HasSuffix(n.Obj().Pkg().Path(), "/pkg/dsl") {
		return n.Obj().Name()
	}
	return ""
}

func mapStrings(in []string, f func(string) string) []string {
	out := make([]string, len(in))
	for i, s := range in {
		out[i] = f(s)
	}
	return out
}

// replaceIdent replaces whole-identifier occurrences of name in s.
func replaceIdent(s, name, with string) string {
	if name == "" || !strings.Contains(s, name) {
		return s
	}
	isId := func(b byte) bool {
		return b == '_' || b == '$' || (b >= '0' && b <= '9') || (b >= 'a' && b <= 'z') || (b >= 'A' && b <= 'Z')
	}
	var sb strings.Builder
	for i := 0; i < len(s); {
		if strings.HasPrefix(s[i:], name) && (i == 0 || (!isId(s[i-1]) && s[i-1] != '.')) && (i+len(name) == len(s) || !isId(s[i+len(name)])) {
			sb.WriteString(with)
			i += len(name)
			continue
		}
		sb.WriteByte(s[i])
		i++
	}
	return sb.String()
}

// stringConstantsDeep: every string constant in fn and in the functions of its package that it
// (transitively) calls.
func stringConstantsDeep(c *core.Ctx, pkgRel, fn string) []string {
	f, d, p := c.Func(pkgRel, fn)
	if f == nil || d == nil {
		return nil
	}
	seen := map[*ast.FuncDecl]bool{}
	var out []string
	var visit func(d *ast.FuncDecl, depth int)
	visit = func(d *ast.FuncDecl, depth int) {
		if d == nil || seen[d] || depth > 4 {
			return
		}
		seen[d] = true
		ast.Inspect(d.Body, func(n ast.Node) bool {
			if bl, ok := n.(*ast.BasicLit); ok && bl.Kind == token.STRING {
				if tv, ok := p.TypesInfo.Types[bl]; ok && tv.Value != nil && tv.Value.Kind() == constant.String {
					out = append(out, constant.StringVal(tv.Value))
				}
			}
			return true
		})
		for _, cs := range c.Calls(d) {
			if cs.Callee != nil && cs.Callee.Pkg() == p.Types {
				visit(c.Decl(cs.Callee), depth+1)
			}
		}
	}
	visit(d, 0)
	return out
}
