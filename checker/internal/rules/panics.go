package rules

import (
	"encoding/json"
	"fmt"
	"go/ast"
	"go/constant"
	"go/token"
	"go/types"
	"sort"
	"strings"

	"verif/checker/internal/core"
)

// P4: explicit aborts (panic, log.Panic().Msg*, log.Fatal().Msg*). Each is an obligation:
// discharged automatically when it is the default of a switch that is exhaustive over a
// sealed interface of pkg/dsl (all implementers have a case) or over all declared
// constants of a named integer/string type; otherwise it must be an audited table entry
// (invariant stated in words).

type abortSite struct {
	d    *ast.FuncDecl
	call *ast.CallExpr
}

func abortSites(c *core.Ctx, d *ast.FuncDecl) []abortSite {
	p := c.DeclPkg(d)
	info := p.TypesInfo
	var out []abortSite
	ast.Inspect(d.Body, func(n ast.Node) bool {
		if ce, ok := n.(*ast.CallExpr); ok && core.NoReturn(info, ce) {
			if f := core.Callee(info, ce); f != nil && core.FullName(f) == "os.Exit" {
				return true
			}
			if core.ZerologChainLevel(info, ce) == "Fatal" {
				return true // logs the error and exits with status 1: a diagnostic, not a crash
			}
			out = append(out, abortSite{d, ce})
		}
		return true
	})
	return out
}

// enclosingSwitchDefault: if call lies in the default clause of a (type) switch, return it.
func enclosingDefault(d *ast.FuncDecl, call *ast.CallExpr) (ast.Stmt, *ast.CaseClause) {
	var sw ast.Stmt
	var cl *ast.CaseClause
	ast.Inspect(d.Body, func(n ast.Node) bool {
		var body *ast.BlockStmt
		switch s := n.(type) {
		case *ast.SwitchStmt:
			body = s.Body
		case *ast.TypeSwitchStmt:
			body = s.Body
		default:
			return true
		}
		for _, st := range body.List {
			cc := st.(*ast.CaseClause)
			if cc.List == nil && cc.Pos() <= call.Pos() && call.End() <= cc.End() {
				// innermost wins: keep overwriting while descending
				sw = n.(ast.Stmt)
				cl = cc
			}
		}
		return true
	})
	if sw != nil {
		return sw, cl
	}
	// `switch x { case A: return …; case B: return … }` followed at once by the abort: the abort is the default of that
	// switch, written after it (every clause leaves, there is no default clause)
	ast.Inspect(d.Body, func(n ast.Node) bool {
		blk, ok := n.(*ast.BlockStmt)
		if !ok {
			return true
		}
		for i, st := range blk.List {
			if i == 0 || !(st.Pos() <= call.Pos() && call.End() <= st.End()) {
				continue
			}
			if es, ok := st.(*ast.ExprStmt); !ok || ast.Unparen(es.X) != ast.Expr(call) {
				continue
			}
			var body *ast.BlockStmt
			switch p := blk.List[i-1].(type) {
			case *ast.SwitchStmt:
				body = p.Body
			case *ast.TypeSwitchStmt:
				body = p.Body
			}
			if body == nil {
				continue
			}
			allLeave := len(body.List) > 0
			for _, c := range body.List {
				cc := c.(*ast.CaseClause)
				if cc.List == nil || len(cc.Body) == 0 || !stmtLeaves(cc.Body[len(cc.Body)-1]) {
					allLeave = false
				}
			}
			if allLeave {
				sw = blk.List[i-1]
				cl = nil
			}
		}
		return true
	})
	return sw, cl
}

// flow facts: implementers that cannot reach the switches of a function (frozen, with reasons)
const ff1 = "FF1: Namespace.TypeDefinitions holds only records, enums and aliases (UnmarshalTypeDefinition builds nothing else; protocols go to Namespace.Protocols)"
const ff2 = "FF2: a resolved type reference is never a protocol (resolveTypeByName rejects references to protocols)"
const ff3 = "FF3: TypeChangeIncompatible never reaches code generation (validateChanges returns an error first); DefinitionChanged/StepAdded are handled by the callers (requiresExplicitConversion, writeChangeSwitchCase)"

var sealedFlowFacts = map[string]map[string]string{
	"internal/ndjsoncommon.GetJsonDataType":              {"*ProtocolDefinition": ff2},
	"internal/python/common.TypeDefinitionDTypeSyntax":   {"*ProtocolDefinition": ff2},
	"internal/matlab/types.WriteTypes":                   {"*GenericTypeParameter": ff1, "*ProtocolDefinition": ff1, "PrimitiveDefinition": ff1},
	"internal/python/types.writeTypes":                   {"*GenericTypeParameter": ff1, "*ProtocolDefinition": ff1, "PrimitiveDefinition": ff1},
	"internal/matlab/binary.typeDefinitionSerializer":    {"*ProtocolDefinition": ff2},
	"internal/python/binary.typeDefinitionSerializer":    {"*ProtocolDefinition": ff2},
	"internal/python/ndjson.typeDefinitionConverter":     {"*ProtocolDefinition": ff2},
	"internal/cpp/binary.writeSerializers":               {"*EnumDefinition": "returned early by the first switch of writeSerializers", "*GenericTypeParameter": ff1, "*ProtocolDefinition": ff1, "PrimitiveDefinition": ff1},
	"internal/cpp/binary.writeTypeConversion":            {"*TypeChangeIncompatible": ff3, "*TypeChangeDefinitionChanged": ff3, "*TypeChangeStepAdded": ff3},
	"internal/cpp/binary.writeCompatibilitySerializers":  {"*DefinitionChangeIncompatible": ff3, "*DefinitionPair": "embedded helper, never used as a change by itself", "*EnumChange": "returned early by the first switch (enums need no compatibility serializers)", "*ProtocolChange": "protocol changes are emitted by writeProtocolMethods", "*ProtocolRemoved": "nothing to emit for a removed protocol"},
	"internal/matlab/types.writeComputedFieldExpression": {"*": "visitor over an Expression tree: only Expression, Pattern, SwitchCase, SubscriptArgument-free nodes and types occur below a computed field; every Expression implementer has a case (rule X2)"},
	"internal/python/types.writeComputedFieldExpression": {"*": "visitor over an Expression tree: every Expression implementer has a case (rule X2)"},
	"internal/cpp/types.writeComputedFieldExpression":    {"*": "visitor over an Expression tree: every Expression implementer has a case (rule X2)"},
}

// exhaustiveTypes: the cases of ti (a type switch, or a chain of type assertions read as one) cover every implementer
// of the sealed interface that is the static type of the subject.
func exhaustiveTypes(c *core.Ctx, info *types.Info, ti typeSwitchInfo, facts map[string]string) (bool, string) {
	st := info.TypeOf(ti.subject)
	if st == nil {
		return false, "subject type unknown"
	}
	iface, ok := st.Underlying().(*types.Interface)
	if !ok {
		return false, "subject is not an interface"
	}
	nt := core.NamedOf(st)
	if nt == nil || nt.Obj().Pkg() == nil || nt.Obj().Pkg().Path() != core.Mod+"/pkg/dsl" {
		return false, "subject is not a sealed interface of pkg/dsl"
	}
	var missing []string
	var excused []string
	for _, impl := range implementersOf(c, iface) {
		if _, ok := ti.covers(impl); !ok {
			if r, ok := facts[typeLabel(impl)]; ok {
				excused = append(excused, typeLabel(impl)+" ("+r+")")
				continue
			}
			if r, ok := facts["*"]; ok && nt.Obj().Name() == "Node" {
				excused = append(excused, typeLabel(impl))
				_ = r
				continue
			}
			missing = append(missing, typeLabel(impl))
		}
	}
	if len(missing) == 0 && len(excused) > 0 {
		if r, ok := facts["*"]; ok {
			return true, "type switch covers what can occur: " + r
		}
		return true, "type switch covers every implementer of " + nt.Obj().Name() + " that can reach it; excluded by flow fact: " + strings.Join(excused, "; ")
	}
	if len(missing) > 0 {
		return false, "implementers of " + nt.Obj().Name() + " without a case: " + strings.Join(missing, ", ")
	}
	return true, "type switch covers every implementer of " + nt.Obj().Name()
}

// assertChain reads an abort guarded by type assertions as the default of a type switch:
//
//	if a, ok := S.(*A); ok { return ... }          earlier sibling that leaves: *A is covered
//	b, ok := S.(*B); if !ok { panic(...) }         the abort: *B is covered
//
// or the final else of `if a, ok := S.(*A); ok {...} else if b, ok := S.(*B); ok {...} else { panic(...) }`.
func assertChain(info *types.Info, d *ast.FuncDecl, call *ast.CallExpr) (typeSwitchInfo, bool) {
	var stack []ast.Node
	var path []ast.Node
	ast.Inspect(d.Body, func(n ast.Node) bool {
		if n == nil {
			stack = stack[:len(stack)-1]
			return true
		}
		stack = append(stack, n)
		if n == ast.Node(call) {
			path = append([]ast.Node{}, stack...)
		}
		return true
	})
	// assertion `x, ok := S.(T)`: subject, type, the ok object
	assertOf := func(st ast.Stmt) (ast.Expr, types.Type, types.Object) {
		as, ok := st.(*ast.AssignStmt)
		if !ok || len(as.Lhs) != 2 || len(as.Rhs) != 1 {
			return nil, nil, nil
		}
		ta, ok := ast.Unparen(as.Rhs[0]).(*ast.TypeAssertExpr)
		if !ok || ta.Type == nil {
			return nil, nil, nil
		}
		id, ok := as.Lhs[1].(*ast.Ident)
		if !ok {
			return nil, nil, nil
		}
		return ta.X, info.TypeOf(ta.Type), info.ObjectOf(id)
	}
	isOk := func(e ast.Expr, o types.Object) bool {
		id, ok := ast.Unparen(e).(*ast.Ident)
		return ok && o != nil && info.ObjectOf(id) == o
	}
	isNotOk := func(e ast.Expr, o types.Object) bool {
		u, ok := ast.Unparen(e).(*ast.UnaryExpr)
		return ok && u.Op == token.NOT && isOk(u.X, o)
	}
	var ti typeSwitchInfo
	add := func(t types.Type) { ti.cases = append(ti.cases, tsCase{types: []types.Type{t}}) }
	sameSubject := func(e ast.Expr) bool {
		if ti.subject == nil {
			ti.subject = e
			return true
		}
		a, aok := keyOf(info, ti.subject)
		b, bok := keyOf(info, e)
		return aok && bok && a == b
	}
	// earlier siblings that leave on a successful assertion of the same subject
	siblings := func(holder []ast.Stmt, first ast.Stmt) {
		for k, st := range holder {
			if st == first {
				break
			}
			e, ok := st.(*ast.IfStmt)
			if !ok || e.Else != nil || len(e.Body.List) == 0 || !stmtLeaves(e.Body.List[len(e.Body.List)-1]) {
				continue
			}
			var subj ast.Expr
			var t types.Type
			var okObj types.Object
			if e.Init != nil {
				subj, t, okObj = assertOf(e.Init)
			} else if k > 0 {
				subj, t, okObj = assertOf(holder[k-1])
			}
			if subj != nil && isOk(e.Cond, okObj) {
				if a, aok := keyOf(info, subj); aok {
					if ti.subject == nil {
						ti.subject = subj
					}
					if b, bok := keyOf(info, ti.subject); bok && a == b {
						add(t)
					}
				}
			}
		}
	}
	// innermost if that holds the abort
	for i := len(path) - 1; i >= 1; i-- {
		ifs, ok := path[i].(*ast.IfStmt)
		if !ok {
			continue
		}
		blk, _ := path[i+1].(*ast.BlockStmt)
		if blk == nil {
			return ti, false
		}
		// the block that holds the statement the chain starts with, and that statement
		var holder []ast.Stmt
		var first ast.Stmt = ifs
		switch {
		case blk == ifs.Body:
			// form A: `if !ok { abort }`
			var subj ast.Expr
			var t types.Type
			var okObj types.Object
			if ifs.Init != nil {
				subj, t, okObj = assertOf(ifs.Init)
			}
			par, _ := path[i-1].(*ast.BlockStmt)
			var list []ast.Stmt
			if par != nil {
				list = par.List
			} else if cc, isCC := path[i-1].(*ast.CaseClause); isCC {
				list = cc.Body
			}
			if subj == nil {
				for j, st := range list {
					if st == ast.Stmt(ifs) && j > 0 {
						subj, t, okObj = assertOf(list[j-1])
						first = list[j-1]
					}
				}
			}
			if subj == nil || !isNotOk(ifs.Cond, okObj) || !sameSubject(subj) {
				return ti, false
			}
			add(t)
			holder = list
		case ast.Stmt(blk) == ifs.Else:
			// form B: final else of a chain; climb to the root of the chain
			root := ifs
			j := i
			for j >= 1 {
				up, ok := path[j-1].(*ast.IfStmt)
				if !ok || up.Else != ast.Stmt(root) {
					break
				}
				root = up
				j--
			}
			for cur := root; cur != nil; {
				if cur.Init == nil {
					return ti, false
				}
				subj, t, okObj := assertOf(cur.Init)
				if subj == nil || !isOk(cur.Cond, okObj) || !sameSubject(subj) {
					return ti, false
				}
				add(t)
				next, _ := cur.Else.(*ast.IfStmt)
				cur = next
			}
			first = root
			if par, ok := path[j-1].(*ast.BlockStmt); ok {
				holder = par.List
			} else if cc, ok := path[j-1].(*ast.CaseClause); ok {
				holder = cc.Body
			}
		default:
			return ti, false
		}
		siblings(holder, first)
		return ti, ti.subject != nil && len(ti.cases) > 0
	}
	// form C: the abort stands at the end of a statement list, after siblings that each leave on a successful assertion
	for i := len(path) - 1; i >= 1; i-- {
		es, ok := path[i].(*ast.ExprStmt)
		if !ok {
			continue
		}
		if blk, ok := path[i-1].(*ast.BlockStmt); ok {
			siblings(blk.List, es)
			return ti, ti.subject != nil && len(ti.cases) > 0
		}
		break
	}
	return ti, false
}

// enumCoverage: an abort that is reached only when a value of an enumeration type equals none of a list of constants,
// written without a switch:
//
//	if k == A { ... } else if k == B { ... } else { panic(...) }          (final else of an equality chain)
//	for _, row := range table { if row.key == k { return ... } }; panic(...)   (miss in a literal lookup table)
//	if v, ok := table[k]; ok { return ... }; panic(...)                     (miss in a literal map)
//
// Returns the enumeration type and the constant values that are covered.
func enumCoverage(c *core.Ctx, info *types.Info, d *ast.FuncDecl, call *ast.CallExpr) (*types.Named, map[string]bool, bool) {
	parent := map[ast.Node]ast.Node{}
	var stack []ast.Node
	ast.Inspect(d.Body, func(n ast.Node) bool {
		if n == nil {
			stack = stack[:len(stack)-1]
			return true
		}
		if len(stack) > 0 {
			parent[n] = stack[len(stack)-1]
		}
		stack = append(stack, n)
		return true
	})
	enumOf := func(e ast.Expr) *types.Named {
		nt := core.NamedOf(info.TypeOf(e))
		if nt == nil || nt.Obj().Pkg() == nil {
			return nil
		}
		if _, isBasic := nt.Underlying().(*types.Basic); !isBasic {
			return nil
		}
		return nt
	}
	subjKey := func(e ast.Expr) string {
		e = ast.Unparen(e)
		if id, ok := e.(*ast.Ident); ok {
			if r := singleDefRHS(info, d.Body, id); r != ast.Expr(id) {
				e = ast.Unparen(r)
			}
		}
		return types.ExprString(e)
	}
	// equalities `S == K`, possibly joined by ||
	var eqs func(e ast.Expr) (string, []string, bool)
	eqs = func(e ast.Expr) (string, []string, bool) {
		be, ok := ast.Unparen(e).(*ast.BinaryExpr)
		if !ok {
			return "", nil, false
		}
		if be.Op == token.LOR {
			s1, v1, ok1 := eqs(be.X)
			s2, v2, ok2 := eqs(be.Y)
			if ok1 && ok2 && s1 == s2 {
				return s1, append(v1, v2...), true
			}
			return "", nil, false
		}
		if be.Op != token.EQL {
			return "", nil, false
		}
		l, r := be.X, be.Y
		if tv, isC := info.Types[l]; isC && tv.Value != nil {
			l, r = r, l
		}
		tv, isC := info.Types[r]
		if !isC || tv.Value == nil || enumOf(l) == nil {
			return "", nil, false
		}
		return subjKey(l), []string{tv.Value.ExactString()}, true
	}
	// the statement that holds the abort, and the list it is in
	var st ast.Node = call
	for parent[st] != nil {
		if _, isStmt := st.(ast.Stmt); isStmt {
			break
		}
		st = parent[st]
	}
	covered := map[string]bool{}
	// (a) final else of an equality chain
	if blk, ok := parent[st].(*ast.BlockStmt); ok {
		if ifs, ok := parent[blk].(*ast.IfStmt); ok && ifs.Else == ast.Stmt(blk) {
			root := ifs
			for {
				up, ok := parent[root].(*ast.IfStmt)
				if !ok || up.Else != ast.Stmt(root) {
					break
				}
				root = up
			}
			subject := ""
			var nt *types.Named
			good := true
			for cur := root; cur != nil; {
				s, vals, ok := eqs(cur.Cond)
				if !ok || (subject != "" && s != subject) {
					good = false
					break
				}
				subject = s
				for _, v := range vals {
					covered[v] = true
				}
				if be, isB := ast.Unparen(cur.Cond).(*ast.BinaryExpr); isB && nt == nil {
					x := be.X
					for {
						if inner, isInner := ast.Unparen(x).(*ast.BinaryExpr); isInner && inner.Op == token.LOR {
							x = inner.X
							continue
						}
						break
					}
					if ib, isIB := ast.Unparen(x).(*ast.BinaryExpr); isIB {
						nt = enumOf(ib.X)
						if nt == nil {
							nt = enumOf(ib.Y)
						}
					} else {
						nt = enumOf(be.X)
						if nt == nil {
							nt = enumOf(be.Y)
						}
					}
				}
				next, _ := cur.Else.(*ast.IfStmt)
				cur = next
			}
			if good && nt != nil {
				return nt, covered, true
			}
		}
	}
	// (b)/(c) a miss in a literal table: the abort follows, in its statement list, a loop / lookup that returns on a hit
	var list []ast.Stmt
	switch pb := parent[st].(type) {
	case *ast.BlockStmt:
		list = pb.List
	case *ast.CaseClause:
		list = pb.Body
	}
	tableLit := func(e ast.Expr) *ast.CompositeLit {
		id, ok := ast.Unparen(e).(*ast.Ident)
		if !ok {
			return nil
		}
		obj := info.ObjectOf(id)
		if obj == nil || obj.Pkg() == nil {
			return nil
		}
		if obj.Parent() != obj.Pkg().Scope() {
			// a table built in the function itself: its only definition
			if r := singleDefRHS(info, d.Body, id); r != ast.Expr(id) {
				if cl, ok := ast.Unparen(r).(*ast.CompositeLit); ok {
					return cl
				}
			}
			return nil
		}
		var lit *ast.CompositeLit
		n := 0
		if p := c.PkgOf(obj.Pkg()); p != nil {
			for _, f := range p.Syntax {
				for _, dd := range f.Decls {
					gd, ok := dd.(*ast.GenDecl)
					if !ok || gd.Tok != token.VAR {
						continue
					}
					for _, sp := range gd.Specs {
						vs := sp.(*ast.ValueSpec)
						for i, nm := range vs.Names {
							if p.TypesInfo.Defs[nm] == obj && i < len(vs.Values) {
								n++
								lit, _ = ast.Unparen(vs.Values[i]).(*ast.CompositeLit)
							}
						}
					}
				}
			}
		}
		if n != 1 {
			return nil
		}
		return lit
	}
	// (d) `v, ok := table[k]; if !ok { abort }`
	if blk, ok := parent[st].(*ast.BlockStmt); ok {
		if ifs, ok := parent[blk].(*ast.IfStmt); ok && ifs.Body == blk {
			if u, ok := ast.Unparen(ifs.Cond).(*ast.UnaryExpr); ok && u.Op == token.NOT {
				if okObj := identObj(info, u.X); okObj != nil {
					var found *ast.IndexExpr
					ast.Inspect(d.Body, func(m ast.Node) bool {
						if as, isAs := m.(*ast.AssignStmt); isAs && len(as.Lhs) == 2 && len(as.Rhs) == 1 && identObj(info, as.Lhs[1]) == okObj {
							if ix, isIx := ast.Unparen(as.Rhs[0]).(*ast.IndexExpr); isIx {
								found = ix
							}
						}
						return true
					})
					if found != nil {
						if lit, nt := tableLit(found.X), enumOf(found.Index); lit != nil && nt != nil {
							litInfo := info
							if id, isId := ast.Unparen(found.X).(*ast.Ident); isId {
								if p := c.PkgOf(info.ObjectOf(id).Pkg()); p != nil {
									litInfo = p.TypesInfo
								}
							}
							for _, el := range lit.Elts {
								if kv, isKV := el.(*ast.KeyValueExpr); isKV {
									if tv, ok := litInfo.Types[kv.Key]; ok && tv.Value != nil {
										covered[tv.Value.ExactString()] = true
									}
								}
							}
							return nt, covered, true
						}
					}
				}
			}
		}
	}
	for i, s := range list {
		if ast.Node(s) != st {
			continue
		}
		for j := i - 1; j >= 0; j-- {
			switch x := list[j].(type) {
			case *ast.RangeStmt:
				lit := tableLit(x.X)
				rowObj := identObj(info, x.Value)
				if lit == nil || rowObj == nil || len(x.Body.List) != 1 {
					continue
				}
				ifs, ok := x.Body.List[0].(*ast.IfStmt)
				if !ok || ifs.Else != nil || len(ifs.Body.List) == 0 || !stmtLeaves(ifs.Body.List[len(ifs.Body.List)-1]) {
					continue
				}
				be, ok := ast.Unparen(ifs.Cond).(*ast.BinaryExpr)
				if !ok || be.Op != token.EQL {
					continue
				}
				fieldSide, other := be.X, be.Y
				se, ok := ast.Unparen(fieldSide).(*ast.SelectorExpr)
				if !ok || identObj(info, se.X) != rowObj {
					fieldSide, other = be.Y, be.X
					se, ok = ast.Unparen(fieldSide).(*ast.SelectorExpr)
					if !ok || identObj(info, se.X) != rowObj {
						continue
					}
				}
				nt := enumOf(other)
				if nt == nil {
					continue
				}
				// the rows of the literal: the value of that field
				st0, _ := info.TypeOf(x.Value).Underlying().(*types.Struct)
				fi := -1
				if st0 != nil {
					for k := 0; k < st0.NumFields(); k++ {
						if st0.Field(k).Name() == se.Sel.Name {
							fi = k
						}
					}
				}
				litInfo := info
				if p := c.PkgOf(info.ObjectOf(ast.Unparen(x.X).(*ast.Ident)).Pkg()); p != nil {
					litInfo = p.TypesInfo
				}
				for _, el := range lit.Elts {
					row, ok := ast.Unparen(el).(*ast.CompositeLit)
					if !ok {
						continue
					}
					for k, fe := range row.Elts {
						var val ast.Expr
						if kv, isKV := fe.(*ast.KeyValueExpr); isKV {
							if kid, isId := kv.Key.(*ast.Ident); isId && kid.Name == se.Sel.Name {
								val = kv.Value
							}
						} else if k == fi {
							val = fe
						}
						if val != nil {
							if tv, ok := litInfo.Types[val]; ok && tv.Value != nil {
								covered[tv.Value.ExactString()] = true
							}
						}
					}
				}
				return nt, covered, true
			case *ast.IfStmt:
				// if v, ok := table[k]; ok { return ... }
				as, ok := x.Init.(*ast.AssignStmt)
				if !ok || len(as.Lhs) != 2 || len(as.Rhs) != 1 || x.Else != nil || len(x.Body.List) == 0 || !stmtLeaves(x.Body.List[len(x.Body.List)-1]) {
					continue
				}
				ix, ok := ast.Unparen(as.Rhs[0]).(*ast.IndexExpr)
				if !ok || identObj(info, x.Cond) == nil || identObj(info, x.Cond) != identObj(info, as.Lhs[1]) {
					continue
				}
				lit := tableLit(ix.X)
				nt := enumOf(ix.Index)
				if lit == nil || nt == nil {
					continue
				}
				litInfo := info
				if p := c.PkgOf(info.ObjectOf(ast.Unparen(ix.X).(*ast.Ident)).Pkg()); p != nil {
					litInfo = p.TypesInfo
				}
				for _, el := range lit.Elts {
					if kv, isKV := el.(*ast.KeyValueExpr); isKV {
						if tv, ok := litInfo.Types[kv.Key]; ok && tv.Value != nil {
							covered[tv.Value.ExactString()] = true
						}
					}
				}
				return nt, covered, true
			}
		}
	}
	return nil, nil, false
}

// missingConstants: the declared constants of the enumeration type whose values are not covered.
func missingConstants(nt *types.Named, covered map[string]bool) []string {
	var m []string
	sc := nt.Obj().Pkg().Scope()
	for _, n := range sc.Names() {
		if k, ok := sc.Lookup(n).(*types.Const); ok && types.Identical(k.Type(), nt) && !covered[k.Val().ExactString()] {
			m = append(m, k.Name())
		}
	}
	sort.Strings(m)
	return m
}

func exhaustive(c *core.Ctx, info *types.Info, sw ast.Stmt, fn string) (bool, string) {
	facts := sealedFlowFacts[fn]
	switch s := sw.(type) {
	case *ast.TypeSwitchStmt:
		return exhaustiveTypes(c, info, parseTypeSwitch(info, s), facts)
	case *ast.SwitchStmt:
		if s.Tag == nil {
			return false, "tagless switch"
		}
		t := info.TypeOf(s.Tag)
		nt := core.NamedOf(t)
		if nt == nil || nt.Obj().Pkg() == nil {
			// string tag compared with named constants sharing a prefix (FunctionSize, FunctionDimensionIndex, ...)
			prefix := ""
			var pkg *types.Package
			used := map[string]bool{}
			for _, st := range s.Body.List {
				for _, e := range st.(*ast.CaseClause).List {
					var id *ast.Ident
					switch x := ast.Unparen(e).(type) {
					case *ast.Ident:
						id = x
					case *ast.SelectorExpr:
						id = x.Sel
					}
					if id == nil {
						return false, "tag is not of a named type"
					}
					k, ok := info.Uses[id].(*types.Const)
					if !ok {
						return false, "tag is not of a named type"
					}
					pkg = k.Pkg()
					used[k.Name()] = true
					p := k.Name()
					for i := 1; i < len(p); i++ {
						if p[i] >= 'A' && p[i] <= 'Z' {
							p = p[:i]
							break
						}
					}
					if prefix == "" {
						prefix = p
					} else if prefix != p {
						return false, "tag is not of a named type"
					}
				}
			}
			if pkg == nil || prefix == "" {
				return false, "tag is not of a named type"
			}
			var missing []string
			for _, n := range pkg.Scope().Names() {
				if k, ok := pkg.Scope().Lookup(n).(*types.Const); ok && strings.HasPrefix(k.Name(), prefix) && len(k.Name()) > len(prefix) && k.Name()[len(prefix)] >= 'A' && k.Name()[len(prefix)] <= 'Z' && !used[k.Name()] {
					missing = append(missing, k.Name())
				}
			}
			if len(missing) > 0 {
				return false, "constants " + prefix + "* without a case: " + strings.Join(missing, ", ")
			}
			return true, "switch covers every " + prefix + "* constant"
		}
		if _, isBasic := nt.Underlying().(*types.Basic); !isBasic {
			return false, "tag type is not an enumeration"
		}
		if nt.Obj().Name() == "PrimitiveDefinition" {
			want := map[string]bool{}
			for _, p := range primitives18 {
				want[p] = true
			}
			for _, st := range s.Body.List {
				for _, e := range st.(*ast.CaseClause).List {
					if tv, ok := info.Types[e]; ok && tv.Value != nil {
						delete(want, strings.Trim(tv.Value.ExactString(), "\""))
						continue
					}
					// dsl.PrimitiveXxx variables
					name := types.ExprString(e)
					name = name[strings.LastIndex(name, ".")+1:]
					if strings.HasPrefix(name, "Primitive") {
						delete(want, strings.ToLower(strings.TrimPrefix(name, "Primitive")))
					}
				}
			}
			if len(want) > 0 {
				var m []string
				for n := range want {
					m = append(m, n)
				}
				sort.Strings(m)
				return false, "primitives without a case: " + strings.Join(m, ", ")
			}
			return true, "switch covers all 18 primitives"
		}
		// all package-level constants of that type
		want := map[string]string{}
		sc := nt.Obj().Pkg().Scope()
		for _, n := range sc.Names() {
			if k, ok := sc.Lookup(n).(*types.Const); ok && types.Identical(k.Type(), nt) {
				want[k.Val().ExactString()] = k.Name()
			}
		}
		if len(want) == 0 {
			return false, "no declared constants of type " + nt.Obj().Name()
		}
		for _, st := range s.Body.List {
			for _, e := range st.(*ast.CaseClause).List {
				if tv, ok := info.Types[e]; ok && tv.Value != nil {
					delete(want, tv.Value.ExactString())
				}
			}
		}
		if len(want) > 0 {
			var m []string
			for _, n := range want {
				m = append(m, n)
			}
			sort.Strings(m)
			return false, "constants of " + nt.Obj().Name() + " without a case: " + strings.Join(m, ", ")
		}
		return true, "switch covers every declared constant of " + nt.Obj().Name()
	}
	return false, "not a switch"
}

var _ = constant.Int

// auditedAborts: "<func>/<construct>" -> invariant
var auditedAborts = map[string]string{
	"internal/cpp/types.writeComputedFieldExpression/default of switch on BinaryOperator": "BinaryOpPow is emitted as std::pow(l, r) by the branch in front of the switch",
	"pkg/dsl/parser.(TypeTail).String/abort":                                              "participle union: exactly one of Optional|MapValue|Vector|Array is set by the grammar; the if-chain tests all four",
	"pkg/dsl.convertType/abort":                                                           "participle union `(@@ | '(' @@ ')')`: Named or Sub is set",
	"pkg/dsl.applyTypeTail/abort":                                                         "participle union: exactly one of Optional|MapValue|Vector|Array is set",
	"pkg/dsl.convertPattern/abort":                                                        "participle union `@'_' | (@@ @Ident?)`: Discard or Type is set",
	"pkg/dsl.ParseYamlInDir/default of type switch on Node":                               "position invariant: every node built by the YAML/expression parsers carries Line and Column (rule P7)",
	"pkg/dsl.(*TypeDefinitions).MarshalJSON/default of type switch on TypeDefinition":     "Namespace.TypeDefinitions only ever holds records, enums and aliases: UnmarshalTypeDefinition builds nothing else and protocols go to Namespace.Protocols",
	"pkg/dsl.(*UnaryExpression).MarshalJSON/abort":                                        "UnaryOpNegate is the only UnaryOperator constant and the only one parseAtom constructs",
	"pkg/dsl.TypeDefinitionsEqual/default of type switch on TypeDefinition":               "PrimitiveDefinition values are equal by identity or differ by name, both decided before the switch",
	"pkg/dsl.ExpressionsEqual/default of type switch on Expression":                       "reached only through TypeDefinitionsEqual on two same-named records; instantiations of one definition share their computed-field expression nodes, so `a == b` returns first",
	"pkg/dsl.updateTypeRefence/abort":                                                     "MakeGenericType fails only on an arity mismatch, which resolveTypes has already rejected (the rewriter runs on validated trees)",
	"pkg/dsl.ParseExpression/abort":                                                       "only participle/lexer errors can come out of parseExpr (rule E4)",
	"pkg/dsl.combineOperands/default of switch on TokenType":                              "called only for tokens whose operatorInfo entry IsBinary; that each of those has a case is rule P4b",
	"pkg/dsl.parseCall/abort":                                                             "called only after the caller peeked an OpenParen token",
	"pkg/dsl.parseSubscript/abort":                                                        "called only after the caller peeked an OpenBracket token",
	"pkg/dsl.(SymbolTable).GetGenericTypeDefinition/abort":                                "every definition with type parameters was registered by buildSymbolTable under its qualified name",
	"pkg/dsl.GetProtocolSchemaString/abort":                                               "json.Marshal of the schema structs cannot fail: no channels, funcs or cyclic values, and the custom marshallers return no errors",
	"pkg/dsl.resolveComputedFields/default of type switch on Pattern":                     "the DiscardPattern case is handled by the preceding `if _, isDiscard` branch",
	"pkg/dsl.topologicalSortTypes/default of type switch on Node":                         "only records, enums, aliases and fields are ever parents on the dependency path",
	"pkg/dsl.(VisitorWithContext[T]).VisitChildren/default of type switch on Node":        "*SubscriptArgument is never passed to Visit (see V1 table)",
	"internal/cmd.updatePackageInfoFromArgs/abort":                                        "structs.Provider.Read only walks the PackageInfo struct and returns no error for a struct pointer",
}

func ruleAborts(fileScope func(string) bool, ruleID string, min int) func(c *core.Ctx) {
	return ruleAbortsImpl(fileScope, ruleID, min, false)
}

// ruleSwitchDefaults: only aborts that are the default of a switch (sealed exhaustiveness);
// plain precondition assertions of helper functions are out of scope.
func ruleSwitchDefaults(fileScope func(string) bool, ruleID string, min int) func(c *core.Ctx) {
	return ruleAbortsImpl(fileScope, ruleID, min, true)
}

func ruleAbortsImpl(fileScope func(string) bool, ruleID string, min int, onlyDefaults bool) func(c *core.Ctx) {
	return func(c *core.Ctx) {
		c.Rule(ruleID, "every explicit abort (panic / log.Panic / log.Fatal) is the default of a switch that is exhaustive over a sealed dsl interface or an enumeration, or an audited invariant", min)
		found := map[string]bool{}
		for _, d := range c.AllDecls() {
			if !fileScope(c.Fset.Position(d.Pos()).Filename) {
				continue
			}
			if _, skip := outOfScopeFuncs[c.FuncName(d)]; skip {
				continue
			}
			p := c.DeclPkg(d)
			info := p.TypesInfo
			for i, a := range abortSites(c, d) {
				sw, _ := enclosingDefault(d, a.call)
				if s, ok := sw.(*ast.SwitchStmt); ok && s.Tag == nil {
					sw = nil // a tagless switch is an if-chain: its default is the final else
				}
				if sw == nil && onlyDefaults {
					continue
				}
				// the construct is named by what is switched on (its static type), not by the name of the variable
				label := "abort"
				var chain *typeSwitchInfo
				if sw == nil {
					if ti, ok := assertChain(info, d, a.call); ok {
						if _, isIface := info.TypeOf(ti.subject).Underlying().(*types.Interface); isIface {
							chain = &ti
							label = "default of type switch on " + typeLabel(info.TypeOf(ti.subject))
						}
					}
				}
				if sw != nil {
					switch s := sw.(type) {
					case *ast.TypeSwitchStmt:
						label = "default of type switch on " + typeLabel(info.TypeOf(parseTypeSwitch(info, s).subject))
					case *ast.SwitchStmt:
						label = "default of switch on " + typeLabel(info.TypeOf(s.Tag))
					}
				}
				key := fmt.Sprintf("%s/%s", c.FuncName(d), label)
				_ = i
				// an audit given for a function also covers an unexported helper that only that function calls:
				// the invariant is about what reaches the construct, and nothing else reaches the helper
				auditKey := key
				if _, listed := auditedAborts[key]; !listed {
					owner := soleCaller(c, d)
					if owner != nil {
						if k2 := fmt.Sprintf("%s/%s", c.FuncName(owner), label); auditedAborts[k2] != "" {
							auditKey = k2
						}
					}
					// the construct label only tells several aborts of one function apart: a function with a single
					// abort and a single audited entry (its own, or that of the only function that calls it) is that entry,
					// however the test around the abort is written (switch default, else branch, nested if)
					if _, listed := auditedAborts[auditKey]; !listed && len(abortSites(c, d)) == 1 {
						var cands []string
						for k := range auditedAborts {
							if strings.HasPrefix(k, c.FuncName(d)+"/") || (owner != nil && strings.HasPrefix(k, c.FuncName(owner)+"/")) {
								cands = append(cands, k)
							}
						}
						ownerAborts := 0
						if owner != nil {
							ownerAborts = len(abortSites(c, owner))
						}
						if len(cands) == 1 && ownerAborts == 0 {
							auditKey = cands[0]
						}
					}
				}
				if sw == nil && chain == nil {
					if nt, covered, isEnum := enumCoverage(c, info, d, a.call); isEnum {
						label = "default of switch on " + typeLabel(nt)
						key = fmt.Sprintf("%s/%s", c.FuncName(d), label)
						if r, listed := auditedAborts[key]; listed {
							found[key] = true
							c.OK(ruleID, key, a.call.Pos(), "audited: "+r)
							continue
						}
						if missing := missingConstants(nt, covered); len(missing) == 0 {
							c.OK(ruleID, key, a.call.Pos(), "every declared constant of "+nt.Obj().Name()+" is compared/listed in front of the abort (read as the default of a switch)")
						} else {
							c.Bad(ruleID, key, a.call.Pos(), "abort reachable: constants of "+nt.Obj().Name()+" without a case: "+strings.Join(missing, ", "))
						}
						continue
					}
				}
				if sw != nil || chain != nil {
					var ok bool
					var why string
					if chain != nil {
						ok, why = exhaustiveTypes(c, info, *chain, sealedFlowFacts[c.FuncName(d)])
						why = "chain of type assertions read as a type switch: " + why
					} else {
						// flow facts given for a function also hold in an unexported helper only that function calls
						factsFn := c.FuncName(d)
						for up, hop := d, 0; sealedFlowFacts[factsFn] == nil && hop < 2; hop++ {
							up = soleCaller(c, up)
							if up == nil {
								break
							}
							if sealedFlowFacts[c.FuncName(up)] != nil {
								factsFn = c.FuncName(up)
							}
						}
						ok, why = exhaustive(c, info, sw, factsFn)
					}
					if ok {
						c.OK(ruleID, key, a.call.Pos(), why)
						continue
					} else if r, listed := auditedAborts[auditKey]; listed {
						found[auditKey] = true
						// the audit was written for a specific set of uncovered cases: a case that goes
						// missing later is not covered by it
						if extra := notPinned(auditKey, missingOf(why)); len(extra) > 0 {
							c.Bad(ruleID, key, a.call.Pos(), fmt.Sprintf("abort reachable: the audited reason (%s) was given for other uncovered cases; now also without a case: %s", r, strings.Join(extra, ", ")))
							continue
						}
						c.OK(ruleID, key, a.call.Pos(), "audited: "+r+" ("+why+")")
						continue
					} else {
						c.Bad(ruleID, key, a.call.Pos(), "abort reachable: "+why)
						continue
					}
				}
				key = auditKey
				if r, listed := auditedAborts[key]; listed {
					found[key] = true
					c.OK(ruleID, key, a.call.Pos(), "audited: "+r)
				} else {
					c.Bad(ruleID, key, a.call.Pos(), "explicit abort that is neither the default of an exhaustive switch nor an audited invariant: an input reaching it crashes yardl")
				}
			}
		}
	}
}

// soleCaller returns the one function of the same package that calls the unexported function d (directly,
// with no other reference to it anywhere in the module), or nil.
func soleCaller(c *core.Ctx, d *ast.FuncDecl) *ast.FuncDecl {
	if d.Name.IsExported() || d.Recv != nil {
		return nil
	}
	p := c.DeclPkg(d)
	if p == nil {
		return nil
	}
	me, _ := p.TypesInfo.Defs[d.Name].(*types.Func)
	if me == nil {
		return nil
	}
	var owner *ast.FuncDecl
	for _, o := range c.AllDecls() {
		if o == d || c.DeclPkg(o) != p {
			continue
		}
		uses := false
		for _, cs := range c.Calls(o) {
			if cs.Callee != nil && cs.Callee.Origin() == me {
				uses = true
			}
		}
		for _, r := range c.Refs(o) {
			if r.Origin() == me {
				uses = true
			}
		}
		if uses {
			if owner != nil {
				return nil
			}
			owner = o
		}
	}
	return owner
}

// missingOf extracts the list after "without a case: " from an exhaustiveness verdict.
func missingOf(why string) []string {
	i := strings.Index(why, "without a case: ")
	if i < 0 {
		return nil
	}
	var out []string
	for _, m := range strings.Split(why[i+len("without a case: "):], ", ") {
		if m = strings.TrimSpace(m); m != "" {
			out = append(out, m)
		}
	}
	return out
}

var pinnedMissing map[string][]string

// notPinned returns the uncovered cases that refs/audited_missing.json does not list for key.
func notPinned(key string, missing []string) []string {
	if pinnedMissing == nil {
		pinnedMissing = map[string][]string{}
		var raw map[string]json.RawMessage
		if err := loadRef("audited_missing.json", &raw); err == nil {
			for k, v := range raw {
				var l []string
				if json.Unmarshal(v, &l) == nil {
					pinnedMissing[k] = l
				}
			}
		}
	}
	have := map[string]bool{}
	for _, m := range pinnedMissing[key] {
		have[m] = true
	}
	var extra []string
	for _, m := range missing {
		if !have[m] {
			extra = append(extra, m)
		}
	}
	return extra
}
