// Package gee: guarded-emission extractor. For a generator function it recovers, from the
// type-checked AST only, the table of emissions (string templates returned or written)
// together with the conjunction of model-shape guards under which each is reached.
// Early exits are honoured (`if c { return }` adds !c to what follows). Nothing is executed.
package gee

import (
	"fmt"
	"go/ast"
	"go/constant"
	"go/token"
	"go/types"
	"sort"
	"strings"
)

type Row struct {
	Func   string    `json:"func"`
	In     string    `json:"in,omitempty"` // enclosing local closure, if any
	Guards []string  `json:"guards"`
	Kind   string    `json:"kind"` // return | emit
	Tmpl   string    `json:"tmpl"` // template text, or CALL:<callee> / VAR:<name> for non-literal returns
	Args   []string  `json:"args,omitempty"`
	Loop   []string  `json:"loop,omitempty"`    // enclosing loops (canonical range expressions)
	LoopIx []string  `json:"loop_ix,omitempty"` // name of the index variable of each enclosing loop ("" if none)
	Pos    token.Pos `json:"-"`
	PosStr string    `json:"pos"`
	Seq    int       `json:"seq"` // order of appearance in the function
}

type Extractor struct {
	Info *types.Info
	Fset *token.FileSet
	// Emitters: callee full names that emit text; value = index of the template argument
	Emitters map[string]int
	// AllReturns: record every return value (not only strings) as VAL:<canonical expr>
	AllReturns bool
	rows       []Row
	fn         string
	seq        int
	// local closures: object -> literal
	closures map[types.Object]*ast.FuncLit
	// variables introduced by := / var inside the function (not parameters, range or type-switch bindings)
	locals map[types.Object]bool
	// `v, ok := E.(T)`: ok object -> "type(E)∈{T}"
	okGuards map[types.Object]string
	// explaining locals: a variable defined exactly once (`x := E`, never reassigned, address never
	// taken) by a side-effect-free expression is rendered as E, so that introducing or removing
	// such a local does not change the table
	bind    map[types.Object]ast.Expr
	binding map[types.Object]bool // cycle guard
	// `v, ok := f(args)`: ok object -> the call (rendered as f(args)#ok)
	callOk map[types.Object]ast.Expr
	// index variables of `for i := 0; i < len(X); i++` loops: object -> canonical X
	indexOf map[types.Object]string
	// Decl resolves a function of the module to its declaration (same type info), for helpers that
	// are expanded in place; nil = no expansion
	Decl func(f *types.Func) *ast.FuncDecl
	// NoInline: functions that must stay symbolic (the recursive family of the table)
	NoInline map[string]bool
	inlined  map[*types.Func]bool
}

var DefaultEmitters = map[string]int{
	"fmt.Fprintf": 1, "fmt.Fprint": 1, "fmt.Fprintln": 1,
	"(github.com/microsoft/yardl/tooling/internal/formatting.IndentedWriter).WriteString":   0,
	"(github.com/microsoft/yardl/tooling/internal/formatting.IndentedWriter).WriteStringln": 0,
}

type guard struct {
	text string
	neg  bool
}

func (g guard) String() string {
	if g.neg {
		return "!(" + g.text + ")"
	}
	return g.text
}

func fullName(f *types.Func) string {
	if f == nil {
		return ""
	}
	sig := f.Type().(*types.Signature)
	if r := sig.Recv(); r != nil {
		t := r.Type()
		if p, ok := t.(*types.Pointer); ok {
			t = p.Elem()
		}
		if n, ok := t.(*types.Named); ok && n.Obj().Pkg() != nil {
			return "(" + n.Obj().Pkg().Path() + "." + n.Obj().Name() + ")." + f.Name()
		}
	}
	if f.Pkg() == nil {
		return f.Name()
	}
	return f.Pkg().Path() + "." + f.Name()
}

func (x *Extractor) callee(call *ast.CallExpr) *types.Func {
	var id *ast.Ident
	switch f := ast.Unparen(call.Fun).(type) {
	case *ast.Ident:
		id = f
	case *ast.SelectorExpr:
		id = f.Sel
	}
	if id == nil {
		return nil
	}
	fn, _ := x.Info.Uses[id].(*types.Func)
	return fn
}

func (x *Extractor) constStr(e ast.Expr) (string, bool) {
	if tv, ok := x.Info.Types[e]; ok && tv.Value != nil && tv.Value.Kind() == constant.String {
		return constant.StringVal(tv.Value), true
	}
	return "", false
}

// Canon renders an expression with local variables of named (dsl) types replaced by the
// type name, so that sibling functions using different variable names compare equal.
func (x *Extractor) Canon(e ast.Expr) string {
	if e != nil {
		if tv, ok := x.Info.Types[e]; ok && tv.Value != nil {
			if _, isBin := ast.Unparen(e).(*ast.BinaryExpr); isBin {
				return tv.Value.ExactString() // folded constant expression
			}
		}
	}
	if pe, isParen := e.(*ast.ParenExpr); isParen {
		if _, isBin := ast.Unparen(pe.X).(*ast.BinaryExpr); isBin {
			return "(" + x.Canon(pe.X) + ")"
		}
	}
	switch v := ast.Unparen(e).(type) {
	case nil:
		return ""
	case *ast.Ident:
		obj := x.Info.Uses[v]
		if obj == nil {
			obj = x.Info.Defs[v]
		}
		if g, isOk := x.okGuards[obj]; isOk {
			return g
		}
		if call, isOk := x.callOk[obj]; isOk {
			return x.Canon(call) + "#ok"
		}
		if tv, ok := x.Info.Types[v]; ok && tv.Value != nil {
			return constText(obj, tv.Value.ExactString())
		}
		if rhs, ok := x.bind[obj]; ok && !x.binding[obj] {
			x.binding[obj] = true
			r := x.Canon(rhs)
			x.binding[obj] = false
			return r
		}
		if vr, ok := obj.(*types.Var); ok && !vr.IsField() {
			t := vr.Type()
			if _, isIx := x.indexOf[obj]; isIx {
				return v.Name // index of a `for i := 0; i < len(X); i++` loop: like a range key
			}
			if x.locals[obj] && trackedLocal(t) {
				return "$" + v.Name
			}
			for {
				if p, ok := t.(*types.Pointer); ok {
					t = p.Elem()
					continue
				}
				break
			}
			if n, ok := t.(*types.Named); ok && n.Obj().Pkg() != nil && strings.HasSuffix(n.Obj().Pkg().Path(), "/pkg/dsl") {
				return n.Obj().Name()
			}
		}
		return v.Name
	case *ast.SelectorExpr:
		if _, isPkg := x.Info.Uses[identOf(v.X)].(*types.PkgName); isPkg {
			if tv, ok := x.Info.Types[v]; ok && tv.Value != nil {
				return constText(x.Info.Uses[v.Sel], tv.Value.ExactString())
			}
			return identOf(v.X).Name + "." + v.Sel.Name
		}
		return x.Canon(v.X) + "." + v.Sel.Name
	case *ast.StarExpr:
		return x.Canon(v.X)
	case *ast.UnaryExpr:
		if v.Op == token.AND {
			return x.Canon(v.X)
		}
		return v.Op.String() + x.Canon(v.X)
	case *ast.BinaryExpr:
		return x.Canon(v.X) + " " + v.Op.String() + " " + x.Canon(v.Y)
	case *ast.IndexExpr:
		if id, ok := ast.Unparen(v.Index).(*ast.Ident); ok {
			if over, ok := x.indexOf[x.Info.Uses[id]]; ok && over == x.Canon(v.X) {
				if n := dslNamed(x.Info.TypeOf(v)); n != "" {
					return n // same name a `for _, e := range X` value variable gets
				}
			}
		}
		return x.Canon(v.X) + "[" + x.Canon(v.Index) + "]"
	case *ast.CallExpr:
		var as []string
		for _, a := range v.Args {
			as = append(as, x.Canon(a))
		}
		if tv, ok := x.Info.Types[v.Fun]; ok && tv.IsType() {
			return types.ExprString(v.Fun) + "(" + strings.Join(as, ", ") + ")"
		}
		return x.Canon(v.Fun) + "(" + strings.Join(as, ", ") + ")"
	case *ast.BasicLit:
		return v.Value
	case *ast.TypeAssertExpr:
		return x.Canon(v.X) + ".(" + types.ExprString(v.Type) + ")"
	case *ast.FuncLit:
		return "func{}"
	case *ast.CompositeLit:
		return types.ExprString(v.Type) + "{..}"
	}
	return types.ExprString(e)
}

func dslNamed(t types.Type) string {
	for t != nil {
		if p, ok := t.(*types.Pointer); ok {
			t = p.Elem()
			continue
		}
		break
	}
	if n, ok := t.(*types.Named); ok && n.Obj().Pkg() != nil && strings.HasSuffix(n.Obj().Pkg().Path(), "/pkg/dsl") {
		return n.Obj().Name()
	}
	return ""
}

// trackedLocal: locals whose value is followed through `let` rows: interface-typed
// model values and numbers (not strings: those have assign rows; not concrete dsl nodes:
// those are named by their type).
func trackedLocal(t types.Type) bool {
	switch u := t.Underlying().(type) {
	case *types.Interface:
		return true
	case *types.Basic:
		return u.Info()&types.IsNumeric != 0
	}
	return false
}

// constText renders a reference to a declared constant: by name when it belongs to a named
// integer type (an enumeration such as BinaryOperator), by value otherwise.
func constText(obj types.Object, val string) string {
	if k, ok := obj.(*types.Const); ok {
		if n, ok := k.Type().(*types.Named); ok {
			if b, ok := n.Underlying().(*types.Basic); ok && b.Info()&types.IsInteger != 0 {
				return k.Name()
			}
		}
	}
	return val
}

func identOf(e ast.Expr) *ast.Ident {
	id, _ := ast.Unparen(e).(*ast.Ident)
	if id == nil {
		return &ast.Ident{Name: "_"}
	}
	return id
}

// condGuards turns a condition into guard atoms (conjunction when taken=true; for
// taken=false only simple conditions and disjunctions can be split).
func (x *Extractor) condGuards(c ast.Expr, taken bool) []guard {
	c = ast.Unparen(c)
	switch v := c.(type) {
	case *ast.Ident:
		// a boolean explaining local stands for its defining condition
		obj := x.Info.Uses[v]
		if rhs, ok := x.bind[obj]; ok && !x.binding[obj] {
			x.binding[obj] = true
			gs := x.condGuards(rhs, taken)
			x.binding[obj] = false
			return gs
		}
	case *ast.UnaryExpr:
		if v.Op == token.NOT {
			return x.condGuards(v.X, !taken)
		}
	case *ast.BinaryExpr:
		if v.Op == token.LAND && taken {
			return append(x.condGuards(v.X, true), x.condGuards(v.Y, true)...)
		}
		if v.Op == token.LOR && !taken {
			return append(x.condGuards(v.X, false), x.condGuards(v.Y, false)...)
		}
		// normalise == nil / == 0 into negated != forms
		if v.Op == token.EQL {
			_, yIsLit := ast.Unparen(v.Y).(*ast.BasicLit)
			if tv, ok := x.Info.Types[v.Y]; ok && (tv.IsNil() || (yIsLit && tv.Value != nil && tv.Value.ExactString() == "0" && strings.HasPrefix(x.Canon(v.X), "len("))) {
				zero := "nil"
				op := "!="
				if !tv.IsNil() {
					zero, op = "0", ">"
				}
				return []guard{{x.Canon(v.X) + " " + op + " " + zero, taken}}
			}
		}
		if v.Op == token.NEQ {
			_, yIsLit := ast.Unparen(v.Y).(*ast.BasicLit)
			if tv, ok := x.Info.Types[v.Y]; ok && yIsLit && tv.Value != nil && tv.Value.ExactString() == "0" && strings.HasPrefix(x.Canon(v.X), "len(") {
				return []guard{{x.Canon(v.X) + " > 0", !taken}}
			}
			// a != b on values (not nil tests, which have the != spelling as their normal form) is !(a == b)
			if tv, ok := x.Info.Types[v.Y]; ok && !tv.IsNil() {
				if tx, ok := x.Info.Types[v.X]; ok && !tx.IsNil() {
					if _, isBasic := x.Info.TypeOf(v.X).Underlying().(*types.Basic); isBasic {
						return []guard{{x.Canon(v.X) + " == " + x.Canon(v.Y), taken}}
					}
				}
			}
		}
	}
	return []guard{{x.Canon(c), !taken}}
}

func with(gs []guard, more ...guard) []guard {
	n := make([]guard, len(gs), len(gs)+len(more))
	copy(n, gs)
	return append(n, more...)
}

// leavesClause: the clause body of a switch ends by leaving the enclosing function or loop iteration — a
// plain `break` at its end only leaves the switch, so control does continue behind the switch.
func leavesClause(list []ast.Stmt) bool {
	if len(list) == 0 {
		return false
	}
	if b, ok := list[len(list)-1].(*ast.BranchStmt); ok && b.Tok == token.BREAK && b.Label == nil {
		return false
	}
	return terminates(list)
}

func terminates(list []ast.Stmt) bool {
	if len(list) == 0 {
		return false
	}
	switch s := list[len(list)-1].(type) {
	case *ast.ReturnStmt:
		return true
	case *ast.BranchStmt:
		return s.Tok == token.CONTINUE || s.Tok == token.BREAK || s.Tok == token.GOTO
	case *ast.ExprStmt:
		if c, ok := s.X.(*ast.CallExpr); ok {
			if id, ok := c.Fun.(*ast.Ident); ok && id.Name == "panic" {
				return true
			}
		}
	case *ast.IfStmt:
		if s.Else == nil {
			return false
		}
		eb, ok := s.Else.(*ast.BlockStmt)
		if !ok {
			return false
		}
		return terminates(s.Body.List) && terminates(eb.List)
	case *ast.SwitchStmt, *ast.TypeSwitchStmt:
		// all clauses terminate and there is a default
		var body *ast.BlockStmt
		if sw, ok := s.(*ast.SwitchStmt); ok {
			body = sw.Body
		} else {
			body = s.(*ast.TypeSwitchStmt).Body
		}
		hasDefault := false
		for _, c := range body.List {
			cc := c.(*ast.CaseClause)
			if cc.List == nil {
				hasDefault = true
			}
			if !leavesClause(cc.Body) {
				return false
			}
		}
		return hasDefault
	}
	return false
}

type ctx struct {
	gs     []guard
	in     string
	loops  []string
	loopIx []string
}

func (x *Extractor) add(c ctx, kind, tmpl string, args []string, pos token.Pos) {
	var gs []string
	for _, g := range c.gs {
		gs = append(gs, g.String())
	}
	x.seq++
	x.rows = append(x.rows, Row{Func: x.fn, In: c.in, Guards: gs, Kind: kind, Tmpl: tmpl, Args: args, Loop: append([]string(nil), c.loops...), LoopIx: append([]string(nil), c.loopIx...),
		Pos: pos, PosStr: x.Fset.Position(pos).String(), Seq: x.seq})
}

// stringish: the expression has type string (or is untyped string constant).
func (x *Extractor) stringish(e ast.Expr) bool {
	t := x.Info.TypeOf(e)
	if t == nil {
		return false
	}
	b, ok := t.Underlying().(*types.Basic)
	return ok && b.Info()&types.IsString != 0
}

// valueRow describes a string-valued expression as a row (used for returns and assignments).
func (x *Extractor) valueRow(c ctx, kind string, e ast.Expr) {
	e = ast.Unparen(e)
	if s, ok := x.constStr(e); ok {
		x.add(c, kind, s, nil, e.Pos())
		return
	}
	switch v := e.(type) {
	case *ast.CallExpr:
		f := x.callee(v)
		if f != nil && fullName(f) == "fmt.Sprintf" && len(v.Args) > 0 {
			if s, ok := x.constStr(v.Args[0]); ok {
				var as []string
				for _, a := range v.Args[1:] {
					as = append(as, x.Canon(a))
				}
				x.add(c, kind, s, as, v.Pos())
				return
			}
		}
		// immediately invoked literal: descend
		if fl, ok := ast.Unparen(v.Fun).(*ast.FuncLit); ok {
			x.walkList(fl.Body.List, c)
			return
		}
		var as []string
		for _, a := range v.Args {
			as = append(as, x.Canon(a))
		}
		x.add(c, kind, "CALL:"+x.Canon(v.Fun), as, v.Pos())
		return
	case *ast.BinaryExpr:
		if v.Op == token.ADD {
			// concatenation chain: one template with a %s hole per non-constant operand
			var parts []ast.Expr
			var flat func(e ast.Expr)
			flat = func(e ast.Expr) {
				if be, ok := ast.Unparen(e).(*ast.BinaryExpr); ok && be.Op == token.ADD {
					if _, isConst := x.constStr(be); !isConst {
						flat(be.X)
						flat(be.Y)
						return
					}
				}
				parts = append(parts, e)
			}
			flat(v)
			tmpl := ""
			var args []string
			nconst := 0
			for _, pt := range parts {
				if s, ok := x.constStr(pt); ok {
					tmpl += strings.ReplaceAll(s, "%", "%%")
					nconst++
				} else {
					tmpl += "%s"
					args = append(args, x.Canon(pt))
				}
			}
			if nconst > 0 {
				x.add(c, kind, tmpl, args, v.Pos())
				return
			}
		}
	}
	x.add(c, kind, "VAR:"+x.Canon(e), nil, e.Pos())
}

func (x *Extractor) emitCall(c ctx, call *ast.CallExpr) bool {
	f := x.callee(call)
	if f == nil {
		return false
	}
	idx, ok := x.Emitters[fullName(f)]
	if !ok || idx >= len(call.Args) {
		return false
	}
	if s, ok := x.constStr(call.Args[idx]); ok {
		var as []string
		for _, a := range call.Args[idx+1:] {
			as = append(as, x.Canon(a))
		}
		x.add(c, "emit", s, as, call.Pos())
	} else {
		x.add(c, "emit", "VAR:"+x.Canon(call.Args[idx]), nil, call.Pos())
	}
	return true
}

// walkExprForLits: find function literals passed as arguments (callbacks such as
// WriteBlockBody(w, func(){...})) and emit calls nested in expressions.
func (x *Extractor) walkExpr(e ast.Node, c ctx) {
	ast.Inspect(e, func(n ast.Node) bool {
		switch v := n.(type) {
		case *ast.FuncLit:
			x.walkList(v.Body.List, c)
			return false
		case *ast.CallExpr:
			// `each(coll, func(.., item T) {...})` helpers (formatting.Delimited and the like): the literal runs once
			// per element of the slice argument whose element type is the literal's last parameter — a range loop
			if cc, fl, ok := x.eachCallback(v, c); ok {
				for _, a := range v.Args {
					if ast.Unparen(a) != ast.Expr(fl) {
						x.walkExpr(a, c)
					}
				}
				x.walkList(fl.Body.List, cc)
				return false
			}
			if x.emitCall(c, v) {
				// still look for literals among the other arguments
				for _, a := range v.Args {
					if fl, ok := ast.Unparen(a).(*ast.FuncLit); ok {
						x.walkList(fl.Body.List, c)
					}
				}
				return false
			}
			// call of a declared function of the same package: recorded with its guards and loops so
			// that a rule can expand the helper in the context of the call site
			if x.Decl != nil {
				if f := x.callee(v); f != nil && x.Decl(f) != nil {
					var as []string
					for _, a := range v.Args {
						as = append(as, x.Canon(a))
					}
					x.add(c, "call", f.Name(), as, v.Pos())
				}
			}
			// call of a local closure: its rows were recorded where it is defined
		}
		return true
	})
}

// eachCallback recognises a call that hands a slice and a function literal taking one element of that slice
// (as its last parameter) to a helper; the returned context is that of a `range` loop over the slice. A constant
// string argument is recorded as the separator (row kind "sep").
func (x *Extractor) eachCallback(call *ast.CallExpr, c ctx) (ctx, *ast.FuncLit, bool) {
	var fl *ast.FuncLit
	for _, a := range call.Args {
		if l, ok := ast.Unparen(a).(*ast.FuncLit); ok {
			if fl != nil {
				return c, nil, false
			}
			fl = l
		}
	}
	if fl == nil || fl.Type.Params == nil || len(fl.Type.Params.List) == 0 {
		return c, nil, false
	}
	last := fl.Type.Params.List[len(fl.Type.Params.List)-1]
	lt := x.Info.TypeOf(last.Type)
	if lt == nil {
		return c, nil, false
	}
	for _, a := range call.Args {
		t := x.Info.TypeOf(a)
		if t == nil {
			continue
		}
		sl, ok := t.Underlying().(*types.Slice)
		if !ok || !types.Identical(sl.Elem(), lt) {
			continue
		}
		cc := c
		cc.loops = append(append([]string(nil), c.loops...), "range "+x.Canon(a))
		ix := ""
		for _, f := range fl.Type.Params.List {
			if bt, ok := x.Info.TypeOf(f.Type).(*types.Basic); ok && bt.Kind() == types.Int && len(f.Names) == 1 && f.Names[0].Name != "_" {
				ix = f.Names[0].Name
			}
		}
		cc.loopIx = append(append([]string(nil), c.loopIx...), ix)
		for _, b := range call.Args {
			if tv, ok := x.Info.Types[b]; ok && tv.Value != nil && tv.Value.Kind() == constant.String {
				x.add(cc, "sep", constant.StringVal(tv.Value), nil, b.Pos())
			}
		}
		return cc, fl, true
	}
	return c, nil, false
}

func (x *Extractor) walkList(list []ast.Stmt, c ctx) ctx {
	for _, s := range list {
		c = x.walkStmt(s, c)
	}
	return c
}

func (x *Extractor) caseLabel(subj string, cc *ast.CaseClause, all [][]string) guard {
	if cc.List == nil {
		var others []string
		for _, l := range all {
			others = append(others, l...)
		}
		sort.Strings(others)
		return guard{subj + "∈{" + strings.Join(others, "|") + "}", true}
	}
	var ts []string
	for _, e := range cc.List {
		ts = append(ts, x.Canon(e))
	}
	sort.Strings(ts)
	return guard{subj + "∈{" + strings.Join(ts, "|") + "}", false}
}

func (x *Extractor) walkStmt(s ast.Stmt, c ctx) ctx {
	switch st := s.(type) {
	case *ast.BlockStmt:
		x.walkList(st.List, c)
	case *ast.IfStmt:
		if st.Init != nil {
			c = x.walkStmt(st.Init, c)
		}
		cThen := c
		cThen.gs = with(c.gs, x.condGuards(st.Cond, true)...)
		x.walkList(st.Body.List, cThen)
		cElse := c
		cElse.gs = with(c.gs, x.condGuards(st.Cond, false)...)
		if st.Else != nil {
			x.walkStmt(st.Else, cElse)
		}
		if terminates(st.Body.List) {
			if st.Else == nil {
				return cElse
			}
		} else if st.Else != nil {
			if eb, ok := st.Else.(*ast.BlockStmt); ok && terminates(eb.List) {
				return cThen
			}
		}
	case *ast.TypeSwitchStmt:
		var subjExpr ast.Expr
		switch a := st.Assign.(type) {
		case *ast.AssignStmt:
			subjExpr = a.Rhs[0].(*ast.TypeAssertExpr).X
		case *ast.ExprStmt:
			subjExpr = a.X.(*ast.TypeAssertExpr).X
		}
		subj := "type(" + x.Canon(subjExpr) + ")"
		var all [][]string
		for _, cl := range st.Body.List {
			cc := cl.(*ast.CaseClause)
			var ts []string
			for _, e := range cc.List {
				ts = append(ts, x.Canon(e))
			}
			all = append(all, ts)
		}
		after := c
		for _, cl := range st.Body.List {
			cc := cl.(*ast.CaseClause)
			cc2 := c
			cc2.gs = with(c.gs, x.caseLabel(subj, cc, all))
			x.walkList(cc.Body, cc2)
			// control that continues behind the switch did not take a clause that leaves (the default included:
			// then one of the listed cases was taken)
			if leavesClause(cc.Body) && (cc.List != nil || len(all) > 1) {
				g := x.caseLabel(subj, cc, all)
				g.neg = !g.neg
				after.gs = with(after.gs, g)
			}
		}
		return after
	case *ast.SwitchStmt:
		if st.Init != nil {
			c = x.walkStmt(st.Init, c)
		}
		subj := "true"
		if st.Tag != nil {
			subj = x.Canon(st.Tag)
		}
		var all [][]string
		for _, cl := range st.Body.List {
			cc := cl.(*ast.CaseClause)
			var ts []string
			for _, e := range cc.List {
				ts = append(ts, x.Canon(e))
			}
			all = append(all, ts)
		}
		if st.Tag == nil {
			// a tagless switch is an if / else-if chain: clause k is reached when its condition
			// holds and those of the clauses in front of it do not; default when none holds
			single := true
			for _, cl := range st.Body.List {
				if cc := cl.(*ast.CaseClause); cc.List != nil && len(cc.List) != 1 {
					single = false
				}
			}
			if single {
				var dflt *ast.CaseClause
				prev := c.gs
				for _, cl := range st.Body.List {
					cc := cl.(*ast.CaseClause)
					if cc.List == nil {
						dflt = cc
						continue
					}
					cc2 := c
					cc2.gs = with(prev, x.condGuards(cc.List[0], true)...)
					x.walkList(cc.Body, cc2)
					prev = with(prev, x.condGuards(cc.List[0], false)...)
				}
				if dflt != nil {
					cc2 := c
					cc2.gs = prev
					x.walkList(dflt.Body, cc2)
				}
				// what follows the switch: when every conditional clause leaves and there is no default,
				// control continues only if no condition held
				condsLeave := true
				for _, cl := range st.Body.List {
					if cc := cl.(*ast.CaseClause); cc.List != nil && !leavesClause(cc.Body) {
						condsLeave = false
					}
				}
				if condsLeave && dflt == nil {
					cc := c
					cc.gs = prev
					return cc
				}
				return c
			}
		}
		after := c
		for _, cl := range st.Body.List {
			cc := cl.(*ast.CaseClause)
			cc2 := c
			cc2.gs = with(c.gs, x.caseLabel(subj, cc, all))
			x.walkList(cc.Body, cc2)
			if leavesClause(cc.Body) && (cc.List != nil || len(all) > 1) {
				g := x.caseLabel(subj, cc, all)
				g.neg = !g.neg
				after.gs = with(after.gs, g)
			}
		}
		return after
	case *ast.ReturnStmt:
		for _, r := range st.Results {
			if x.stringish(r) {
				x.valueRow(c, "return", r)
			} else if x.AllReturns {
				x.add(c, "return", "VAL:"+x.Canon(r), nil, r.Pos())
			} else {
				x.walkExpr(r, c)
			}
		}
	case *ast.ExprStmt:
		x.walkExpr(st.X, c)
	case *ast.DeferStmt:
		x.walkExpr(st.Call, c)
	case *ast.AssignStmt:
		for i, r := range st.Rhs {
			if fl, ok := ast.Unparen(r).(*ast.FuncLit); ok && i < len(st.Lhs) {
				name := x.Canon(st.Lhs[i])
				if id, ok := st.Lhs[i].(*ast.Ident); ok {
					name = id.Name
					if o := x.Info.Defs[id]; o != nil {
						x.closures[o] = fl
					}
				}
				cc := c
				cc.in = name
				x.walkList(fl.Body.List, cc)
				continue
			}
			// x = append(x, <string exprs>...)
			if ce, ok := ast.Unparen(r).(*ast.CallExpr); ok && i < len(st.Lhs) {
				if id, ok := ast.Unparen(ce.Fun).(*ast.Ident); ok && id.Name == "append" && len(ce.Args) >= 2 {
					if _, isB := x.Info.Uses[id].(*types.Builtin); isB && x.Canon(ce.Args[0]) == x.Canon(st.Lhs[i]) {
						handled := false
						for _, a := range ce.Args[1:] {
							if x.stringish(a) {
								x.valueRow(c, "append:"+x.Canon(st.Lhs[i]), a)
								handled = true
							}
						}
						if handled {
							continue
						}
					}
				}
			}
			// x := func() string {...}()
			if ce, ok := ast.Unparen(r).(*ast.CallExpr); ok {
				if fl, ok := ast.Unparen(ce.Fun).(*ast.FuncLit); ok && i < len(st.Lhs) {
					cc := c
					if id, ok := st.Lhs[i].(*ast.Ident); ok {
						cc.in = id.Name
					}
					x.walkList(fl.Body.List, cc)
					continue
				}
			}
			if i < len(st.Lhs) && x.stringish(r) {
				cc := c
				cc.in = c.in
				x.valueRow(cc, "assign:"+x.Canon(st.Lhs[i]), r)
				continue
			}
			if i < len(st.Lhs) && len(st.Lhs) == len(st.Rhs) {
				if id, ok := st.Lhs[i].(*ast.Ident); ok {
					o := x.Info.Defs[id]
					if o == nil {
						o = x.Info.Uses[id]
					}
					if x.locals[o] && trackedLocal(o.Type()) {
						x.add(c, "let:$"+id.Name, "EXPR:"+x.Canon(r), nil, r.Pos())
					}
				}
			}
			x.walkExpr(r, c)
		}
	case *ast.RangeStmt:
		cc := c
		cc.loops = append(append([]string(nil), c.loops...), "range "+x.Canon(st.X))
		ix := ""
		if id, ok := st.Key.(*ast.Ident); ok && id.Name != "_" {
			ix = id.Name
		}
		cc.loopIx = append(append([]string(nil), c.loopIx...), ix)
		x.walkList(st.Body.List, cc)
	case *ast.ForStmt:
		cc := c
		lbl := "for"
		if st.Cond != nil {
			lbl = "for " + x.Canon(st.Cond)
		}
		ix := ""
		if obj, over := x.indexLoop(st); obj != nil {
			x.indexOf[obj] = over
			lbl = "range " + over // same label a `for i := range X` gets
			ix = obj.Name()
		} else if obj, over := x.reverseIndexLoop(st); obj != nil {
			x.indexOf[obj] = over
			lbl = "rrange " + over // the elements of X from the last to the first
			ix = obj.Name()
		}
		cc.loopIx = append(append([]string(nil), c.loopIx...), ix)
		cc.loops = append(append([]string(nil), c.loops...), lbl)
		x.walkList(st.Body.List, cc)
	case *ast.DeclStmt:
		// `var x T = E` is `x := E`
		if gd, ok := st.Decl.(*ast.GenDecl); ok && gd.Tok == token.VAR {
			for _, sp := range gd.Specs {
				vs, ok := sp.(*ast.ValueSpec)
				if !ok || len(vs.Values) != len(vs.Names) {
					continue
				}
				lhs := make([]ast.Expr, len(vs.Names))
				for i, n := range vs.Names {
					lhs[i] = n
				}
				c = x.walkStmt(&ast.AssignStmt{Lhs: lhs, Tok: token.DEFINE, Rhs: vs.Values, TokPos: vs.Pos()}, c)
			}
		}
	case *ast.IncDecStmt, *ast.BranchStmt, *ast.EmptyStmt:
	case *ast.LabeledStmt:
		return x.walkStmt(st.Stmt, c)
	}
	return c
}

// indexLoop recognises `for i := 0; i < len(X); i++` (any of i++ / i += 1 / i = i + 1).
func (x *Extractor) indexLoop(st *ast.ForStmt) (types.Object, string) {
	as, ok := st.Init.(*ast.AssignStmt)
	if !ok || as.Tok != token.DEFINE || len(as.Lhs) != 1 || len(as.Rhs) != 1 {
		return nil, ""
	}
	id, ok := as.Lhs[0].(*ast.Ident)
	if !ok {
		return nil, ""
	}
	if tv, ok := x.Info.Types[as.Rhs[0]]; !ok || tv.Value == nil || tv.Value.ExactString() != "0" {
		return nil, ""
	}
	obj := x.Info.Defs[id]
	be, ok := ast.Unparen(st.Cond).(*ast.BinaryExpr)
	if !ok {
		return nil, ""
	}
	var lenArg ast.Expr
	isI := func(e ast.Expr) bool { i, ok := ast.Unparen(e).(*ast.Ident); return ok && x.Info.Uses[i] == obj }
	lenOf := func(e ast.Expr) ast.Expr {
		if id, ok := ast.Unparen(e).(*ast.Ident); ok {
			if rhs, ok := x.bind[x.Info.Uses[id]]; ok {
				e = rhs
			}
		}
		if ce, ok := ast.Unparen(e).(*ast.CallExpr); ok && len(ce.Args) == 1 {
			if f, ok := ast.Unparen(ce.Fun).(*ast.Ident); ok && f.Name == "len" {
				return ce.Args[0]
			}
		}
		return nil
	}
	switch {
	case be.Op == token.LSS && isI(be.X):
		lenArg = lenOf(be.Y)
	case be.Op == token.GTR && isI(be.Y):
		lenArg = lenOf(be.X)
	}
	if lenArg == nil {
		return nil, ""
	}
	switch p := st.Post.(type) {
	case *ast.IncDecStmt:
		if p.Tok != token.INC || !isI(p.X) {
			return nil, ""
		}
	case *ast.AssignStmt:
		if len(p.Lhs) != 1 || !isI(p.Lhs[0]) {
			return nil, ""
		}
	default:
		return nil, ""
	}
	return obj, x.Canon(lenArg)
}

// reverseIndexLoop recognises `for i := len(X) - 1; i >= 0; i--`.
func (x *Extractor) reverseIndexLoop(st *ast.ForStmt) (types.Object, string) {
	as, ok := st.Init.(*ast.AssignStmt)
	if !ok || as.Tok != token.DEFINE || len(as.Lhs) != 1 || len(as.Rhs) != 1 {
		return nil, ""
	}
	id, ok := as.Lhs[0].(*ast.Ident)
	if !ok {
		return nil, ""
	}
	obj := x.Info.Defs[id]
	isI := func(e ast.Expr) bool { i, ok := ast.Unparen(e).(*ast.Ident); return ok && x.Info.Uses[i] == obj }
	resolve := func(e ast.Expr) ast.Expr {
		if i, ok := ast.Unparen(e).(*ast.Ident); ok {
			if rhs, ok := x.bind[x.Info.Uses[i]]; ok {
				return rhs
			}
		}
		return e
	}
	// init: len(X) - 1
	init, ok := ast.Unparen(resolve(as.Rhs[0])).(*ast.BinaryExpr)
	if !ok || init.Op != token.SUB {
		return nil, ""
	}
	if tv, ok := x.Info.Types[init.Y]; !ok || tv.Value == nil || tv.Value.ExactString() != "1" {
		return nil, ""
	}
	ce, ok := ast.Unparen(resolve(init.X)).(*ast.CallExpr)
	if !ok || len(ce.Args) != 1 {
		return nil, ""
	}
	if f, ok := ast.Unparen(ce.Fun).(*ast.Ident); !ok || f.Name != "len" {
		return nil, ""
	}
	// cond: i >= 0
	be, ok := ast.Unparen(st.Cond).(*ast.BinaryExpr)
	if !ok || be.Op != token.GEQ || !isI(be.X) {
		return nil, ""
	}
	if tv, ok := x.Info.Types[be.Y]; !ok || tv.Value == nil || tv.Value.ExactString() != "0" {
		return nil, ""
	}
	if p, ok := st.Post.(*ast.IncDecStmt); !ok || p.Tok != token.DEC || !isI(p.X) {
		return nil, ""
	}
	return obj, x.Canon(ce.Args[0])
}

// pureExpr: no calls with possible effects on the tables (function literals, appends), so that
// the expression can stand for the variable it defines.
func pureExpr(e ast.Expr) bool {
	ok := true
	ast.Inspect(e, func(n ast.Node) bool {
		switch v := n.(type) {
		case *ast.FuncLit:
			ok = false
		case *ast.CallExpr:
			if id, isId := ast.Unparen(v.Fun).(*ast.Ident); isId && (id.Name == "append" || id.Name == "make" || id.Name == "new") {
				ok = false
			}
		case *ast.CompositeLit:
			ok = false
		}
		return ok
	})
	return ok
}

// Extract returns the rows of one function declaration.
func (x *Extractor) Extract(name string, d *ast.FuncDecl) []Row {
	x.rows = nil
	x.fn = name
	x.seq = 0
	x.closures = map[types.Object]*ast.FuncLit{}
	x.locals = map[types.Object]bool{}
	x.okGuards = map[types.Object]string{}
	ast.Inspect(d.Body, func(n ast.Node) bool {
		switch s := n.(type) {
		case *ast.AssignStmt:
			if s.Tok == token.DEFINE && len(s.Lhs) == 2 && len(s.Rhs) == 1 {
				if ta, isTA := ast.Unparen(s.Rhs[0]).(*ast.TypeAssertExpr); isTA && ta.Type != nil {
					if id, isId := s.Lhs[1].(*ast.Ident); isId {
						if o := x.Info.Defs[id]; o != nil {
							x.okGuards[o] = "type(" + x.Canon(ta.X) + ")∈{" + x.Canon(ta.Type) + "}"
						}
					}
				}
			}
			if s.Tok == token.DEFINE {
				for i, l := range s.Lhs {
					if id, ok := l.(*ast.Ident); ok {
						if len(s.Rhs) == len(s.Lhs) {
							if _, isTA := ast.Unparen(s.Rhs[i]).(*ast.TypeAssertExpr); isTA {
								continue
							}
						}
						if o := x.Info.Defs[id]; o != nil {
							x.locals[o] = true
						}
					}
				}
			}
		case *ast.ValueSpec:
			for _, id := range s.Names {
				if o := x.Info.Defs[id]; o != nil {
					x.locals[o] = true
				}
			}
		}
		return true
	})
	if x.Emitters == nil {
		x.Emitters = DefaultEmitters
	}
	x.computeBindings(d.Body)
	x.walkList(d.Body.List, ctx{})
	return x.rows
}

// computeBindings finds the explaining locals of a body (see Extractor.bind).
func (x *Extractor) computeBindings(body ast.Node) {
	if x.bind == nil {
		x.bind = map[types.Object]ast.Expr{}
		x.binding = map[types.Object]bool{}
		x.indexOf = map[types.Object]string{}
		x.callOk = map[types.Object]ast.Expr{}
	}
	defs := map[types.Object]ast.Expr{}
	okCalls := map[types.Object]ast.Expr{}
	writes := map[types.Object]int{}
	ast.Inspect(body, func(n ast.Node) bool {
		switch s := n.(type) {
		case *ast.AssignStmt:
			for i, l := range s.Lhs {
				id, ok := l.(*ast.Ident)
				if !ok {
					continue
				}
				o := x.Info.Defs[id]
				if o == nil {
					o = x.Info.Uses[id]
				}
				if o == nil {
					continue
				}
				writes[o]++
				if s.Tok == token.DEFINE && x.Info.Defs[id] != nil && len(s.Lhs) == len(s.Rhs) {
					defs[o] = s.Rhs[i]
				}
				if s.Tok == token.DEFINE && x.Info.Defs[id] != nil && len(s.Lhs) == 2 && len(s.Rhs) == 1 && i == 1 {
					if call, isCall := ast.Unparen(s.Rhs[0]).(*ast.CallExpr); isCall && pureExpr(call) {
						okCalls[o] = call
					}
				}
			}
		case *ast.IncDecStmt:
			if id, ok := s.X.(*ast.Ident); ok {
				writes[x.Info.Uses[id]] += 2
			}
		case *ast.UnaryExpr:
			if s.Op == token.AND {
				if id, ok := s.X.(*ast.Ident); ok {
					writes[x.Info.Uses[id]] += 2
				}
			}
		case *ast.RangeStmt:
			for _, l := range []ast.Expr{s.Key, s.Value} {
				if id, ok := l.(*ast.Ident); ok {
					if o := x.Info.Defs[id]; o != nil {
						writes[o] += 2
					}
				}
			}
		case *ast.ForStmt:
			if as, ok := s.Init.(*ast.AssignStmt); ok {
				for _, l := range as.Lhs {
					if id, ok := l.(*ast.Ident); ok {
						if o := x.Info.Defs[id]; o != nil {
							writes[o] += 2
						}
					}
				}
			}
		}
		return true
	})
	for o, call := range okCalls {
		if writes[o] == 1 {
			x.callOk[o] = call
		}
	}
	for o, rhs := range defs {
		if writes[o] != 1 || !pureExpr(rhs) {
			continue
		}
		t := o.Type()
		// strings keep their assign rows (template structure) unless they are plain calls or paths;
		// formatted strings and concatenations are never substituted
		switch r := ast.Unparen(rhs).(type) {
		case *ast.CallExpr:
			if f := x.callee(r); f != nil && fullName(f) == "fmt.Sprintf" {
				continue
			}
			if _, isLit := ast.Unparen(r.Fun).(*ast.FuncLit); isLit {
				continue
			}
			if f := x.callee(r); f != nil && f.Name() == "Join" {
				continue
			}
		case *ast.BinaryExpr:
			if b, ok := t.Underlying().(*types.Basic); ok && b.Info()&types.IsString != 0 {
				continue
			}
		case *ast.BasicLit:
			continue
		case *ast.TypeAssertExpr:
			continue
		}
		if tv, ok := x.Info.Types[rhs]; ok && tv.Value != nil {
			continue // constants are rendered by value already
		}
		x.bind[o] = rhs
	}
}

func (r Row) String() string {
	in := ""
	if r.In != "" {
		in = "<" + r.In + "> "
	}
	return fmt.Sprintf("%s[%s] %s %q %v", in, strings.Join(r.Guards, " ∧ "), r.Kind, r.Tmpl, r.Args)
}
