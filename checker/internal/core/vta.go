package core

// Thorough tier: the static call graph (resolved callees + function values) is completed
// with the targets VTA computes for dynamic call sites (interface methods, closures held
// in variables and fields). Closures are attributed to the declaration that lexically
// contains them, as in the static graph; synthetic wrappers are looked through.

import (
	"go/ast"
	"go/token"
	"go/types"

	"golang.org/x/tools/go/callgraph"
	"golang.org/x/tools/go/callgraph/cha"
	"golang.org/x/tools/go/callgraph/vta"
	"golang.org/x/tools/go/ssa"
	"golang.org/x/tools/go/ssa/ssautil"
)

func declOf(fn *ssa.Function) *types.Func {
	for fn != nil {
		if fn.Origin() != nil {
			fn = fn.Origin()
		}
		if fn.Parent() == nil {
			if o, ok := fn.Object().(*types.Func); ok {
				return o.Origin()
			}
			return nil
		}
		fn = fn.Parent()
	}
	return nil
}

// DynCalls: in the thorough tier, the dynamic call sites of d (interface method calls,
// calls of function values) with the targets VTA resolves for them, one CallSite per target.
func (c *Ctx) DynCalls(d *ast.FuncDecl) []CallSite {
	if c.Tier != "thorough" {
		return nil
	}
	p := c.declPkg[d]
	f, _ := p.TypesInfo.Defs[d.Name].(*types.Func)
	if f == nil {
		return nil
	}
	c.dynamicSucc()
	var out []CallSite
	for _, cs := range c.Calls(d) {
		if cs.Callee != nil {
			continue
		}
		for _, to := range c.dynSites[dynSiteKey{f.Origin(), cs.Call.Lparen}] {
			x := cs
			x.Callee = to
			out = append(out, x)
		}
	}
	return out
}

type dynSiteKey struct {
	from *types.Func
	pos  token.Pos
}

func (c *Ctx) dynamicSucc() map[*types.Func][]*types.Func {
	if c.dyn != nil {
		return c.dyn
	}
	c.dyn = map[*types.Func][]*types.Func{}
	c.dynSites = map[dynSiteKey][]*types.Func{}
	prog, _ := c.SSA()
	cg := vta.CallGraph(ssautil.AllFunctions(prog), cha.CallGraph(prog))
	n := 0
	seenEdge := map[[2]*types.Func]bool{}
	// targets of a dynamic edge: a declared function, or — for a closure — what the closure's
	// own body calls and references (the closure is inlined: calling it is not calling the
	// declaration that lexically contains it)
	var targets func(nd *callgraph.Node, depth int, visit func(*types.Func))
	targets = func(nd *callgraph.Node, depth int, visit func(*types.Func)) {
		fn := nd.Func
		if fn.Origin() != nil {
			fn = fn.Origin()
		}
		if fn.Parent() != nil { // closure
			lit, _ := fn.Syntax().(*ast.FuncLit)
			g := declOf(fn)
			if lit == nil || g == nil || c.fnDecls[g] == nil {
				return
			}
			sm := c.summary(c.fnDecls[g])
			for _, cs := range sm.calls {
				if cs.Callee != nil && cs.Call.Pos() >= lit.Pos() && cs.Call.End() <= lit.End() {
					visit(cs.Callee.Origin())
				}
			}
			for i, r := range sm.refs {
				if sm.refPos[i] >= lit.Pos() && sm.refPos[i] <= lit.End() {
					visit(r.Origin())
				}
			}
			if depth < 4 { // dynamic calls made by the closure itself
				for _, e := range nd.Out {
					if e.Site != nil && e.Site.Common().StaticCallee() == nil {
						targets(e.Callee, depth+1, visit)
					}
				}
			}
			return
		}
		if fn.Synthetic != "" && fn.Pos() == 0 && depth < 4 { // wrapper, thunk, bound method: look through
			if o := declOf(fn); o != nil && c.fnDecls[o] != nil {
				visit(o)
				return
			}
			for _, e := range nd.Out {
				targets(e.Callee, depth+1, visit)
			}
			return
		}
		if o := declOf(fn); o != nil {
			visit(o)
		}
	}
	for fn, nd := range cg.Nodes {
		if fn == nil {
			continue
		}
		from := declOf(fn)
		if from == nil || c.fnDecls[from] == nil {
			continue
		}
		for _, e := range nd.Out {
			if e.Site == nil || e.Site.Common().StaticCallee() != nil {
				continue
			}
			site := e.Site
			targets(e.Callee, 0, func(to *types.Func) {
				sk := dynSiteKey{from, site.Pos()}
				dup := false
				for _, x := range c.dynSites[sk] {
					dup = dup || x == to
				}
				if !dup {
					c.dynSites[sk] = append(c.dynSites[sk], to)
				}
				k := [2]*types.Func{from, to}
				if to == from || seenEdge[k] {
					return
				}
				seenEdge[k] = true
				c.dyn[from] = append(c.dyn[from], to)
				n++
			})
		}
	}
	c.Stats["vta_dynamic_edges"] = n
	return c.dyn
}
