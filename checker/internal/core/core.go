// Package core: loader, obligation bookkeeping and shared AST/type helpers of the
// yardl static checker. Nothing here executes code from /repo.
package core

import (
	"fmt"
	"go/ast"
	"go/token"
	"go/types"
	"os"
	"path/filepath"
	"sort"
	"strings"

	"golang.org/x/tools/go/packages"
	"golang.org/x/tools/go/ssa"
	"golang.org/x/tools/go/ssa/ssautil"
)

const Mod = "github.com/microsoft/yardl/tooling"

// Ob is one obligation: a construct of /repo to which a rule applies, and the verdict.
type Ob struct {
	Key    string `json:"key"`    // rule/pkg.Func/construct — stable under line moves
	Rule   string `json:"rule"`   // rule id, e.g. "E1"
	Pos    string `json:"pos"`    // file:line relative to the repository
	Status string `json:"status"` // ok | violated | undecided
	Fact   string `json:"fact"`   // discharging fact, or what is wrong
}

type RuleInfo struct {
	ID        string `json:"id"`
	Doc       string `json:"doc"`
	Min       int    `json:"min_instances"`
	Instances int    `json:"instances"`
}

type Ctx struct {
	Repo   string
	Tier   string
	Pkgs   []*packages.Package
	All    map[string]*packages.Package // by import path, incl. dependencies
	Fset   *token.FileSet
	obs    []Ob
	rules  map[string]*RuleInfo
	order  []string
	Stats  map[string]int
	Tables map[string]any // extracted tables, copied into the evidence

	prog     *ssa.Program
	ssaPkgs  []*ssa.Package
	fnDecls  map[*types.Func]*ast.FuncDecl
	declPkg  map[*ast.FuncDecl]*packages.Package
	keysSeen map[string]int
	dyn      map[*types.Func][]*types.Func
	dynSites map[dynSiteKey][]*types.Func
}

func Load(repo, tier string) (*Ctx, error) {
	os.Unsetenv("GOWORK")
	dir := filepath.Join(repo, "tooling")
	cfg := &packages.Config{
		Mode:       packages.LoadAllSyntax,
		Dir:        dir,
		Tests:      false,
		BuildFlags: []string{"-tags=verif"},
		Env:        append(os.Environ(), "GOFLAGS=-mod=mod", "GOPROXY=off", "GOWORK=off"),
	}
	pkgs, err := packages.Load(cfg, "./...")
	if err != nil {
		return nil, err
	}
	c := &Ctx{Repo: repo, Tier: tier, Pkgs: pkgs, All: map[string]*packages.Package{}, rules: map[string]*RuleInfo{},
		Stats: map[string]int{}, Tables: map[string]any{}, fnDecls: map[*types.Func]*ast.FuncDecl{}, declPkg: map[*ast.FuncDecl]*packages.Package{}, keysSeen: map[string]int{}}
	if len(pkgs) < 28 {
		return nil, fmt.Errorf("only %d root packages loaded from %s (expected >= 28)", len(pkgs), dir)
	}
	var errs []string
	packages.Visit(pkgs, nil, func(p *packages.Package) {
		c.All[p.PkgPath] = p
		if strings.HasPrefix(p.PkgPath, Mod) {
			for _, e := range p.Errors {
				errs = append(errs, e.Error())
			}
		}
	})
	if len(errs) > 0 {
		return nil, fmt.Errorf("type-check errors in module: %s", strings.Join(errs, "; "))
	}
	c.Fset = pkgs[0].Fset
	nfn := 0
	for _, p := range pkgs {
		for _, f := range p.Syntax {
			for _, d := range f.Decls {
				if fd, ok := d.(*ast.FuncDecl); ok && fd.Body != nil {
					if obj, ok := p.TypesInfo.Defs[fd.Name].(*types.Func); ok {
						c.fnDecls[obj] = fd
						c.declPkg[fd] = p
						nfn++
					}
				}
			}
		}
	}
	c.Stats["packages"] = len(pkgs)
	c.Stats["packages_with_deps"] = len(c.All)
	c.Stats["module_functions"] = nfn
	return c, nil
}

// ---- rule / obligation bookkeeping ----

func (c *Ctx) Rule(id, doc string, min int) {
	if _, ok := c.rules[id]; !ok {
		c.rules[id] = &RuleInfo{ID: id, Doc: doc, Min: min}
		c.order = append(c.order, id)
	}
}

func (c *Ctx) add(rule, key string, pos token.Pos, status, fact string) {
	r, ok := c.rules[rule]
	if !ok {
		panic("obligation for undeclared rule " + rule)
	}
	r.Instances++
	full := rule + "/" + key
	c.keysSeen[full]++
	if n := c.keysSeen[full]; n > 1 {
		full = fmt.Sprintf("%s#%d", full, n)
	}
	c.obs = append(c.obs, Ob{Key: full, Rule: rule, Pos: c.PosStr(pos), Status: status, Fact: fact})
}

func (c *Ctx) OK(rule, key string, pos token.Pos, fact string) { c.add(rule, key, pos, "ok", fact) }
func (c *Ctx) Bad(rule, key string, pos token.Pos, fact string) {
	c.add(rule, key, pos, "violated", fact)
}
func (c *Ctx) Undecided(rule, key string, pos token.Pos, fact string) {
	c.add(rule, key, pos, "undecided", fact)
}

// Check records ok when cond holds, violated otherwise.
func (c *Ctx) Check(cond bool, rule, key string, pos token.Pos, okFact, badFact string) {
	if cond {
		c.OK(rule, key, pos, okFact)
	} else {
		c.Bad(rule, key, pos, badFact)
	}
}

func (c *Ctx) Finish() ([]Ob, []*RuleInfo) {
	var rs []*RuleInfo
	for _, id := range c.order {
		r := c.rules[id]
		if r.Instances < r.Min {
			c.obs = append(c.obs, Ob{Key: id + "/_mincount", Rule: id, Pos: "-", Status: "undecided",
				Fact: fmt.Sprintf("rule matched %d instances, fewer than the %d confirmed by hand: the rule no longer sees the code it was written for", r.Instances, r.Min)})
		}
		rs = append(rs, r)
	}
	return c.obs, rs
}

func (c *Ctx) PosStr(p token.Pos) string {
	if !p.IsValid() {
		return "-"
	}
	pp := c.Fset.Position(p)
	rel, err := filepath.Rel(c.Repo, pp.Filename)
	if err != nil {
		rel = pp.Filename
	}
	return fmt.Sprintf("%s:%d", rel, pp.Line)
}

// ---- lookups ----

func (c *Ctx) Pkg(rel string) *packages.Package {
	p := c.All[Mod+"/"+rel]
	return p
}

// PkgOf: the loaded package behind a types.Package (nil for packages outside the load).
func (c *Ctx) PkgOf(tp *types.Package) *packages.Package {
	if tp == nil {
		return nil
	}
	return c.All[tp.Path()]
}

func (c *Ctx) ModulePkgs() []*packages.Package {
	var out []*packages.Package
	for _, p := range c.All {
		if strings.HasPrefix(p.PkgPath, Mod) {
			out = append(out, p)
		}
	}
	sort.Slice(out, func(i, j int) bool { return out[i].PkgPath < out[j].PkgPath })
	return out
}

// Func finds a package-level function or a method ("T.M" / "(*T).M" both written "T.M").
func (c *Ctx) Func(pkgRel, name string) (*types.Func, *ast.FuncDecl, *packages.Package) {
	p := c.Pkg(pkgRel)
	if p == nil {
		return nil, nil, nil
	}
	if i := strings.Index(name, "."); i >= 0 {
		tn, _ := p.Types.Scope().Lookup(name[:i]).(*types.TypeName)
		if tn == nil {
			return nil, nil, p
		}
		for _, t := range []types.Type{tn.Type(), types.NewPointer(tn.Type())} {
			ms := types.NewMethodSet(t)
			for k := 0; k < ms.Len(); k++ {
				if f, ok := ms.At(k).Obj().(*types.Func); ok && f.Name() == name[i+1:] {
					if d := c.fnDecls[f]; d != nil {
						return f, d, p
					}
				}
			}
		}
		return nil, nil, p
	}
	f, _ := p.Types.Scope().Lookup(name).(*types.Func)
	if f == nil {
		return nil, nil, p
	}
	return f, c.fnDecls[f], p
}

func (c *Ctx) Decl(f *types.Func) *ast.FuncDecl {
	if f == nil {
		return nil
	}
	if d := c.fnDecls[f]; d != nil {
		return d
	}
	return c.fnDecls[f.Origin()]
}

func (c *Ctx) DeclPkg(d *ast.FuncDecl) *packages.Package { return c.declPkg[d] }

// AllDecls returns every function declaration with a body in the module, sorted.
func (c *Ctx) AllDecls() []*ast.FuncDecl {
	var out []*ast.FuncDecl
	for _, d := range c.fnDecls {
		out = append(out, d)
	}
	sort.Slice(out, func(i, j int) bool { return out[i].Pos() < out[j].Pos() })
	return out
}

func (c *Ctx) FuncName(d *ast.FuncDecl) string {
	p := c.declPkg[d]
	short := ""
	if p != nil {
		short = strings.TrimPrefix(p.PkgPath, Mod+"/")
	}
	if d.Recv != nil && len(d.Recv.List) > 0 {
		return fmt.Sprintf("%s.(%s).%s", short, types.ExprString(d.Recv.List[0].Type), d.Name.Name)
	}
	return short + "." + d.Name.Name
}

func (c *Ctx) IsTestFile(p token.Pos) bool {
	return strings.HasSuffix(c.Fset.Position(p).Filename, "_test.go")
}

// ---- SSA (built lazily) ----

func (c *Ctx) SSA() (*ssa.Program, []*ssa.Package) {
	if c.prog == nil {
		c.prog, c.ssaPkgs = ssautil.AllPackages(c.Pkgs, ssa.InstantiateGenerics)
		c.prog.Build()
	}
	return c.prog, c.ssaPkgs
}

func (c *Ctx) SSAFunc(f *types.Func) *ssa.Function {
	prog, _ := c.SSA()
	return prog.FuncValue(f)
}

// ---- small AST helpers ----

// Callee resolves the static callee of a call (function, method or nil for dynamic).
func Callee(info *types.Info, call *ast.CallExpr) *types.Func {
	var id *ast.Ident
	switch f := ast.Unparen(call.Fun).(type) {
	case *ast.Ident:
		id = f
	case *ast.SelectorExpr:
		id = f.Sel
	case *ast.IndexExpr:
		switch g := ast.Unparen(f.X).(type) {
		case *ast.Ident:
			id = g
		case *ast.SelectorExpr:
			id = g.Sel
		}
	case *ast.IndexListExpr:
		switch g := ast.Unparen(f.X).(type) {
		case *ast.Ident:
			id = g
		case *ast.SelectorExpr:
			id = g.Sel
		}
	}
	if id == nil {
		return nil
	}
	if fn, ok := info.Uses[id].(*types.Func); ok {
		return fn
	}
	return nil
}

// FullName gives "pkgpath.Name" or "(pkgpath.T).M" with pointer stripped.
func FullName(f *types.Func) string {
	if f == nil {
		return ""
	}
	sig := f.Type().(*types.Signature)
	if r := sig.Recv(); r != nil {
		t := r.Type()
		if p, ok := t.(*types.Pointer); ok {
			t = p.Elem()
		}
		if n, ok := t.(*types.Named); ok {
			pk := ""
			if n.Obj().Pkg() != nil {
				pk = n.Obj().Pkg().Path() + "."
			}
			return "(" + pk + n.Obj().Name() + ")." + f.Name()
		}
		return "(" + t.String() + ")." + f.Name()
	}
	if f.Pkg() == nil {
		return f.Name()
	}
	return f.Pkg().Path() + "." + f.Name()
}

func InModule(f *types.Func) bool {
	return f != nil && f.Pkg() != nil && strings.HasPrefix(f.Pkg().Path(), Mod)
}

func IsErrorType(t types.Type) bool {
	return t != nil && types.Identical(t, types.Universe.Lookup("error").Type())
}

// NamedOf strips pointers and returns the named type, or nil.
func NamedOf(t types.Type) *types.Named {
	for {
		switch x := t.(type) {
		case *types.Pointer:
			t = x.Elem()
		case *types.Named:
			return x
		case *types.Alias:
			t = types.Unalias(x)
		default:
			return nil
		}
	}
}

func TypeIs(t types.Type, pkgPath, name string) bool {
	n := NamedOf(t)
	return n != nil && n.Obj().Name() == name && n.Obj().Pkg() != nil && n.Obj().Pkg().Path() == pkgPath
}

func InModuleVar(v *types.Var) bool {
	return v != nil && v.Pkg() != nil && strings.HasPrefix(v.Pkg().Path(), Mod)
}

// InlineLocals returns e with every identifier that names a local variable defined exactly
// once in body (`x := rhs`, never reassigned) replaced by its defining expression, so that a
// rule comparing expression shapes is insensitive to the introduction of explaining locals.
func InlineLocals(info *types.Info, body ast.Node, e ast.Expr) ast.Expr {
	defs := map[types.Object]ast.Expr{}
	writes := map[types.Object]int{}
	ast.Inspect(body, func(n ast.Node) bool {
		switch x := n.(type) {
		case *ast.AssignStmt:
			for i, l := range x.Lhs {
				id, ok := l.(*ast.Ident)
				if !ok {
					continue
				}
				o := info.Defs[id]
				if o == nil {
					o = info.Uses[id]
				}
				if o == nil {
					continue
				}
				writes[o]++
				if x.Tok == token.DEFINE && len(x.Lhs) == len(x.Rhs) && info.Defs[id] != nil {
					defs[o] = x.Rhs[i]
				}
			}
		case *ast.IncDecStmt:
			if id, ok := x.X.(*ast.Ident); ok {
				writes[info.Uses[id]] += 2
			}
		case *ast.UnaryExpr:
			if x.Op == token.AND {
				if id, ok := x.X.(*ast.Ident); ok {
					writes[info.Uses[id]] += 2 // address taken: may be written elsewhere
				}
			}
		case *ast.RangeStmt:
			for _, l := range []ast.Expr{x.Key, x.Value} {
				if id, ok := l.(*ast.Ident); ok {
					if o := info.Defs[id]; o != nil {
						writes[o] += 2
					}
				}
			}
		}
		return true
	})
	var sub func(e ast.Expr, depth int) ast.Expr
	sub = func(e ast.Expr, depth int) ast.Expr {
		if e == nil || depth > 4 {
			return e
		}
		switch x := e.(type) {
		case *ast.Ident:
			if o := info.Uses[x]; o != nil && writes[o] == 1 {
				if d, ok := defs[o]; ok {
					return &ast.ParenExpr{X: sub(d, depth+1)}
				}
			}
			return x
		case *ast.ParenExpr:
			return &ast.ParenExpr{X: sub(x.X, depth)}
		case *ast.SelectorExpr:
			return &ast.SelectorExpr{X: sub(x.X, depth), Sel: x.Sel}
		case *ast.StarExpr:
			return &ast.StarExpr{X: sub(x.X, depth)}
		case *ast.UnaryExpr:
			return &ast.UnaryExpr{Op: x.Op, X: sub(x.X, depth)}
		case *ast.BinaryExpr:
			return &ast.BinaryExpr{X: sub(x.X, depth), Op: x.Op, Y: sub(x.Y, depth)}
		case *ast.IndexExpr:
			return &ast.IndexExpr{X: sub(x.X, depth), Index: sub(x.Index, depth)}
		case *ast.CallExpr:
			args := make([]ast.Expr, len(x.Args))
			for i, a := range x.Args {
				args[i] = sub(a, depth)
			}
			return &ast.CallExpr{Fun: sub(x.Fun, depth), Args: args, Ellipsis: x.Ellipsis}
		case *ast.TypeAssertExpr:
			return &ast.TypeAssertExpr{X: sub(x.X, depth), Type: x.Type}
		}
		return e
	}
	return sub(e, 0)
}

// ExprStringNoParens prints e without redundant parentheses around identifiers, selectors and calls.
func ExprStringNoParens(e ast.Expr) string {
	var strip func(e ast.Expr) ast.Expr
	strip = func(e ast.Expr) ast.Expr {
		switch x := e.(type) {
		case *ast.ParenExpr:
			in := strip(x.X)
			switch in.(type) {
			case *ast.Ident, *ast.SelectorExpr, *ast.CallExpr, *ast.IndexExpr, *ast.BasicLit, *ast.CompositeLit:
				return in
			}
			return &ast.ParenExpr{X: in}
		case *ast.SelectorExpr:
			return &ast.SelectorExpr{X: strip(x.X), Sel: x.Sel}
		case *ast.UnaryExpr:
			return &ast.UnaryExpr{Op: x.Op, X: strip(x.X)}
		case *ast.StarExpr:
			return &ast.StarExpr{X: strip(x.X)}
		case *ast.BinaryExpr:
			return &ast.BinaryExpr{X: strip(x.X), Op: x.Op, Y: strip(x.Y)}
		case *ast.IndexExpr:
			return &ast.IndexExpr{X: strip(x.X), Index: strip(x.Index)}
		case *ast.CallExpr:
			args := make([]ast.Expr, len(x.Args))
			for i, a := range x.Args {
				args[i] = strip(a)
			}
			return &ast.CallExpr{Fun: strip(x.Fun), Args: args, Ellipsis: x.Ellipsis}
		}
		return e
	}
	return types.ExprString(strip(e))
}
