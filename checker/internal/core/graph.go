package core

import (
	"go/ast"
	"go/token"
	"go/types"
	"sort"

	"golang.org/x/tools/go/cfg"
	"golang.org/x/tools/go/packages"
)

// CallSite is a statically resolved call inside a function declaration (nested
// function literals included: their bodies are lexically part of the declaration).
type CallSite struct {
	Caller *ast.FuncDecl
	Call   *ast.CallExpr
	Callee *types.Func // nil for dynamic calls
	InLit  *ast.FuncLit
}

type fnSummary struct {
	calls  []CallSite
	refs   []*types.Func // functions used as values (not in call position)
	refPos []token.Pos
}

var summaries = map[*ast.FuncDecl]*fnSummary{}

func (c *Ctx) summary(d *ast.FuncDecl) *fnSummary {
	if s, ok := summaries[d]; ok {
		return s
	}
	p := c.declPkg[d]
	s := &fnSummary{}
	summaries[d] = s
	info := p.TypesInfo
	callFun := map[*ast.Ident]bool{}
	var lits []*ast.FuncLit
	var walk func(n ast.Node) bool
	walk = func(n ast.Node) bool {
		switch x := n.(type) {
		case *ast.FuncLit:
			lits = append(lits, x)
			ast.Inspect(x.Body, walk)
			lits = lits[:len(lits)-1]
			return false
		case *ast.CallExpr:
			callee := Callee(info, x)
			var lit *ast.FuncLit
			if len(lits) > 0 {
				lit = lits[len(lits)-1]
			}
			s.calls = append(s.calls, CallSite{Caller: d, Call: x, Callee: callee, InLit: lit})
			switch f := ast.Unparen(x.Fun).(type) {
			case *ast.Ident:
				callFun[f] = true
			case *ast.SelectorExpr:
				callFun[f.Sel] = true
			}
		case *ast.Ident:
			if !callFun[x] {
				if fn, ok := info.Uses[x].(*types.Func); ok {
					s.refs = append(s.refs, fn)
					s.refPos = append(s.refPos, x.Pos())
				}
			}
		}
		return true
	}
	ast.Inspect(d.Body, walk)
	return s
}

func (c *Ctx) Calls(d *ast.FuncDecl) []CallSite { return c.summary(d).calls }
func (c *Ctx) Refs(d *ast.FuncDecl) []*types.Func {
	return c.summary(d).refs
}

// Successors of f in the static call graph: callees and referenced function values.
func (c *Ctx) Succ(f *types.Func) []*types.Func {
	d := c.Decl(f)
	if d == nil {
		return nil
	}
	s := c.summary(d)
	seen := map[*types.Func]bool{}
	var out []*types.Func
	for _, cs := range s.calls {
		if cs.Callee != nil && !seen[cs.Callee.Origin()] {
			seen[cs.Callee.Origin()] = true
			out = append(out, cs.Callee.Origin())
		}
	}
	for _, r := range s.refs {
		if !seen[r.Origin()] {
			seen[r.Origin()] = true
			out = append(out, r.Origin())
		}
	}
	if c.Tier == "thorough" {
		for _, r := range c.dynamicSucc()[f.Origin()] {
			if !seen[r] {
				seen[r] = true
				out = append(out, r)
			}
		}
	}
	return out
}

// PathTo returns a shortest static call path from `from` to a function satisfying
// pred, not expanding functions for which stop is true. nil if none.
func (c *Ctx) PathTo(from *types.Func, pred func(*types.Func) bool, stop func(*types.Func) bool) []*types.Func {
	type item struct {
		f    *types.Func
		prev *item
	}
	seen := map[*types.Func]bool{from: true}
	q := []*item{{from, nil}}
	for len(q) > 0 {
		it := q[0]
		q = q[1:]
		if it.f != from && pred(it.f) {
			var path []*types.Func
			for x := it; x != nil; x = x.prev {
				path = append([]*types.Func{x.f}, path...)
			}
			return path
		}
		if it.f != from && stop != nil && stop(it.f) {
			continue
		}
		for _, s := range c.Succ(it.f) {
			if !seen[s] {
				seen[s] = true
				q = append(q, &item{s, it})
			}
		}
	}
	return nil
}

// PathToStatic is PathTo over static calls and function references only, whatever the tier: for rules whose
// question is "does THIS function reach g" the VTA edges of the thorough tier are too coarse (every visitor callback
// stored in the one callback slot becomes a successor of dsl.Visit).
func (c *Ctx) PathToStatic(from *types.Func, pred func(*types.Func) bool, stop func(*types.Func) bool) []*types.Func {
	saved := c.Tier
	c.Tier = "quick"
	defer func() { c.Tier = saved }()
	return c.PathTo(from, pred, stop)
}

// Reachable returns the set of functions reachable from the roots by static calls/refs.
func (c *Ctx) Reachable(roots []*types.Func, stop func(*types.Func) bool) map[*types.Func]bool {
	seen := map[*types.Func]bool{}
	var st []*types.Func
	for _, r := range roots {
		if r != nil && !seen[r] {
			seen[r] = true
			st = append(st, r)
		}
	}
	for len(st) > 0 {
		f := st[len(st)-1]
		st = st[:len(st)-1]
		if stop != nil && stop(f) {
			continue
		}
		for _, s := range c.Succ(f) {
			if !seen[s] {
				seen[s] = true
				st = append(st, s)
			}
		}
	}
	return seen
}

func PathStr(p []*types.Func) string {
	s := ""
	for i, f := range p {
		if i > 0 {
			s += " -> "
		}
		s += FullName(f)
	}
	return s
}

func SortedFuncs(m map[*types.Func]bool) []*types.Func {
	var out []*types.Func
	for f := range m {
		out = append(out, f)
	}
	sort.Slice(out, func(i, j int) bool { return FullName(out[i]) < FullName(out[j]) })
	return out
}

// ---------------- CFG helpers ----------------

type FuncCFG struct {
	G    *cfg.CFG
	Info *types.Info
	// node -> block index for every ast node stored in a block (and their descendants,
	// not descending into function literals' bodies — those map to the literal's block).
	blockOf map[ast.Node]*cfg.Block
}

// NoReturn reports calls that never return: panic, os.Exit, log.Fatal*, zerolog Fatal/Panic chains.
func NoReturn(info *types.Info, call *ast.CallExpr) bool {
	if id, ok := ast.Unparen(call.Fun).(*ast.Ident); ok && id.Name == "panic" {
		if _, isBuiltin := info.Uses[id].(*types.Builtin); isBuiltin {
			return true
		}
	}
	f := Callee(info, call)
	if f == nil {
		return false
	}
	switch FullName(f) {
	case "os.Exit", "log.Fatal", "log.Fatalf", "log.Fatalln", "log.Panic", "log.Panicf":
		return true
	}
	// zerolog: log.Fatal().Msg(...) / log.Panic().Msgf(...)
	if f.Pkg() != nil && f.Pkg().Path() == "github.com/rs/zerolog" {
		switch f.Name() {
		case "Msg", "Msgf", "Send", "MsgFunc":
			return ZerologChainLevel(info, call) != ""
		}
	}
	return false
}

// zerologChainLevel returns "Fatal"/"Panic" if the event chain of the terminating call starts at log.Fatal()/log.Panic().
func ZerologChainLevel(info *types.Info, call *ast.CallExpr) string {
	cur := ast.Expr(call)
	for {
		ce, ok := ast.Unparen(cur).(*ast.CallExpr)
		if !ok {
			return ""
		}
		sel, ok := ast.Unparen(ce.Fun).(*ast.SelectorExpr)
		if !ok {
			return ""
		}
		if sel.Sel.Name == "Fatal" || sel.Sel.Name == "Panic" {
			if f, ok := info.Uses[sel.Sel].(*types.Func); ok && f.Pkg() != nil &&
				(f.Pkg().Path() == "github.com/rs/zerolog/log" || f.Pkg().Path() == "github.com/rs/zerolog") {
				return sel.Sel.Name
			}
		}
		cur = sel.X
	}
}

func NewCFG(body *ast.BlockStmt, info *types.Info) *FuncCFG {
	g := cfg.New(body, func(call *ast.CallExpr) bool { return !NoReturn(info, call) })
	fc := &FuncCFG{G: g, Info: info, blockOf: map[ast.Node]*cfg.Block{}}
	for _, b := range g.Blocks {
		for _, n := range b.Nodes {
			ast.Inspect(n, func(x ast.Node) bool {
				if x == nil {
					return false
				}
				if _, seen := fc.blockOf[x]; !seen {
					fc.blockOf[x] = b
				}
				return true
			})
		}
	}
	return fc
}

func (fc *FuncCFG) BlockOf(n ast.Node) *cfg.Block {
	if b, ok := fc.blockOf[n]; ok {
		return b
	}
	// compound statements (if/for/switch/block) are not stored themselves: take the
	// first stored node inside them in source order.
	var found *cfg.Block
	ast.Inspect(n, func(x ast.Node) bool {
		if found != nil || x == nil {
			return false
		}
		if _, isLit := x.(*ast.FuncLit); isLit {
			return false
		}
		if b, ok := fc.blockOf[x]; ok {
			found = b
			return false
		}
		return true
	})
	return found
}

// NodeIndex returns the index within b.Nodes of the top-level node containing n, or -1.
func (fc *FuncCFG) NodeIndex(b *cfg.Block, n ast.Node) int {
	for i, top := range b.Nodes {
		if top.Pos() <= n.Pos() && n.End() <= top.End() {
			return i
		}
	}
	return -1
}

type Edge struct{ From, To *cfg.Block }

// ReachableBlocks from entry (Blocks[0]) avoiding the given edges and blocks.
func (fc *FuncCFG) ReachableBlocks(from *cfg.Block, cutEdges map[Edge]bool, cutBlocks map[*cfg.Block]bool) map[*cfg.Block]bool {
	seen := map[*cfg.Block]bool{}
	if cutBlocks[from] {
		return seen
	}
	st := []*cfg.Block{from}
	seen[from] = true
	for len(st) > 0 {
		b := st[len(st)-1]
		st = st[:len(st)-1]
		for _, s := range b.Succs {
			if cutEdges[Edge{b, s}] || cutBlocks[s] || seen[s] {
				continue
			}
			seen[s] = true
			st = append(st, s)
		}
	}
	return seen
}

func (fc *FuncCFG) Entry() *cfg.Block { return fc.G.Blocks[0] }

// Dominates(a, n): every path from entry to the block of n passes through block a.
func (fc *FuncCFG) BlockDominates(a, b *cfg.Block) bool {
	if a == b {
		return true
	}
	r := fc.ReachableBlocks(fc.Entry(), nil, map[*cfg.Block]bool{a: true})
	return !r[b]
}

// ErrTest describes `if e != nil` (or e == nil) ending block B for identifier object obj.
// IsNilTest parses cond as a comparison of an identifier with nil.
func IsNilTest(info *types.Info, cond ast.Expr) (obj types.Object, neq bool, ok bool) {
	be, isBin := ast.Unparen(cond).(*ast.BinaryExpr)
	if !isBin || (be.Op != token.NEQ && be.Op != token.EQL) {
		return nil, false, false
	}
	x, y := ast.Unparen(be.X), ast.Unparen(be.Y)
	if tv, found := info.Types[y]; !found || !tv.IsNil() {
		if tv2, found2 := info.Types[x]; found2 && tv2.IsNil() {
			x, y = y, x
		} else {
			return nil, false, false
		}
	}
	id, isId := x.(*ast.Ident)
	if !isId {
		return nil, false, false
	}
	o := info.Uses[id]
	if o == nil {
		o = info.Defs[id]
	}
	if o == nil {
		return nil, false, false
	}
	return o, be.Op == token.NEQ, true
}

// SuccessEdge: for a call statement `..., err := f(...)` held in block b, find the CFG
// edge taken when err == nil, provided the block ends in a nil test of that same err
// object with no other assignment to it in between. Returns the edge and whether found.
func (fc *FuncCFG) SuccessEdge(call *ast.CallExpr) (Edge, types.Object, bool) {
	b := fc.BlockOf(call)
	if b == nil {
		return Edge{}, nil, false
	}
	i := fc.NodeIndex(b, call)
	if i < 0 {
		return Edge{}, nil, false
	}
	var errObj types.Object
	switch st := b.Nodes[i].(type) {
	case *ast.AssignStmt:
		if len(st.Rhs) != 1 || ast.Unparen(st.Rhs[0]) != ast.Expr(call) {
			return Edge{}, nil, false
		}
		if id, ok := st.Lhs[len(st.Lhs)-1].(*ast.Ident); ok {
			errObj = fc.Info.Defs[id]
			if errObj == nil {
				errObj = fc.Info.Uses[id]
			}
		}
	}
	if errObj == nil || !IsErrorType(errObj.Type()) {
		return Edge{}, nil, false
	}
	// no reassignment of errObj in the remaining nodes of the block
	for _, n := range b.Nodes[i+1:] {
		reassigned := false
		ast.Inspect(n, func(x ast.Node) bool {
			if as, ok := x.(*ast.AssignStmt); ok {
				for _, l := range as.Lhs {
					if id, ok := l.(*ast.Ident); ok && (fc.Info.Uses[id] == errObj || fc.Info.Defs[id] == errObj) {
						reassigned = true
					}
				}
			}
			return true
		})
		if reassigned {
			return Edge{}, nil, false
		}
	}
	if len(b.Nodes) == 0 || len(b.Succs) != 2 {
		return Edge{}, nil, false
	}
	cond, ok := b.Nodes[len(b.Nodes)-1].(ast.Expr)
	if !ok {
		return Edge{}, nil, false
	}
	o, neq, ok := IsNilTest(fc.Info, cond)
	if !ok || o != errObj {
		return Edge{}, nil, false
	}
	if neq {
		return Edge{b, b.Succs[1]}, errObj, true
	}
	return Edge{b, b.Succs[0]}, errObj, true
}

// OnlyVia reports whether every path from entry to the block of n goes through edge e.
func (fc *FuncCFG) OnlyVia(e Edge, n ast.Node) bool {
	b := fc.BlockOf(n)
	if b == nil {
		return false
	}
	r := fc.ReachableBlocks(fc.Entry(), map[Edge]bool{e: true}, nil)
	if e.From.Succs[0] == e.From.Succs[1] {
		return false
	}
	return !r[b]
}

var _ = packages.NeedName
