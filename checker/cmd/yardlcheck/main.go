// yardlcheck: repository-specific static checker for microsoft/yardl.
// It loads /repo/tooling with go/packages (type-checked syntax, SSA on demand), runs the
// rules registered for one property and prints the obligations as JSON. It never runs
// yardl, its tests or generated code.
package main

import (
	"encoding/json"
	"flag"
	"fmt"
	"os"
	"runtime/debug"
	"sort"
	"time"

	"verif/checker/internal/core"
	"verif/checker/internal/rules"
)

type output struct {
	Property    string           `json:"property"`
	Tier        string           `json:"tier"`
	Obligations []core.Ob        `json:"obligations"`
	Rules       []*core.RuleInfo `json:"rules"`
	Stats       map[string]int   `json:"stats"`
	Tables      map[string]any   `json:"tables,omitempty"`
	WallS       float64          `json:"wall_s"`
	Fatal       string           `json:"fatal,omitempty"`
}

func main() {
	repo := flag.String("repo", "/repo", "repository root")
	prop := flag.String("prop", "", "property id (C01..C20) or 'list'")
	tier := flag.String("tier", "quick", "quick|thorough")
	out := flag.String("out", "-", "output file")
	flag.Parse()
	if *prop == "list" {
		var ids []string
		for id := range rules.Registry {
			ids = append(ids, id)
		}
		sort.Strings(ids)
		for _, id := range ids {
			fmt.Println(id)
		}
		return
	}
	start := time.Now()
	res := output{Property: *prop, Tier: *tier}
	func() {
		defer func() {
			if r := recover(); r != nil {
				res.Fatal = fmt.Sprintf("analyser panic: %v\n%s", r, debug.Stack())
			}
		}()
		rs, ok := rules.Registry[*prop]
		if !ok {
			res.Fatal = "no rules registered for " + *prop
			return
		}
		c, err := core.Load(*repo, *tier)
		if err != nil {
			res.Fatal = "load: " + err.Error()
			return
		}
		for _, r := range rs {
			r(c)
		}
		res.Obligations, res.Rules = c.Finish()
		res.Stats = c.Stats
		res.Tables = c.Tables
	}()
	res.WallS = time.Since(start).Seconds()
	b, _ := json.MarshalIndent(res, "", " ")
	if *out == "-" {
		os.Stdout.Write(b)
	} else if err := os.WriteFile(*out, b, 0644); err != nil {
		fmt.Fprintln(os.Stderr, err)
		os.Exit(2)
	}
	if res.Fatal != "" {
		fmt.Fprintln(os.Stderr, res.Fatal)
		os.Exit(2)
	}
}
