// geedump prints the guarded-emission table of one function (development aid).
package main

import (
	"fmt"
	"go/ast"
	"go/types"
	"os"

	"verif/checker/internal/core"
	"verif/checker/internal/gee"
)

func main() {
	repo := "/repo"
	if r := os.Getenv("VERIF_REPO"); r != "" {
		repo = r
	}
	c, err := core.Load(repo, "quick")
	if err != nil {
		fmt.Println(err)
		os.Exit(2)
	}
	_, d, p := c.Func(os.Args[1], os.Args[2])
	if d == nil {
		fmt.Println("not found")
		os.Exit(2)
	}
	x := &gee.Extractor{Info: p.TypesInfo, Fset: c.Fset, AllReturns: os.Getenv("GEE_ALL") != ""}
	if os.Getenv("GEE_CALLS") != "" {
		x.Decl = func(f *types.Func) *ast.FuncDecl {
			if f.Pkg() != p.Types {
				return nil
			}
			return c.Decl(f)
		}
	}
	for _, r := range x.Extract(os.Args[2], d) {
		fmt.Println(r.String())
	}
}
