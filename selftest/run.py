#!/usr/bin/env python3
"""Self-test of the checks: fire on broken variants, stay silent on equivalent ones.

  selftest/run.py [--props C01,C07] [--kinds seeded,mutants,refactors] [--json out.json] [--repo /repo] [-j N] [--all-props [--under C08,C09]]

For every fixture a scratch copy of the repository's working tree is made under $TMPDIR
(never inside /repo or /verif), the patch is applied to the copy, the *static* check of
the property is run against the copy (./check <Cxx> quick --repo <copy>) and the copy is
removed. Nothing from the repository is executed.

  seeded/<id>/patch[.rebased].diff   behaviour-breaking change written by an independent agent, verified to compile,
                                     pass the pinned tests and break the property: the check must print VIOLATION
  selftest/mutants/<Cxx>-*.diff      one rule instance broken by hand: the check must print VIOLATION
                                     (a first line `# expect: <rule id>` names the rule that has to fire)
  selftest/refactors/<Cxx>-*.diff    behaviour-preserving edit: the check must stay silent

--all-props runs every refactor fixture against all twenty properties (an edit that preserves
behaviour must not alarm any of them).

Exit status 0 iff every fixture that applies behaves as stated. A fixture whose patch no
longer applies (the code it touches was edited) is reported as `stale` and not counted.
"""
import concurrent.futures
import glob
import json
import os
import re
import shutil
import subprocess
import sys
import tempfile

HERE = os.path.dirname(os.path.abspath(__file__))
ROOT = os.path.dirname(HERE)


def fixtures(kinds, props):
    out = []
    extra = {}
    mp = os.path.join(HERE, "seeded_map.txt")
    if os.path.exists(mp):
        for line in open(mp):
            parts = line.split()
            if parts:
                extra[parts[0]] = parts[1:]
    if "seeded" in kinds:
        for d in sorted(glob.glob(os.path.join(ROOT, "seeded", "C*-*"))):
            fid = os.path.basename(d)
            prop = fid.split("-")[0]
            pf = os.path.join(d, "patch.rebased.diff")
            if not os.path.exists(pf):
                pf = os.path.join(d, "patch.diff")
            for p in [prop] + extra.get(fid, []):
                out.append({"kind": "seeded", "id": fid, "prop": p, "patch": pf, "expect": "violation", "own": p == prop})
    for kind, expect in (("mutants", "violation"), ("refactors", "silent")):
        if kind not in kinds:
            continue
        for pf in sorted(glob.glob(os.path.join(HERE, kind, "C*-*.diff"))):
            fid = os.path.basename(pf)[:-5]
            prop = fid.split("-")[0]
            rule = None
            with open(pf) as f:
                m = re.match(r"#\s*expect:\s*(\S+)", f.readline())
                if m:
                    rule = m.group(1)
            out.append({"kind": kind, "id": fid, "prop": prop, "patch": pf, "expect": expect, "rule": rule, "own": True})
    if props:
        out = [f for f in out if f["prop"] in props]
    return out


ONLY_PROPS = None  # --under C08,C09: with --all-props, run the rewrites under these properties only (after a rule edit)


def run_one(fx, repo):
    scratch = tempfile.mkdtemp(prefix="yardlself.")
    try:
        dst = os.path.join(scratch, "repo")
        subprocess.run(["rsync", "-a", "--exclude", ".git", repo.rstrip("/") + "/", dst + "/"], check=True)
        r = subprocess.run(["git", "apply", "--whitespace=nowarn", fx["patch"]], cwd=dst, capture_output=True, text=True)
        if r.returncode != 0:
            # git apply outside a work tree needs no repository, but path prefixes must match
            return dict(fx, result="stale", detail=r.stderr.strip()[-300:])
        env = dict(os.environ)
        env["VERIF_EVIDENCE_DIR"] = os.path.join(scratch, "ev")
        env["VERIF_NOBUILD"] = "1"
        if fx.get("all_props"):
            # a behaviour-preserving edit must leave EVERY property's check silent, not only its own
            alarms = []
            for n in range(1, 21):
                p = "C%02d" % n
                if ONLY_PROPS and p not in ONLY_PROPS:
                    continue
                r = subprocess.run([os.path.join(ROOT, "check"), p, "quick", "--repo", dst], env=env, capture_output=True, text=True)
                if r.returncode != 0 or any(l.startswith("VIOLATION ") for l in r.stdout.splitlines()):
                    alarms += ["%s:%s" % (p, m.group(1)) for m in re.finditer(r"^(?:VIOLATED|UNDECIDED): (\S+)", r.stdout, re.M)] or [p + ":exit%d" % r.returncode]
            return dict(fx, fired=alarms, exit=1 if alarms else 0, result="FALSE-ALARM" if alarms else "silent")
        r = subprocess.run([os.path.join(ROOT, "check"), fx["prop"], "quick", "--repo", dst], env=env, capture_output=True, text=True)
        fired = sorted({m.group(1) for m in re.finditer(r"^(?:VIOLATED|UNDECIDED): (\S+)", r.stdout, re.M)})
        violation = any(l.startswith("VIOLATION ") for l in r.stdout.splitlines())
        res = dict(fx, fired=fired, exit=r.returncode)
        if fx["expect"] == "violation":
            ok = violation and r.returncode == 1
            if ok and fx.get("rule"):
                ok = any(k.split("/")[0] == fx["rule"] for k in fired)
            res["result"] = "caught" if ok else "MISSED"
        else:
            res["result"] = "silent" if (not violation and r.returncode == 0) else "FALSE-ALARM"
        return res
    finally:
        shutil.rmtree(scratch, ignore_errors=True)


def main():
    global ROOT, ONLY_PROPS
    args = sys.argv[1:]
    props, kinds, out_json, repo, jobs = None, {"seeded", "mutants", "refactors"}, None, "/repo", 8
    all_props = False
    match = None
    i = 0
    while i < len(args):
        if args[i] == "--props":
            i += 1
            props = set(args[i].split(","))
        elif args[i] == "--kinds":
            i += 1
            kinds = set(args[i].split(","))
        elif args[i] == "--json":
            i += 1
            out_json = args[i]
        elif args[i] == "--repo":
            i += 1
            repo = args[i]
        elif args[i] == "--all-props":
            all_props = True
        elif args[i] == "--under":
            i += 1
            ONLY_PROPS = set(args[i].split(","))
        elif args[i] == "--match":
            i += 1
            match = args[i]
        elif args[i] == "-j":
            i += 1
            jobs = int(args[i])
        i += 1
    fxs = fixtures(kinds, props)
    if match:
        fxs = [f for f in fxs if re.search(match, f["id"])]
    if all_props:
        fxs = [dict(f, all_props=True) for f in fxs if f["kind"] == "refactors"]
    # build the analyser once, before the parallel runs
    b = subprocess.run(["go", "build", "-o", "bin/yardlcheck", "./cmd/yardlcheck"], cwd=os.path.join(ROOT, "checker"),
                       env=dict(os.environ, GOFLAGS="-mod=mod", GOPROXY="off"), capture_output=True, text=True)
    if b.returncode != 0:
        print("build failed:", b.stderr[-500:])
        return 2
    # run against a snapshot of the checker (binary, pyan, refs, tables), so that editing /verif while a long
    # battery runs cannot change what it measures
    orig_root = ROOT
    snap = tempfile.mkdtemp(prefix="yardlsnap.")
    subprocess.run(["rsync", "-a", "--exclude", ".git", "--exclude", "seeded", "--exclude", "evidence", "--exclude", "selftest",
                    "--exclude", "__pycache__", ROOT.rstrip("/") + "/", snap + "/"], check=True)
    ROOT = snap
    try:
        with concurrent.futures.ThreadPoolExecutor(max_workers=jobs) as ex:
            results = list(ex.map(lambda f: run_one(f, repo), fxs))
    finally:
        ROOT = orig_root
        shutil.rmtree(snap, ignore_errors=True)
    # rewrites on which an alarm is a documented limit of a rule (selftest/refactors_limits.json)
    limits = {}
    try:
        with open(os.path.join(HERE, "refactors_limits.json")) as f:
            limits = {k: v for k, v in json.load(f).items() if not k.startswith("_")}
    except OSError:
        pass
    for r in results:
        if r["result"] == "FALSE-ALARM" and r["id"] in limits:
            allowed = set(limits[r["id"]]["rules"])
            fired_rules = set()
            for k in r.get("fired", []):
                k2 = k.split(":", 1)[1] if re.match(r"^C\d\d:", k) else k
                fired_rules.add(k2.split("/", 1)[0])
            if fired_rules <= allowed:
                r["result"] = "LIMIT"
    bad = 0
    for r in results:
        line = "%-9s %-28s %-4s %-11s %s" % (r["kind"], r["id"], r["prop"], r["result"], " ".join(r.get("fired", []))[:(40000 if r["result"] == "FALSE-ALARM" else 160)])
        print(line)
        if r["result"] in ("MISSED", "FALSE-ALARM") and r.get("own", True):
            bad += 1
    # a seeded change counts as caught when any of its listed properties catches it
    by_id = {}
    for r in results:
        if r["kind"] == "seeded":
            by_id.setdefault(r["id"], []).append(r["result"])
    missed_seeded = [k for k, v in by_id.items() if "caught" not in v and "stale" not in v]
    summary = {
        "fixtures": len(results),
        "caught": sum(r["result"] == "caught" for r in results),
        "silent": sum(r["result"] == "silent" for r in results),
        "missed": sum(r["result"] == "MISSED" for r in results),
        "false_alarms": sum(r["result"] == "FALSE-ALARM" for r in results),
        "documented_limits": sum(r["result"] == "LIMIT" for r in results),
        "stale": sum(r["result"] == "stale" for r in results),
        "seeded_changes_not_caught_by_any_listed_property": missed_seeded,
    }
    print(json.dumps(summary))
    if out_json:
        with open(out_json, "w") as f:
            json.dump({"summary": summary, "results": [{k: v for k, v in r.items() if k != "patch"} for r in results]}, f, indent=1)
    return 1 if (summary["missed"] or summary["false_alarms"]) else 0


if __name__ == "__main__":
    sys.exit(main())
