#!/usr/bin/env python3
# re-verifies every seeded change: applies, builds, passes the pinned tests (on the current tree)
import glob, json, os, subprocess, sys, concurrent.futures
env=dict(os.environ); env['GOFLAGS']='-mod=mod'; env['GOPROXY']='off'
for k in ('GOWORK','GOTOOLCHAIN','GOSUMDB'): env.pop(k,None)
N=4
def sh(cmd,cwd): return subprocess.run(cmd,cwd=cwd,env=env,capture_output=True,text=True,shell=isinstance(cmd,str))
for i in range(N):
    w=f'/tmp/rv/w{i}'
    if not os.path.isdir(w): sh(f'git -C /repo worktree add -q --detach {w} HEAD','/')
seeds=sorted(glob.glob('/verif/seeded/C*-*'))
head=sh('git rev-parse --short HEAD','/repo').stdout.strip()
def work(args):
    i,chunk=args; w=f'/tmp/rv/w{i}'; out=[]
    for d in chunk:
        pf=d+'/patch.rebased.diff'
        if not os.path.exists(pf): pf=d+'/patch.diff'
        sh('git checkout -q -- . && git clean -fdq',w)
        r=sh(['git','apply','--whitespace=nowarn',pf],w)
        rec={'id':os.path.basename(d),'patch':os.path.basename(pf),'tree':head}
        if r.returncode!=0: rec['applies']=False; rec['err']=r.stderr[-300:]
        else:
            rec['applies']=True
            b=sh('go build ./... && go vet ./... >/dev/null 2>&1; go build ./...',w+'/tooling'); rec['build']=b.returncode==0
            t=sh('go test -vet=off -count=1 -json ./...',w+'/tooling')
            p=f=0
            for l in t.stdout.splitlines():
                try: e=json.loads(l)
                except Exception: continue
                if e.get('Test'):
                    if e.get('Action')=='pass': p+=1
                    elif e.get('Action')=='fail': f+=1
            rec['tests_pass']=p; rec['tests_fail']=f; rec['test_exit']=t.returncode
        out.append(rec)
        open(f'/tmp/rv/results.{i}.jsonl','a').write(json.dumps(rec)+'\n')
    sh('git checkout -q -- . && git clean -fdq',w)
    return out
chunks=[(i,seeds[i::N]) for i in range(N)]
with concurrent.futures.ThreadPoolExecutor(N) as ex: list(ex.map(work,chunks))
print('done')
