import subprocess, sys, os, tempfile, shutil, json, concurrent.futures, re
ids=sys.argv[1:]
props=["C%02d"%i for i in range(1,21)]
snap=tempfile.mkdtemp(prefix="yardlsnap.")
subprocess.run(["rsync","-a","--exclude",".git","--exclude","seeded","--exclude","evidence","--exclude","selftest","/verif/",snap+"/"],check=True)
def run(sid):
    s=tempfile.mkdtemp(prefix="yardlx.")
    try:
        subprocess.run(["rsync","-a","--exclude",".git","/repo/",s+"/repo/"],check=True)
        pf="/verif/seeded/%s/patch.rebased.diff"%sid
        if not os.path.exists(pf): pf="/verif/seeded/%s/patch.diff"%sid
        r=subprocess.run(["git","apply","--whitespace=nowarn",pf],cwd=s+"/repo",capture_output=True,text=True)
        if r.returncode!=0: return sid,"STALE",[]
        hits=[]
        for p in props:
            env=dict(os.environ,VERIF_EVIDENCE_DIR=s+"/ev",VERIF_NOBUILD="1")
            r=subprocess.run([snap+"/check",p,"quick","--repo",s+"/repo"],env=env,capture_output=True,text=True)
            keys=[re.sub(r" .*","",l.split(": ",1)[1]) for l in r.stdout.splitlines() if l.startswith(("VIOLATED:","UNDECIDED:"))]
            if keys: hits.append(p+":"+",".join(sorted(set(k.split("/")[0] for k in keys))))
        return sid,"ok",hits
    finally:
        shutil.rmtree(s,ignore_errors=True)
with concurrent.futures.ThreadPoolExecutor(max_workers=12) as ex:
    for sid,st,hits in ex.map(run,ids):
        print(sid,st," ".join(hits))
shutil.rmtree(snap,ignore_errors=True)
