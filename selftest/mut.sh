#!/bin/bash
# usage: selftest/mut.sh <patch.diff> <Cxx> [more props...]
# Applies a patch to a scratch copy of /repo (under $TMPDIR), runs the checks against
# the copy, removes the copy. Development gate only; never touches /repo.
set -u
patch=$(readlink -f "$1"); shift
scratch=$(mktemp -d "${TMPDIR:-/tmp}/yardlmut.XXXXXX")
trap 'rm -rf "$scratch"' EXIT
rsync -a --exclude .git /repo/ "$scratch/repo/"
( cd "$scratch/repo" && git init -q . 2>/dev/null; git apply --whitespace=nowarn "$patch" ) || { echo "PATCH DOES NOT APPLY: $patch"; exit 3; }
rc=0
for p in "$@"; do
  VERIF_EVIDENCE_DIR="$scratch/ev" /verif/check "$p" quick --repo "$scratch/repo" | grep -v '^KNOWN-FINDING' | sed "s#$scratch/##g" | tail -${MUT_TAIL:-6} || true
done
