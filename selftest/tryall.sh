#!/bin/bash
# selftest/tryall.sh <patch.diff> : apply to a scratch copy, run all 20 quick checks, print which fire (debug aid)
S=$(mktemp -d /tmp/yardltry.XXXX)
trap 'rm -rf $S' EXIT
rsync -a --exclude .git /repo/ $S/repo/
P=$(realpath "$1")
(cd $S/repo && git apply --whitespace=nowarn "$P") || { echo "STALE: patch does not apply"; exit 2; }
cd /verif
for i in $(seq -w 1 20); do
  VERIF_EVIDENCE_DIR=$S/ev VERIF_NOBUILD=1 ./check C$i quick --repo $S/repo | grep '^VIOLATED\|^UNDECIDED' | cut -c1-260 | sed "s/^/C$i /"
done
