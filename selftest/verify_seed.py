#!/usr/bin/env python3
# verify.py Cxx-a ... : confirm a delivered change myself: applies, builds, passes the tests, demo 0 on clean / !=0 on changed
import json, os, subprocess, sys, glob, shutil
ROOT=os.environ.get('SEED_ROOT','/tmp/r9')
env=dict(os.environ); env['GOFLAGS']='-mod=mod'; env['GOPROXY']='off'
for k in ('GOWORK','GOTOOLCHAIN','GOSUMDB'): env.pop(k,None)
def sh(cmd,cwd,timeout=1500):
    try: return subprocess.run(cmd,cwd=cwd,env=env,capture_output=True,text=True,shell=isinstance(cmd,str),timeout=timeout)
    except subprocess.TimeoutExpired as e:
        class R: returncode=124; stdout=''; stderr='timeout'
        return R()
def demo_of(d):
    for n in ('demo.sh','demo.py','run_demo.sh'):
        if os.path.exists(os.path.join(d,n)): return n
    c=glob.glob(d+'/demo*')+glob.glob(d+'/*.sh')
    return os.path.basename(c[0]) if c else None
def one(cid):
    d=f'{ROOT}/out/{cid}'; rec={'id':cid}
    if not os.path.exists(d+'/patch.diff'): rec['error']='no patch'; return rec
    w=f'{ROOT}/vw/{cid}'
    if os.path.isdir(w): sh(f'git -C /repo worktree remove --force {w}','/')
    sh(f'git -C /repo worktree add -q --detach {w} HEAD','/')
    try:
        dm=demo_of(d); rec['demo']=dm
        run=(['bash',dm,w] if dm and dm.endswith('.sh') else ['python3-vt',dm,w]) if dm else None
        if run:
            r=sh(run,d); rec['demo_clean']=r.returncode; rec['demo_clean_tail']=(r.stdout+r.stderr)[-400:]
        r=sh(['git','apply','--whitespace=nowarn',d+'/patch.diff'],w); rec['applies']=r.returncode==0
        if not rec['applies']: rec['err']=r.stderr[-300:]; return rec
        rec['files']=sh('git diff --name-only',w).stdout.split()
        b=sh('go build ./...',w+'/tooling'); rec['build']=b.returncode==0
        t=sh('go test -vet=off -count=1 -json ./...',w+'/tooling'); p=f=0
        for l in t.stdout.splitlines():
            try: e=json.loads(l)
            except Exception: continue
            if e.get('Test'):
                if e.get('Action')=='pass': p+=1
                elif e.get('Action')=='fail': f+=1
        rec['tests_pass']=p; rec['tests_fail']=f; rec['test_exit']=t.returncode
        if run:
            r=sh(run,d); rec['demo_changed']=r.returncode; rec['demo_changed_tail']=(r.stdout+r.stderr)[-600:]
        rec['ok']=bool(rec['build'] and f==0 and t.returncode==0 and p>=435 and run and rec['demo_clean']==0 and rec['demo_changed'] not in (0,124))
    finally:
        sh(f'git -C /repo worktree remove --force {w}','/')
    return rec
os.makedirs(ROOT+'/vw',exist_ok=True); os.makedirs(ROOT+'/verified',exist_ok=True)
for cid in sys.argv[1:]:
    rec=one(cid)
    json.dump(rec,open(f'{ROOT}/verified/{cid}.json','w'),indent=1)
    print(cid,'OK' if rec.get('ok') else 'NOT-OK',{k:v for k,v in rec.items() if k in('applies','build','tests_pass','tests_fail','demo_clean','demo_changed','error')})
