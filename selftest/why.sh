#!/bin/bash
# selftest/why.sh <fixture.diff> <Cxx> [<Cxx>...] : apply a fixture to a scratch copy and print the alarms of the given checks (debug aid)
S=$(mktemp -d /tmp/yardlwhy.XXXX)
trap 'rm -rf $S' EXIT
rsync -a --exclude .git /repo/ $S/repo/
P=$(realpath "$1"); shift
(cd $S/repo && git apply --whitespace=nowarn "$P") || exit 2
for p in "$@"; do
  (cd /verif && VERIF_EVIDENCE_DIR=$S/ev VERIF_NOBUILD=1 ./check "$p" quick --repo $S/repo | grep "^VIOLATED\|^UNDECIDED" | cut -c1-${WHYW:-330} | sed "s/^/$p /")
done
