#!/bin/bash
# selftest/scratch.sh <fixture.diff> : make a scratch copy with the fixture applied and print its path (debug aid; remove it yourself)
set -e
S=$(mktemp -d /tmp/yardlscr.XXXX)
rsync -a --exclude .git /repo/ $S/repo/
P=$(realpath "$1"); (cd $S/repo && git apply --whitespace=nowarn "$P")
echo $S/repo
