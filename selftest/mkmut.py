#!/usr/bin/env python3
"""Development helper: build a fixture patch from textual replacements.

  mkmut.py <kind> <id> <rule|-> <note> <file> <old> <new> [<file> <old> <new> ...]

kind is mutants or refactors; file is relative to /repo; each <old> must occur exactly
once in the file. The patch is written to selftest/<kind>/<id>.diff.
"""
import difflib
import os
import sys

HERE = os.path.dirname(os.path.abspath(__file__))


def main():
    kind, fid, rule, note = sys.argv[1:5]
    rest = sys.argv[5:]
    out = []
    if rule != "-":
        out.append("# expect: %s   (%s)\n" % (rule, note))
    else:
        out.append("# %s\n" % note)
    files = {}
    for i in range(0, len(rest), 3):
        f, old, new = rest[i:i + 3]
        src = files.get(f)
        if src is None:
            src = open(os.path.join("/repo", f)).read()
            files.setdefault(f + "\0orig", src)
        if src.count(old) != 1:
            sys.exit("%s: %d occurrences of %r" % (f, src.count(old), old))
        files[f] = src.replace(old, new)
    for f in [k for k in files if "\0" not in k]:
        a = files[f + "\0orig"].splitlines(keepends=True)
        b = files[f].splitlines(keepends=True)
        out.append("diff --git a/%s b/%s\n" % (f, f))
        out += list(difflib.unified_diff(a, b, "a/" + f, "b/" + f))
    p = os.path.join(HERE, kind, fid + ".diff")
    with open(p, "w") as fh:
        fh.writelines(out)
    print("wrote", p)


if __name__ == "__main__":
    main()
