#!/usr/bin/env python3
"""import_round.py <root> <round> <id>... : confirm delivered changes (verify_seed.py) and import the confirmed ones.

<root>/out/<id>/ holds what an independent sub-agent delivered (patch.diff, demo.sh, README.md, model/harness files).
Each is confirmed in a scratch worktree of /repo under <root>/vw (removed afterwards): the patch applies, `go build`,
the 435 pinned tests pass, the demonstration exits 0 on the unchanged tree and non-zero with the change. Confirmed
changes are copied to /verif/seeded/<id>/ with a meta.json; the others are listed and left where they are.
"""
import json, os, re, shutil, subprocess, sys
from concurrent.futures import ThreadPoolExecutor

HERE = os.path.dirname(os.path.abspath(__file__))
ROOT = os.path.dirname(HERE)


def main():
    root, rnd, ids = sys.argv[1], int(sys.argv[2]), sys.argv[3:]
    env = dict(os.environ, SEED_ROOT=root)

    def verify(cid):
        subprocess.run([sys.executable, os.path.join(HERE, "verify_seed.py"), cid], env=env, capture_output=True, text=True)
        try:
            return json.load(open(f"{root}/verified/{cid}.json"))
        except Exception as e:  # noqa
            return {"id": cid, "ok": False, "error": str(e)}

    with ThreadPoolExecutor(max_workers=4) as ex:
        recs = list(ex.map(verify, ids))
    head = subprocess.run(["git", "-C", "/repo", "rev-parse", "--short", "HEAD"], capture_output=True, text=True).stdout.strip()
    for rec in recs:
        cid = rec["id"]
        if not rec.get("ok"):
            print(cid, "NOT-CONFIRMED", {k: v for k, v in rec.items() if k in ("applies", "build", "tests_pass", "tests_fail", "demo_clean", "demo_changed", "error", "err")})
            continue
        src, dst = f"{root}/out/{cid}", f"{ROOT}/seeded/{cid}"
        if os.path.isdir(dst):
            shutil.rmtree(dst)
        shutil.copytree(src, dst, ignore=shutil.ignore_patterns("__pycache__", "*.pyc", "*.o", "yardl"))
        readme = open(src + "/README.md").read() if os.path.exists(src + "/README.md") else ""
        title = ""
        for line in readme.splitlines():
            if line.strip().startswith("#"):
                title = line.strip("# ").strip()
                break
        m = re.search(r"(?is)(needs?[^\n]*manifest[^\n]*\n)(.*?)(\n#|\Z)", readme)
        needs = (m.group(2).strip() if m else "")[:1500] or "see README.md"
        meta = {
            "id": cid, "property": cid.split("-")[0], "round": rnd, "change": title, "files_touched": rec.get("files", []),
            "needs_to_manifest": needs,
            "demonstration": f"{rec.get('demo')} <yardl source tree> (exit 0 on the unchanged tree, non-zero with the change)",
            "base_commit": f"{head} (/repo HEAD at import, all fix: commits included)",
            "what_was_run": [
                "git -C /repo worktree add --detach <scratch> HEAD",
                f"{rec.get('demo')} <scratch>   # unchanged tree: exit {rec.get('demo_clean')}",
                "git apply patch.diff",
                "cd tooling && go build ./...   # ok",
                f"cd tooling && go test -vet=off -count=1 -json ./...   # {rec.get('tests_pass')} tests pass, {rec.get('tests_fail')} fail",
                f"{rec.get('demo')} <scratch>   # changed tree: exit {rec.get('demo_changed')}",
                "git -C /repo worktree remove --force <scratch>",
            ],
            "result": f"build=ok tests={rec.get('tests_pass')}/{rec.get('tests_pass')} demo_clean={rec.get('demo_clean')} demo_changed={rec.get('demo_changed')}",
            "observed_on_changed_tree": rec.get("demo_changed_tail", "")[-600:],
            "author": "independent sub-agent given only the property text, the titles of earlier changes for the property and a scratch worktree; confirmed by the orchestrator with selftest/verify_seed.py",
        }
        json.dump(meta, open(dst + "/meta.json", "w"), indent=1)
        print(cid, "IMPORTED", meta["result"], "|", title[:120])


if __name__ == "__main__":
    main()
