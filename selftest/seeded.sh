#!/bin/bash
# Runs every seeded change under /verif/seeded against the check of its property (and any
# extra properties given in selftest/seeded_map.txt) on a scratch copy of /repo; prints
# CAUGHT/missed per change. Development gate only.
cd /verif
for d in seeded/*/; do
  id=$(basename $d); prop=${id%-*}
  extra=$(grep "^$id " selftest/seeded_map.txt 2>/dev/null | cut -d' ' -f2-)
  pf=$d/patch.diff; [ -f $d/patch.rebased.diff ] && pf=$d/patch.rebased.diff; out=$(MUT_TAIL=200 selftest/mut.sh $pf $prop $extra 2>&1)
  if echo "$out" | grep -q "PATCH DOES NOT APPLY"; then echo "$id NOAPPLY"; continue; fi
  hit=$(echo "$out" | grep "^VIOLATION" | sed 's/ replay.*//' | sort -u | tr '\n' ' ')
  if [ -n "$hit" ]; then echo "$id CAUGHT $hit"; else echo "$id missed"; fi
done
