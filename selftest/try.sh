#!/bin/bash
# selftest/try.sh <fixture.diff> <Cxx> : apply the fixture to a scratch copy and run one check on it (debug aid)
set -e
S=$(mktemp -d /tmp/yardltry.XXXX)
trap 'rm -rf $S' EXIT
rsync -a --exclude .git /repo/ $S/repo/
P=$(realpath "$1"); (cd $S/repo && git apply --whitespace=nowarn "$P")
cd /verif && VERIF_EVIDENCE_DIR=$S/ev VERIF_NOBUILD=1 ./check "$2" quick --repo $S/repo | grep -v '^KNOWN' | cut -c1-700
