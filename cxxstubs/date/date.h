// Stub used ONLY so that clang can parse yardl's own NDJSON runtime headers in a sandbox without
// Howard Hinnant's date library: the declarations live in ../yardl.h (namespace date). No yardl code lives here.
#pragma once
#include "../yardl.h"
#include <istream>
#include <string>
namespace date {
template <class CharT, class Streamable> std::basic_string<CharT> format(const CharT* fmt, const Streamable& tp);
template <class Streamable, class CharT, class Traits> std::basic_istream<CharT, Traits>& from_stream(std::basic_istream<CharT, Traits>& is, const CharT* fmt, Streamable& tp);
}  // namespace date
