// Stub used ONLY so that clang can parse yardl's own runtime headers
// (tooling/internal/cpp/include/detail/binary/*.h) in a sandbox without xtensor and
// Howard Hinnant's date library. It models the third-party types by declarations; no
// yardl code lives here and no rule inspects anything defined in this file.
#pragma once
#include <array>
#include <chrono>
#include <cstddef>
#include <cstdint>
#include <string>
#include <type_traits>
#include <vector>

namespace date {
using days = std::chrono::duration<int, std::ratio<86400>>;
struct local_t {};
template <class D> using local_time = std::chrono::time_point<local_t, D>;
using local_days = local_time<days>;
}  // namespace date

namespace yardl {
using Date = date::local_days;
using Time = std::chrono::duration<int64_t, std::nano>;
using DateTime = std::chrono::time_point<std::chrono::system_clock, std::chrono::nanoseconds>;
using Size = std::conditional_t<sizeof(size_t) == sizeof(uint64_t), size_t, uint64_t>;

template <typename T> struct DynamicNDArray { T* begin(); T* end(); T const* begin() const; T const* end() const; };
template <typename T, size_t N> struct NDArray { T* begin(); T* end(); T const* begin() const; T const* end() const; };
template <typename T, size_t... Dims> struct FixedNDArray { T* begin(); T* end(); T const* begin() const; T const* end() const; };

template <typename A> std::vector<size_t> shape(A const&);
template <typename A> size_t size(A const&);
template <typename T> T* dataptr(DynamicNDArray<T>&);
template <typename T> T const* dataptr(DynamicNDArray<T> const&);
template <typename T, size_t N> T* dataptr(NDArray<T, N>&);
template <typename T, size_t N> T const* dataptr(NDArray<T, N> const&);
template <typename T, size_t... D> T* dataptr(FixedNDArray<T, D...>&);
template <typename T, size_t... D> T const* dataptr(FixedNDArray<T, D...> const&);
template <typename A, typename S> void resize(A&, S const&);
}  // namespace yardl
