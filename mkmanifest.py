#!/usr/bin/env python3
"""Regenerates MANIFEST.json from pyan/props.py (claimed checks) and pyan/notapplicable.py."""
import json, os, sys
HERE = os.path.dirname(os.path.abspath(__file__))
sys.path.insert(0, os.path.join(HERE, "pyan"))
import props
import notapplicable

checks = []
for pid in sorted(props.PROPS):
    m = props.PROPS[pid]
    checks.append({
        "property_id": pid,
        "quick_cmd": "./check %s quick" % pid,
        "thorough_cmd": "./check %s thorough" % pid,
        "evidence_file": "/verif/evidence/%s.json" % pid,
        "replay_cmd_template": "./check %s quick --replay {path}" % pid,
        "engine": "yardlcheck",
        "level_claimed": {
            "category": "other",
            "text": m["explanation"] + " NOT decided (behavioural remainder): " + m["not_decided"],
            "design_ref": "DESIGN.md §3 " + pid,
        },
        "level_note": "Static analysis only; decides the named structural necessary conditions, not the behaviour. Trusted: go/types, go/cfg, go/ssa "
                      "(x/tools v0.29.0), python ast, clang 14 AST dump, the frozen reference tables in /verif/refs and the idiom/exception tables in the rules. "
                      + " ".join(m.get("assumptions", [])[:2]),
        "technique": m.get("technique", "repository-specific static analysis (type-checked AST, CFG dominance, call-graph reachability)"),
    })

na = [{"property_id": k, "reason": v} for k, v in sorted(notapplicable.NA.items()) if k not in props.PROPS]
manifest = {
    "version": 1,
    "setup_cmd": "cd /verif/checker && env -u GOWORK -u GOTOOLCHAIN -u GOSUMDB GOFLAGS=-mod=mod GOPROXY=off go build -o bin/yardlcheck ./cmd/yardlcheck",
    "hooks": {
        "guard": "verif",
        "enable": "the analyser loads /repo/tooling with build tag `verif` (go/packages BuildFlags -tags=verif); no hook files exist, the checks need none",
        "baseline_off_cmd": "cd /repo/tooling && env -u GOWORK GOFLAGS=-mod=mod GOPROXY=off go test -vet=off -count=1 ./...",
        "source_commits": [],
        "add_only": True,
    },
    "engines": [
        {"name": "yardlcheck", "path": "/verif/checker", "serves_properties": sorted(props.PROPS),
         "kind_free_text": "Go analyser over go/packages type-checked syntax, go/cfg dominance, go/ssa and static/VTA call graphs of /repo/tooling; rules are specific to yardl"},
        {"name": "pyan", "path": "/verif/pyan", "serves_properties": sorted(props.PROPS),
         "kind_free_text": "python-ast analyser of the embedded Python runtime and clang-JSON-AST analyser of the embedded C++ headers"},
    ],
    "checks": checks,
    "not_applicable": na,
    "notes": "Technique family: static analysis. Every check reads /repo's current source on each run and executes nothing from it. "
             "known_findings.json lists recorded defects (KNOWN-FINDING lines) and the fix: commits made in /repo.",
}
with open(os.path.join(HERE, "MANIFEST.json"), "w") as f:
    json.dump(manifest, f, indent=1)
print("MANIFEST.json: %d checks, %d not_applicable" % (len(checks), len(na)))
